//! Shared infrastructure of the runtime monitors: PRNG, case scheduling, panic capture,
//! report/evidence writing, known-findings matching, verdict + exit code.
pub mod rng;
pub mod report;
pub mod guard;
pub mod par;
pub mod ctx;
pub mod alloc_mon;
pub mod miri;
pub mod io;

pub use ctx::{Ctx, Tier};
pub use guard::{guard, PanicInfo};
pub use report::{Report, Violation};
pub use rng::Rng;
pub use serde_json::{json, Value};
