//! Hostile but legal `Read` implementations: `std::io::Read::read` may return fewer bytes than asked for at any time
//! (a `BufReader` over a file, a zip entry, a socket, two chained buffers all do). Code that calls `read` once where it
//! needs `read_exact` only shows under such a reader; a `Cursor` over a slice never produces a short read.
use std::io::{Read, Result, Seek, SeekFrom, Write};

/// Hands out the underlying bytes in chunks of `1..=max_chunk` bytes (deterministic in `seed`), and additionally never
/// crosses one of the `seams` (absolute offsets) in a single call. `Seek` is supported (positions are those of the slice).
pub struct ChunkedReader<'a> { data: &'a [u8], pos: usize, state: u64, max_chunk: usize, pub short_reads: u64, pub calls: u64 }

impl<'a> ChunkedReader<'a> {
    pub fn new(data: &'a [u8], seed: u64, max_chunk: usize) -> Self { ChunkedReader { data, pos: 0, state: seed | 1, max_chunk: max_chunk.max(1), short_reads: 0, calls: 0 } }
    pub fn position(&self) -> usize { self.pos }
    fn next(&mut self) -> u64 { let mut x = self.state; x ^= x << 13; x ^= x >> 7; x ^= x << 17; self.state = x; x }
}
impl Read for ChunkedReader<'_> {
    fn read(&mut self, buf: &mut [u8]) -> Result<usize> {
        self.calls += 1;
        let left = self.data.len().saturating_sub(self.pos);
        if buf.is_empty() || left == 0 { return Ok(0); }
        let want = buf.len().min(left);
        let n = (1 + (self.next() as usize) % self.max_chunk).min(want);
        if n < want { self.short_reads += 1; }
        buf[..n].copy_from_slice(&self.data[self.pos..self.pos + n]);
        self.pos += n;
        Ok(n)
    }
}
impl Seek for ChunkedReader<'_> {
    fn seek(&mut self, to: SeekFrom) -> Result<u64> {
        let new = match to {
            SeekFrom::Start(p) => p as i128,
            SeekFrom::End(d) => self.data.len() as i128 + d as i128,
            SeekFrom::Current(d) => self.pos as i128 + d as i128,
        };
        if new < 0 { return Err(std::io::Error::new(std::io::ErrorKind::InvalidInput, "seek before start")); }
        self.pos = new as usize; // like Cursor: seeking past the end is allowed, reads then return 0
        Ok(self.pos as u64)
    }
}

/// Hostile but legal `Write`: `write` accepts only `1..=max_chunk` bytes per call (deterministic in `seed`), as a pipe, a socket
/// or a compressing writer may. Code that calls `write` where it needs `write_all` loses bytes only under such a writer; a
/// `Vec<u8>` always takes everything. `flushes` counts `flush` calls (a `BufWriter` wrapped around it must be flushed or
/// dropped before `data` is complete).
pub struct ChunkedWriter { pub data: Vec<u8>, state: u64, max_chunk: usize, pub short_writes: u64, pub flushes: u64 }
impl ChunkedWriter {
    pub fn new(seed: u64, max_chunk: usize) -> Self { ChunkedWriter { data: vec![], state: seed | 1, max_chunk: max_chunk.max(1), short_writes: 0, flushes: 0 } }
    fn next(&mut self) -> u64 { let mut x = self.state; x ^= x << 13; x ^= x >> 7; x ^= x << 17; self.state = x; x }
}
impl Write for ChunkedWriter {
    fn write(&mut self, buf: &[u8]) -> Result<usize> {
        if buf.is_empty() { return Ok(0); }
        let n = (1 + (self.next() as usize) % self.max_chunk).min(buf.len());
        if n < buf.len() { self.short_writes += 1; }
        self.data.extend_from_slice(&buf[..n]);
        Ok(n)
    }
    fn flush(&mut self) -> Result<()> { self.flushes += 1; Ok(()) }
}

#[cfg(test)]
mod tests {
    use super::*;
    #[test]
    fn delivers_everything_in_short_reads() {
        let data: Vec<u8> = (0..10_000u32).map(|i| (i * 7) as u8).collect();
        let mut r = ChunkedReader::new(&data, 42, 7);
        let mut out = vec![]; r.read_to_end(&mut out).unwrap();
        assert_eq!(out, data); assert!(r.short_reads > 100);
        let mut r = ChunkedReader::new(&data, 1, 3);
        let mut four = [0u8; 4]; r.read_exact(&mut four).unwrap(); assert_eq!(&four, &data[..4]);
        r.seek(SeekFrom::Start(100)).unwrap(); r.read_exact(&mut four).unwrap(); assert_eq!(&four, &data[100..104]);
    }
    #[test]
    fn takes_everything_in_short_writes() {
        let data: Vec<u8> = (0..10_000u32).map(|i| (i * 11) as u8).collect();
        let mut w = ChunkedWriter::new(7, 5);
        w.write_all(&data).unwrap(); w.flush().unwrap();
        assert_eq!(w.data, data); assert!(w.short_writes > 100); assert_eq!(w.flushes, 1);
    }
}
