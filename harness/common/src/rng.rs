//! xoshiro256** seeded through SplitMix64. Deterministic, no external crates.

#[derive(Clone, Debug)]
pub struct Rng { s: [u64; 4] }

pub fn splitmix(x: &mut u64) -> u64 {
    *x = x.wrapping_add(0x9E3779B97F4A7C15);
    let mut z = *x;
    z = (z ^ (z >> 30)).wrapping_mul(0xBF58476D1CE4E5B9);
    z = (z ^ (z >> 27)).wrapping_mul(0x94D049BB133111EB);
    z ^ (z >> 31)
}

/// seed of case `i` of property `prop` under run seed `seed`
pub fn case_seed(seed: u64, prop: &str, i: u64) -> u64 {
    let mut h: u64 = 0xcbf29ce484222325;
    for b in prop.bytes() { h = (h ^ b as u64).wrapping_mul(0x100000001b3); }
    let mut x = seed ^ h.rotate_left(17) ^ i.wrapping_mul(0xD6E8FEB86659FD93);
    splitmix(&mut x)
}

impl Rng {
    pub fn new(seed: u64) -> Rng {
        let mut x = seed;
        let s = [splitmix(&mut x), splitmix(&mut x), splitmix(&mut x), splitmix(&mut x)];
        Rng { s }
    }
    pub fn next_u64(&mut self) -> u64 {
        let r = self.s[1].wrapping_mul(5).rotate_left(7).wrapping_mul(9);
        let t = self.s[1] << 17;
        self.s[2] ^= self.s[0];
        self.s[3] ^= self.s[1];
        self.s[1] ^= self.s[2];
        self.s[0] ^= self.s[3];
        self.s[2] ^= t;
        self.s[3] = self.s[3].rotate_left(45);
        r
    }
    pub fn next_u32(&mut self) -> u32 { (self.next_u64() >> 32) as u32 }
    /// uniform in 0..n (n > 0)
    pub fn below(&mut self, n: usize) -> usize {
        assert!(n > 0);
        (((self.next_u64() >> 11) as u128 * n as u128) >> 53) as usize
    }
    /// uniform in lo..=hi
    pub fn range(&mut self, lo: i64, hi: i64) -> i64 {
        assert!(lo <= hi);
        let span = (hi - lo) as u128 + 1;
        lo + (((self.next_u64() >> 11) as u128 * span) >> 53) as i64
    }
    pub fn usize_in(&mut self, lo: usize, hi: usize) -> usize { self.range(lo as i64, hi as i64) as usize }
    /// true with probability num/den
    pub fn chance(&mut self, num: u32, den: u32) -> bool { (self.below(den as usize) as u32) < num }
    pub fn bool(&mut self) -> bool { self.next_u64() & 1 == 1 }
    pub fn pick<'a, T>(&mut self, xs: &'a [T]) -> &'a T { &xs[self.below(xs.len())] }
    pub fn shuffle<T>(&mut self, xs: &mut [T]) {
        for i in (1..xs.len()).rev() { let j = self.below(i + 1); xs.swap(i, j); }
    }
    pub fn fork(&mut self) -> Rng { Rng::new(self.next_u64()) }
    /// small numbers most of the time, occasionally up to max
    pub fn small(&mut self, max: usize) -> usize {
        if max == 0 { return 0; }
        match self.below(10) {
            0..=5 => self.below(max.min(3) + 1),
            6..=8 => self.below(max.min(10) + 1),
            _ => self.below(max + 1),
        }
    }
}

/// FNV-1a 64 — used for structural fingerprints
pub fn fnv(bytes: &[u8]) -> u64 {
    let mut h: u64 = 0xcbf29ce484222325;
    for b in bytes { h = (h ^ *b as u64).wrapping_mul(0x100000001b3); }
    h
}
pub fn fnv_str(s: &str) -> u64 { fnv(s.as_bytes()) }
