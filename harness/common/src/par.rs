//! Case scheduling over worker threads; reproducible per-case seeds; replay support.
use crate::ctx::Ctx;
use crate::report::Report;
use crate::rng::{case_seed, Rng};
use std::sync::atomic::{AtomicU64, Ordering};

#[derive(Debug, Clone)]
pub struct ReplaySpec { pub workload: String, pub case: u64, pub seed: u64 }

pub fn load_replay(ctx: &mut Ctx) -> Option<ReplaySpec> {
    let path = ctx.replay.clone()?;
    let text = match std::fs::read_to_string(&path) { Ok(t) => t, Err(e) => { eprintln!("HARNESS-ERROR cannot read replay {path}: {e}"); std::process::exit(3) } };
    let v: serde_json::Value = match serde_json::from_str(&text) { Ok(v) => v, Err(e) => { eprintln!("HARNESS-ERROR bad replay {path}: {e}"); std::process::exit(3) } };
    let spec = ReplaySpec {
        workload: v["workload"].as_str().unwrap_or("").to_string(),
        case: v["case"].as_u64().unwrap_or(0),
        seed: v["seed"].as_i64().unwrap_or(1) as u64,
    };
    ctx.seed = spec.seed;
    if let Some(t) = v["tier"].as_str() { ctx.tier = if t == "thorough" { crate::Tier::Thorough } else { crate::Tier::Quick }; }
    Some(spec)
}

/// One case. A panic that escapes the monitor's own guards is caught here: one that started in repository code (a call
/// the monitor did not guard) is an observation about the repository and becomes a violation; one that started in the
/// harness (an oracle or generator meeting a state it was not written for, typically because the code under test
/// produced something unexpected earlier in the case) is recorded and the other cases go on.
fn run_one<F>(ctx: &Ctx, f: &F, rng: &mut Rng, local: &mut Report, workload: &str, i: u64)
where F: Fn(&mut Rng, &mut Report, u64) + Sync {
    if let Err(pi) = crate::guard::guard(|| f(rng, local, i)) {
        let repo = std::env::var("VERIF_REPO").unwrap_or_else(|_| "/repo".into());
        if pi.file.starts_with(&format!("{}/", repo.trim_end_matches('/'))) || pi.file.starts_with("/repo/") {
            local.violation(format!("{} panic {}", ctx.prop, pi.site()), serde_json::json!({"panic": pi.message, "at": format!("{}:{}", pi.file, pi.line), "note": "escaped through a call the monitor does not guard; re-run the case with --replay"}));
        } else {
            local.harness_panics.push(format!("workload {workload} case {i}: {} ({}:{})", pi.message, pi.file, pi.line));
        }
    }
}

/// Runs cases `0..n` of `workload` on `ctx.threads` workers. Case `i` gets `Rng::new(case_seed(seed, prop/workload, i))`.
/// Generation stops early when the wall-clock budget is used up (recorded, never a verdict).
/// In replay mode only the recorded case of the recorded workload runs.
pub fn run_cases<F>(ctx: &Ctx, replay: &Option<ReplaySpec>, report: &mut Report, workload: &str, n: u64, f: F)
where F: Fn(&mut Rng, &mut Report, u64) + Sync {
    let key = format!("{}/{}", ctx.prop, workload);
    if let Some(r) = replay {
        if r.workload != workload { return; }
        let mut local = Report::new();
        local.cur = (workload.to_string(), r.case);
        let mut rng = Rng::new(case_seed(ctx.seed, &key, r.case));
        run_one(ctx, &f, &mut rng, &mut local, workload, r.case);
        report.merge(local);
        return;
    }
    let next = AtomicU64::new(0);
    let done = AtomicU64::new(0);
    let threads = ctx.threads.max(1);
    let locals: Vec<Report> = std::thread::scope(|s| {
        let hs: Vec<_> = (0..threads).map(|_| {
            let (next, done, f, key) = (&next, &done, &f, &key);
            std::thread::Builder::new().stack_size(64 << 20).spawn_scoped(s, move || {
                let mut local = Report::new();
                loop {
                    if ctx.out_of_time() { break; }
                    let i = next.fetch_add(1, Ordering::Relaxed);
                    if i >= n { break; }
                    local.cur = (workload.to_string(), i);
                    let mut rng = Rng::new(case_seed(ctx.seed, key, i));
                    run_one(ctx, f, &mut rng, &mut local, workload, i);
                    done.fetch_add(1, Ordering::Relaxed);
                }
                local
            }).expect("spawn worker")
        }).collect();
        hs.into_iter().map(|h| match h.join() { Ok(r) => r, Err(_) => { eprintln!("HARNESS-ERROR worker thread of workload {workload} panicked outside a guard"); std::process::exit(3) } }).collect()
    });
    for l in locals { report.merge(l); }
    let d = done.load(Ordering::Relaxed);
    report.add(&format!("cases.{workload}"), d);
    if d < n { report.note(format!("workload {workload}: time budget ended generation after {d} of {n} cases")); }
}
