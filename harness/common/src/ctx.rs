use std::time::{Duration, Instant};

#[derive(Clone, Copy, Debug, PartialEq, Eq)]
pub enum Tier { Quick, Thorough }
impl Tier {
    pub fn name(self) -> &'static str { match self { Tier::Quick => "quick", Tier::Thorough => "thorough" } }
    pub fn pick<T>(self, quick: T, thorough: T) -> T { match self { Tier::Quick => quick, Tier::Thorough => thorough } }
}

/// Everything a monitor needs to know about the run it is part of.
#[derive(Clone, Debug)]
pub struct Ctx {
    pub prop: &'static str,
    pub tier: Tier,
    pub seed: u64,
    pub threads: usize,
    pub start: Instant,
    /// wall-clock cap on case generation (never a verdict; only ends generation early)
    pub budget: Duration,
    /// Some(path) => replay mode
    pub replay: Option<String>,
    /// where committed inputs live (corpus, known_findings.json)
    pub verif_dir: String,
    /// where evidence/, replays/, scratch/ are written (differs from verif_dir only in mutant runs)
    pub out_dir: String,
}

impl Ctx {
    /// Parses `<bin> <quick|thorough>` or `<bin> --replay <file>`; env VERIF_SEED, VERIF_THREADS, VERIF_BUDGET_S.
    pub fn from_args(prop: &'static str, quick_budget_s: u64, thorough_budget_s: u64) -> Ctx {
        let args: Vec<String> = std::env::args().collect();
        let mut tier = match std::env::var("VERIF_TIER").ok().as_deref() { Some("thorough") => Tier::Thorough, _ => Tier::Quick };
        let mut replay = None;
        let mut i = 1;
        while i < args.len() {
            match args[i].as_str() {
                "quick" => tier = Tier::Quick,
                "thorough" => tier = Tier::Thorough,
                "--replay" => { replay = args.get(i + 1).cloned(); i += 1; }
                _ => {}
            }
            i += 1;
        }
        let seed = std::env::var("VERIF_SEED").ok().and_then(|s| s.trim().parse::<i64>().ok()).map(|v| v as u64).unwrap_or(1);
        let threads = std::env::var("VERIF_THREADS").ok().and_then(|s| s.parse().ok())
            .unwrap_or_else(|| std::thread::available_parallelism().map(|n| n.get()).unwrap_or(4).min(16));
        let budget = std::env::var("VERIF_BUDGET_S").ok().and_then(|s| s.parse().ok())
            .unwrap_or(tier.pick(quick_budget_s, thorough_budget_s));
        let verif_dir = std::env::var("VERIF_DIR").unwrap_or_else(|_| "/verif".to_string());
        let out_dir = std::env::var("VERIF_OUT_DIR").unwrap_or_else(|_| verif_dir.clone());
        Ctx { prop, tier, seed, threads, start: Instant::now(), budget: Duration::from_secs(budget), replay, verif_dir, out_dir }
    }
    pub fn out_of_time(&self) -> bool { self.start.elapsed() >= self.budget }
    pub fn elapsed_s(&self) -> f64 { self.start.elapsed().as_secs_f64() }
}
