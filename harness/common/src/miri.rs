//! Runs a single-threaded, file-free slice of a monitor (`<pkg> --miri-slice <seed> <n> <max seconds>`) under Miri.
//! A UB diagnostic is an observation (the caller turns it into a violation); "miri not available / timed out" is a
//! status text only (never a verdict).
use crate::ctx::Ctx;

pub struct MiriRun { pub status: String, pub ub: Option<String>, pub summary: Option<String> }

/// `pkg` = package/binary name (e.g. "c11"); `manifest_dir` = `env!("CARGO_MANIFEST_DIR")` of the calling package.
pub fn run_slice(ctx: &Ctx, pkg: &str, manifest_dir: &str, n: usize, slice_budget_s: u64, wall_cap_s: u64) -> MiriRun {
    let manifest = format!("{manifest_dir}/../../Cargo.toml");
    if !std::path::Path::new(&manifest).exists() { return MiriRun { status: format!("skipped: {manifest} not found"), ub: None, summary: None }; }
    let t0 = std::time::Instant::now();
    let out = std::process::Command::new("timeout")
        .args(["-k", "10", &wall_cap_s.to_string(), "cargo", "+nightly", "miri", "run", "--offline", "--manifest-path", &manifest, "-p", pkg, "--", "--miri-slice", &(ctx.seed as i64).to_string(), &n.to_string(), &slice_budget_s.to_string()])
        .env("MIRIFLAGS", "-Zmiri-disable-isolation").env_remove("RUSTFLAGS").output();
    let out = match out { Ok(o) => o, Err(e) => return MiriRun { status: format!("skipped: cannot start cargo miri: {e}"), ub: None, summary: None } };
    let so = String::from_utf8_lossy(&out.stdout); let se = String::from_utf8_lossy(&out.stderr);
    let secs = t0.elapsed().as_secs();
    let summary = so.lines().find(|l| l.starts_with("MIRI-SLICE")).map(|s| s.to_string());
    // "Undefined Behavior" = Miri's own (language-level) checks; "unsafe precondition(s) violated" = the standard library's check
    // of a library-level precondition of an `unsafe fn` (`get_unchecked`, `from_u32_unchecked`, ...), which under Miri's sysroot
    // (built with debug assertions) ends in a non-unwinding panic + abort instead of an "Undefined Behavior" diagnostic
    const UB_MARKS: [&str; 2] = ["Undefined Behavior", "unsafe precondition(s) violated"];
    if let Some(l) = se.lines().find(|l| UB_MARKS.iter().any(|m| l.contains(m))) {
        let ctxl: Vec<&str> = se.lines().skip_while(|x| !UB_MARKS.iter().any(|m| x.contains(m))).take(12).collect();
        return MiriRun { status: format!("UB diagnostic after {secs}s: {}", ctxl.join(" | ")), ub: Some(l.trim().to_string()), summary };
    }
    let status = match out.status.code() {
        Some(124) | Some(137) => format!("skipped: time-out after {secs}s"),
        Some(0) => format!("ran in {secs}s: {}", summary.clone().unwrap_or_else(|| "no summary line".into())),
        c => format!("skipped: miri unavailable or failed (exit {c:?}) after {secs}s: {}", se.lines().filter(|l| l.starts_with("error")).take(2).collect::<Vec<_>>().join(" | ")),
    };
    MiriRun { status, ub: None, summary }
}

/// Parses `--miri-slice <seed> <n> <max seconds>` from argv.
pub fn slice_args() -> Option<(u64, usize, u64)> {
    let args: Vec<String> = std::env::args().collect();
    let p = args.iter().position(|a| a == "--miri-slice")?;
    Some((args.get(p + 1).and_then(|s| s.parse::<i64>().ok()).unwrap_or(1) as u64, args.get(p + 2).and_then(|s| s.parse().ok()).unwrap_or(100), args.get(p + 3).and_then(|s| s.parse().ok()).unwrap_or(200)))
}
