//! Counting global allocator (allocation monitor). A binary opts in with
//! `#[global_allocator] static A: common::alloc_mon::Counting = common::alloc_mon::Counting;`
use std::alloc::{GlobalAlloc, Layout, System};
use std::sync::atomic::{AtomicUsize, Ordering::Relaxed};

pub struct Counting;
static LIVE: AtomicUsize = AtomicUsize::new(0);
static PEAK: AtomicUsize = AtomicUsize::new(0);
static LARGEST: AtomicUsize = AtomicUsize::new(0);

unsafe impl GlobalAlloc for Counting {
    unsafe fn alloc(&self, l: Layout) -> *mut u8 {
        // SAFETY: forwarded to the system allocator with the caller's layout.
        let p = unsafe { System.alloc(l) };
        if !p.is_null() { note(l.size()); }
        p
    }
    unsafe fn alloc_zeroed(&self, l: Layout) -> *mut u8 {
        // SAFETY: forwarded to the system allocator with the caller's layout.
        let p = unsafe { System.alloc_zeroed(l) };
        if !p.is_null() { note(l.size()); }
        p
    }
    unsafe fn dealloc(&self, p: *mut u8, l: Layout) {
        LIVE.fetch_sub(l.size(), Relaxed);
        // SAFETY: forwarded to the system allocator with the caller's pointer and layout.
        unsafe { System.dealloc(p, l) }
    }
    unsafe fn realloc(&self, p: *mut u8, l: Layout, new: usize) -> *mut u8 {
        // SAFETY: forwarded to the system allocator with the caller's pointer and layout.
        let q = unsafe { System.realloc(p, l, new) };
        if !q.is_null() { LIVE.fetch_sub(l.size(), Relaxed); note(new); }
        q
    }
}
fn note(size: usize) {
    let live = LIVE.fetch_add(size, Relaxed) + size;
    PEAK.fetch_max(live, Relaxed);
    LARGEST.fetch_max(size, Relaxed);
}
pub fn live() -> usize { LIVE.load(Relaxed) }
/// resets the peak to the current live size and the largest request to 0
pub fn reset_peak() { PEAK.store(LIVE.load(Relaxed), Relaxed); LARGEST.store(0, Relaxed); }
pub fn peak() -> usize { PEAK.load(Relaxed) }
pub fn largest() -> usize { LARGEST.load(Relaxed) }
