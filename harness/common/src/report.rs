//! Per-run report: counters, fingerprints, samples, violations; evidence file; verdict.
use crate::ctx::Ctx;
use serde_json::{json, Map, Value};
use std::collections::{BTreeMap, BTreeSet, HashSet};

#[derive(Clone, Debug)]
pub struct Violation {
    pub signature: String,
    pub workload: String,
    pub case: u64,
    pub detail: Value,
    pub count: u64,
}

#[derive(Default, Debug)]
pub struct Report {
    pub evaluations: u64,
    pub fingerprints: HashSet<u64>,
    pub counters: BTreeMap<String, u64>,
    pub sets: BTreeMap<String, BTreeSet<String>>,
    pub samples: Vec<Value>,
    pub violations: BTreeMap<String, Violation>,
    pub notes: Vec<String>,
    /// (workload, case index) currently executing; set by par::run_cases
    pub cur: (String, u64),
    pub max_samples: usize,
    /// cases in which the harness itself (generator / oracle) panicked outside a guard; recorded by par::run_cases
    pub harness_panics: Vec<String>,
}

impl Report {
    pub fn new() -> Report { Report { max_samples: 4, ..Default::default() } }
    pub fn eval(&mut self) { self.evaluations += 1; }
    pub fn count(&mut self, key: &str) { self.add(key, 1); }
    pub fn add(&mut self, key: &str, n: u64) {
        if let Some(c) = self.counters.get_mut(key) { *c += n; } else { self.counters.insert(key.to_string(), n); }
    }
    pub fn max(&mut self, key: &str, v: u64) {
        let e = self.counters.entry(key.to_string()).or_insert(0);
        if v > *e { *e = v; }
    }
    pub fn get(&self, key: &str) -> u64 { self.counters.get(key).copied().unwrap_or(0) }
    /// records a member of a named set (e.g. opcodes seen); the evidence lists the set sizes and members
    pub fn seen(&mut self, set: &str, member: &str) {
        if let Some(s) = self.sets.get_mut(set) { if !s.contains(member) { s.insert(member.to_string()); } }
        else { self.sets.entry(set.to_string()).or_default().insert(member.to_string()); }
    }
    pub fn seen_n(&self, set: &str) -> usize { self.sets.get(set).map(|s| s.len()).unwrap_or(0) }
    /// a case that is non-trivial by the monitor's rule, with its structural fingerprint
    pub fn nontrivial(&mut self, fingerprint: u64) { self.fingerprints.insert(fingerprint); }
    pub fn sample(&mut self, f: impl FnOnce() -> Value) { if self.samples.len() < self.max_samples { self.samples.push(f()); } }
    pub fn want_sample(&self) -> bool { self.samples.len() < self.max_samples }
    pub fn note(&mut self, s: impl Into<String>) { self.notes.push(s.into()); }
    /// records a violation under a signature (instance data must not be part of the signature)
    pub fn violation(&mut self, signature: impl Into<String>, detail: Value) {
        let signature = signature.into();
        match self.violations.get_mut(&signature) {
            Some(v) => {
                v.count += 1;
                // keep the instance with the smallest (workload, case) so the replay is stable across thread counts
                if (self.cur.0.as_str(), self.cur.1) < (v.workload.as_str(), v.case) {
                    v.workload = self.cur.0.clone(); v.case = self.cur.1; v.detail = detail;
                }
            }
            None => { self.violations.insert(signature.clone(), Violation { signature, workload: self.cur.0.clone(), case: self.cur.1, detail, count: 1 }); }
        }
    }
    pub fn merge(&mut self, o: Report) {
        self.evaluations += o.evaluations;
        self.harness_panics.extend(o.harness_panics);
        self.fingerprints.extend(o.fingerprints);
        for (k, v) in o.counters {
            if k.starts_with("max.") { let e = self.counters.entry(k).or_insert(0); if v > *e { *e = v; } }
            else { *self.counters.entry(k).or_insert(0) += v; }
        }
        for (k, v) in o.sets { self.sets.entry(k).or_default().extend(v); }
        for s in o.samples { if self.samples.len() < self.max_samples { self.samples.push(s); } }
        for (k, v) in o.violations {
            match self.violations.get_mut(&k) {
                Some(m) => {
                    m.count += v.count;
                    if (v.workload.as_str(), v.case) < (m.workload.as_str(), m.case) { m.workload = v.workload; m.case = v.case; m.detail = v.detail; }
                }
                None => { self.violations.insert(k, v); }
            }
        }
        self.notes.extend(o.notes);
    }
}

/// Static description of a check, for the evidence file.
pub struct Meta {
    pub level: &'static str,
    pub rule: String,
    pub assumptions: Vec<String>,
    /// coverage obligations: (description, satisfied). Unsatisfied => inconclusive (exit 2)
    pub obligations: Vec<(String, bool)>,
    pub exhaustive: Option<bool>,
    pub extra: Map<String, Value>,
}
impl Meta {
    pub fn new(level: &'static str, rule: impl Into<String>) -> Meta {
        Meta { level, rule: rule.into(), assumptions: vec![], obligations: vec![], exhaustive: None, extra: Map::new() }
    }
    pub fn assume(mut self, s: impl Into<String>) -> Meta { self.assumptions.push(s.into()); self }
    pub fn oblige(&mut self, what: impl Into<String>, ok: bool) { self.obligations.push((what.into(), ok)); }
}

#[derive(Debug, Clone)]
pub struct Known { pub signature: String, pub what_fails: String }

pub fn load_known(ctx: &Ctx) -> Vec<Known> {
    let path = std::env::var("VERIF_OUT_DIR").map(|d| format!("{d}/known_findings.json")).ok().filter(|p| std::path::Path::new(p).exists()).unwrap_or_else(|| format!("{}/known_findings.json", ctx.verif_dir));
    let Ok(text) = std::fs::read_to_string(&path) else { return vec![] };
    let v: Value = match serde_json::from_str(&text) { Ok(v) => v, Err(e) => { eprintln!("HARNESS-ERROR cannot parse {path}: {e}"); std::process::exit(3) } };
    let mut out = vec![];
    if let Some(arr) = v.get("findings").and_then(|f| f.as_array()) {
        for f in arr {
            if f.get("property").and_then(|p| p.as_str()) == Some(ctx.prop) {
                out.push(Known {
                    signature: f.get("signature").and_then(|s| s.as_str()).unwrap_or("").to_string(),
                    what_fails: f.get("what_fails").and_then(|s| s.as_str()).unwrap_or("").to_string(),
                });
            }
        }
    }
    out
}

/// Writes evidence + replay files, prints verdict lines, returns the exit code.
pub fn finish(ctx: &Ctx, report: Report, meta: Meta) -> i32 {
    let known = load_known(ctx);
    let mut known_seen: Vec<&Known> = vec![];
    let mut new_violations: Vec<&Violation> = vec![];
    for v in report.violations.values() {
        if let Some(k) = known.iter().find(|k| k.signature == v.signature) { if !known_seen.iter().any(|s| s.signature == k.signature) { known_seen.push(k); } }
        else { new_violations.push(v); }
    }
    let mut replay_paths = vec![];
    let replay_dir = format!("{}/replays/{}", ctx.out_dir, ctx.prop);
    if !new_violations.is_empty() { let _ = std::fs::create_dir_all(&replay_dir); }
    // a defect that produces very many signatures must not flood stdout / the disk: the 40 most frequent are written out
    new_violations.sort_by(|a, b| b.count.cmp(&a.count).then(a.signature.cmp(&b.signature)));
    let total_new = new_violations.len();
    new_violations.truncate(40);
    for v in &new_violations {
        let path = format!("{}/{:016x}.json", replay_dir, crate::rng::fnv_str(&v.signature));
        let body = json!({
            "property": ctx.prop, "signature": v.signature, "seed": ctx.seed as i64, "tier": ctx.tier.name(),
            "workload": v.workload, "case": v.case, "occurrences": v.count, "detail": v.detail,
        });
        let _ = std::fs::write(&path, serde_json::to_string_pretty(&body).unwrap_or_default());
        replay_paths.push(path);
    }
    let unmet: Vec<&String> = meta.obligations.iter().filter(|(_, ok)| !ok).map(|(w, _)| w).collect();

    // ---- evidence
    let mut coverage = Map::new();
    coverage.insert("evaluations".into(), json!(report.evaluations));
    coverage.insert("distinct_nontrivial".into(), json!(report.fingerprints.len()));
    coverage.insert("rule".into(), json!(meta.rule));
    coverage.insert("samples".into(), Value::Array(report.samples.clone()));
    if let Some(e) = meta.exhaustive { coverage.insert("exhaustive".into(), json!(e)); }
    coverage.insert("counters".into(), json!(report.counters));
    let mut sets = Map::new();
    for (k, v) in &report.sets { sets.insert(k.clone(), json!({"n": v.len(), "members": v.iter().take(400).collect::<Vec<_>>() })); }
    coverage.insert("observed_sets".into(), Value::Object(sets));
    coverage.insert("obligations_checked".into(), json!(meta.obligations.iter().map(|(w, ok)| json!({"what": w, "met": ok})).collect::<Vec<_>>()));
    coverage.insert("known_findings_observed".into(), json!(known_seen.iter().map(|k| json!({"signature": k.signature,
        "occurrences": report.violations.get(&k.signature).map(|v| v.count).unwrap_or(0)})).collect::<Vec<_>>()));
    coverage.insert("known_findings_listed_not_observed".into(), json!(known.iter().filter(|k| !known_seen.iter().any(|s| s.signature == k.signature)).map(|k| k.signature.clone()).collect::<Vec<_>>()));
    coverage.insert("new_violation_signatures".into(), json!(new_violations.iter().map(|v| json!({"signature": v.signature, "occurrences": v.count})).collect::<Vec<_>>()));
    if !report.notes.is_empty() { let mut n = report.notes.clone(); n.sort(); n.dedup(); n.truncate(50); coverage.insert("notes".into(), json!(n)); }
    coverage.insert("threads".into(), json!(ctx.threads));
    coverage.insert("budget_s".into(), json!(ctx.budget.as_secs()));
    for (k, v) in meta.extra.iter() { coverage.insert(k.clone(), v.clone()); }
    let verdict = if !new_violations.is_empty() { "violated" } else if !unmet.is_empty() || report.fingerprints.len() < 2 { "inconclusive" } else { "held_on_observed" };
    coverage.insert("verdict".into(), json!(verdict));
    let evidence = json!({
        "property_id": ctx.prop, "tier": ctx.tier.name(), "seed": ctx.seed as i64, "level": meta.level,
        "coverage": Value::Object(coverage), "assumptions": meta.assumptions,
        "wall_s": (ctx.elapsed_s() * 100.0).round() / 100.0, "violations": total_new,
    });
    if ctx.replay.is_none() {
        let dir = format!("{}/evidence", ctx.out_dir);
        let _ = std::fs::create_dir_all(&dir);
        let path = format!("{}/{}.json", dir, ctx.prop);
        if let Err(e) = std::fs::write(&path, serde_json::to_string_pretty(&evidence).unwrap_or_default() + "\n") {
            eprintln!("HARNESS-ERROR cannot write {path}: {e}"); return 3;
        }
    }

    // ---- verdict lines
    println!("{} {} seed={} evaluations={} distinct_nontrivial={} wall={:.1}s", ctx.prop, ctx.tier.name(), ctx.seed as i64, report.evaluations, report.fingerprints.len(), ctx.elapsed_s());
    for k in &known_seen {
        println!("KNOWN-FINDING: property={} {} [signature: {}; seen {}x]", ctx.prop, k.what_fails, k.signature, report.violations.get(&k.signature).map(|v| v.count).unwrap_or(0));
    }
    for (v, p) in new_violations.iter().zip(&replay_paths) {
        println!("VIOLATION property={} replay={}", ctx.prop, p);
        println!("  signature: {}  ({}x; first at workload={} case={})", v.signature, v.count, v.workload, v.case);
        let d = serde_json::to_string(&v.detail).unwrap_or_default();
        let d: String = d.chars().take(600).collect();
        println!("  detail: {d}");
    }
    if total_new > new_violations.len() { println!("  ... and {} more distinct violation signatures (not written out)", total_new - new_violations.len()); }
    // a case in which the harness' own code panicked says nothing about the property: the violations found by the other
    // cases stand, without any the run is a harness error
    if !report.harness_panics.is_empty() {
        println!("HARNESS-NOTE {} case(s) ended in a panic of the harness' own code (generator / oracle), first: {}", report.harness_panics.len(), report.harness_panics.iter().min().cloned().unwrap_or_default());
    }
    if !new_violations.is_empty() { return 1; }
    if !report.harness_panics.is_empty() { println!("HARNESS-ERROR the harness panicked and no violation was observed (this is not a verdict about the property)"); return 3; }
    if ctx.replay.is_some() { println!("REPLAY: no violation reproduced"); return 0; }
    if !unmet.is_empty() || report.fingerprints.len() < 2 {
        for u in unmet { println!("INCONCLUSIVE property={} reason=coverage obligation not met: {}", ctx.prop, u); }
        if report.fingerprints.len() < 2 { println!("INCONCLUSIVE property={} reason=fewer than 2 distinct non-trivial cases", ctx.prop); }
        return 2;
    }
    println!("HELD property={} on {} executions ({} distinct non-trivial)", ctx.prop, report.evaluations, report.fingerprints.len());
    0
}
