//! Panic capture: a panic of the code under test is an observation, not a harness crash.
use std::cell::RefCell;
use std::panic::{catch_unwind, AssertUnwindSafe};
use std::sync::Once;

#[derive(Clone, Debug, PartialEq, Eq, Hash)]
pub struct PanicInfo { pub file: String, pub line: u32, pub message: String }

impl PanicInfo {
    /// message with digits collapsed and quoted instance data (`...`, '...', "...") elided -> stable across instances
    pub fn template(&self) -> String {
        // 1. elide quoted runs: the standard library and anyhow quote the offending value (a string, a char, a key)
        let mut elided = String::new();
        let mut chars = self.message.chars().peekable();
        while let Some(c) = chars.next() {
            if c == '`' || c == '"' || c == '\'' {
                // an apostrophe inside a word (doesn't) is not a quote
                if c == '\'' && elided.chars().last().is_some_and(|p| p.is_alphanumeric()) { elided.push(c); continue; }
                let mut body = String::new();
                let mut closed = false;
                for d in chars.by_ref() { if d == c { closed = true; break; } body.push(d); }
                if closed || c != '\'' { elided.push(c); elided.push('…'); elided.push(c); } else { elided.push(c); elided.push_str(&body); }
            } else { elided.push(c); }
        }
        // 2. collapse digit runs
        let mut out = String::new();
        let mut in_num = false;
        for c in elided.chars() {
            if c.is_ascii_digit() { if !in_num { out.push('#'); in_num = true; } } else { in_num = false; out.push(c); }
        }
        if out.len() > 120 { let mut cut = 120; while !out.is_char_boundary(cut) { cut -= 1; } out.truncate(cut); }
        out
    }
    /// `path/in/repo.rs: template` (line numbers left out so unrelated edits do not change the signature)
    pub fn site(&self) -> String {
        let f = self.file.strip_prefix("/repo/").unwrap_or(&self.file);
        // a dependency from the cargo registry: keep `<crate>-<version>/src/...` only
        let f = match f.find("/registry/src/") { Some(i) => f[i + 14..].split_once('/').map(|(_, rest)| rest).unwrap_or(f), None => f };
        format!("{}: {}", f, self.template())
    }
}

thread_local! {
    static LAST: RefCell<Option<PanicInfo>> = const { RefCell::new(None) };
    static DEPTH: RefCell<u32> = const { RefCell::new(0) };
}
static HOOK: Once = Once::new();

fn install() {
    HOOK.call_once(|| {
        let prev = std::panic::take_hook();
        std::panic::set_hook(Box::new(move |info| {
            let guarded = DEPTH.with(|d| *d.borrow() > 0);
            if guarded {
                let (file, line) = info.location().map(|l| (l.file().to_string(), l.line())).unwrap_or_default();
                let message = if let Some(s) = info.payload().downcast_ref::<&str>() { s.to_string() }
                    else if let Some(s) = info.payload().downcast_ref::<String>() { s.clone() } else { "<non-string panic>".into() };
                // the standard library's check of a library-level precondition of an `unsafe fn` (`get_unchecked`, ...) panics without
                // unwinding: the process aborts and nobody will ever ask for LAST, so print it (the Miri slice runner looks for it)
                if message.starts_with("unsafe precondition(s) violated") { eprintln!("panic at {file}:{line}: {message}"); }
                LAST.with(|l| *l.borrow_mut() = Some(PanicInfo { file, line, message }));
            } else {
                prev(info);
            }
        }));
    });
}

/// Runs `f`; a panic is returned as `Err(PanicInfo)` (and not printed).
pub fn guard<T>(f: impl FnOnce() -> T) -> Result<T, PanicInfo> {
    install();
    DEPTH.with(|d| *d.borrow_mut() += 1);
    let r = catch_unwind(AssertUnwindSafe(f));
    DEPTH.with(|d| *d.borrow_mut() -= 1);
    match r {
        Ok(v) => Ok(v),
        Err(_) => Err(LAST.with(|l| l.borrow_mut().take()).unwrap_or(PanicInfo { file: "?".into(), line: 0, message: "?".into() })),
    }
}
