//! Jar side of C14: class bodies that reference each other, the input jar, the call of the real `nest_jar`, the
//! expectation built from the reference nester + class-only renamer, the comparison.
use crate::refnest::*;
use crate::rename::rename_refs;
use cf::model::*;
use cf::{diff, emit, gen, parse, project};
use common::{guard, json, PanicInfo, Report, Rng, Value};
use dukebox::storage::{ClassRepr, IsClass, Jar, JarEntry, JarEntryEnum, OpenedJar, ParsedJar, ParsedJarEntry};
use std::collections::{BTreeMap, BTreeSet};

fn text_safe(j: &JS) -> Option<String> {
    let units = cf::mutf8::decode(&j.0).ok()?;
    let s = String::from_utf16(&units).ok()?;
    if s.is_empty() || s.chars().any(|c| matches!(c, '\t' | '\n' | '\r' | '\0')) { None } else { Some(s) }
}

/// Facts this monitor does not judge are removed from the generated bodies (see NOTES.md): generic signatures
/// (C07 lists them as not judged; the remapper prints a TODO line for each), LocalVariableTypeTable (signatures),
/// record components / unknown attributes / module data / parameter annotations (dropped by the reader or the jar
/// remapper: subjects of C01 / C07). Method references with an array owner get a descriptor without listed classes
/// (the remapper documents that it leaves those alone).
fn restrict(c: &mut Class) {
    c.signature = None; c.record = None; c.unknown.clear(); c.module = None; c.module_packages = None; c.module_main_class = None;
    for f in &mut c.fields { f.signature = None; f.unknown.clear(); }
    fn konst(k: &mut Const) {
        match k {
            Const::MethodHandle(h) => if h.member.owner.0.first() == Some(&b'[') { h.member.desc = JS::new("()Ljava/lang/Object;"); },
            Const::Dynamic(d) => { if d.bsm.member.owner.0.first() == Some(&b'[') { d.bsm.member.desc = JS::new("()Ljava/lang/Object;"); } for a in &mut d.args { konst(a); } }
            _ => {}
        }
    }
    for m in &mut c.methods {
        m.signature = None; m.unknown.clear(); m.vis_param_annotations = None; m.invis_param_annotations = None;
        if let Some(code) = &mut m.code {
            code.lvtt = None; code.unknown.clear();
            for i in &mut code.insns {
                match i {
                    Insn::Invoke(_, mr, _) => if mr.owner.0.first() == Some(&b'[') { mr.desc = JS::new("()Ljava/lang/Object;"); },
                    Insn::Ldc(k) => konst(k),
                    Insn::InvokeDynamic(d) => { if d.bsm.member.owner.0.first() == Some(&b'[') { d.bsm.member.desc = JS::new("()Ljava/lang/Object;"); } for a in &mut d.args { konst(a); } }
                    _ => {}
                }
            }
        }
    }
}

/// One class body named `name`: generated from the whole format with references drawn from `pool`, plus anchor
/// methods whose descriptors mention pool classes (candidates for enclosing methods) and a few direct references.
pub fn gen_body(rng: &mut Rng, name: &str, pool: &[String], lean: bool) -> Class {
    let cfg = gen::GenCfg { max_fields: if lean { 1 } else { 3 }, max_methods: if lean { 1 } else { 3 }, max_insns: if lean { 6 } else { 14 }, class_pool: pool.iter().map(|s| JS::new(s)).collect(), param_annotations: false, unknown_attrs: false, modules: false, major: None, frames: true, two_slot_constants: true };
    let mut c = gen::gen_class(rng, &cfg);
    restrict(&mut c);
    c.this_class = JS::new(name);
    if c.access & 0x8000 != 0 { c.access = 0x0021; }
    let pick = |rng: &mut Rng| -> String { if rng.chance(1, 6) { "java/lang/Object".to_string() } else { rng.pick(pool).clone() } };
    for k in 0..rng.usize_in(1, 2) {
        let d = match rng.below(4) { 0 => "()V".to_string(), 1 => format!("(L{};)V", pick(rng)), 2 => format!("(I[L{};)L{};", pick(rng), pick(rng)), _ => format!("()[[L{};", pick(rng)) };
        let mut m = Method { access: if rng.bool() { 0x0401 } else { 0x0001 }, name: JS::new(&format!("{}{k}", rng.pick(&["m", "run", "lambda$x$", "get"]))), desc: JS::new(&d), ..Default::default() };
        if m.access & 0x0400 == 0 { m.code = Some(Code { max_stack: 1, max_locals: 4, insns: vec![Insn::Type(187, JS::new(&pick(rng))), Insn::Op(87), Insn::Op(if d.ends_with('V') { 177 } else { 1 }), Insn::Op(if d.ends_with('V') { 177 } else { 176 })], ..Default::default() }); }
        c.methods.push(m);
    }
    if rng.chance(1, 2) { c.super_class = Some(JS::new(&pick(rng))); }
    if rng.chance(1, 3) { c.fields.push(Field { access: 0x0002, name: JS::new("ref"), desc: JS::new(&format!("[L{};", pick(rng))), ..Default::default() }); }
    c
}

pub fn methods_of(c: &Class) -> Vec<(String, String)> {
    let mut v: Vec<(String, String)> = c.methods.iter().filter_map(|m| Some((text_safe(&m.name)?, text_safe(&m.desc)?))).collect();
    v.sort(); v.dedup(); v
}
/// every method (also the ones a text table cannot name), as the reference's view of the jar
pub fn jar_index(classes: &[(String, Class)]) -> JarIndex {
    classes.iter().map(|(n, c)| (n.clone(), c.methods.iter().map(|m| (m.name.show(), m.desc.show())).collect())).collect()
}

#[derive(Clone, Debug)]
pub enum InEntry { Class(Vec<u8>), Other(Vec<u8>), Dir }

pub fn build_jar(entries: &[(String, InEntry)]) -> ParsedJar<ClassRepr, Vec<u8>> {
    let mut jar = ParsedJar { entries: indexmap::IndexMap::new() };
    for (n, e) in entries {
        let content = match e { InEntry::Class(b) => JarEntryEnum::Class(ClassRepr::Vec { data: b.clone() }), InEntry::Other(b) => JarEntryEnum::Other(b.clone()), InEntry::Dir => JarEntryEnum::Dir };
        jar.entries.insert(n.clone(), ParsedJarEntry { attr: Default::default(), content });
    }
    jar
}

#[derive(Clone, Debug)]
pub enum OutEntry { Class(Result<Vec<u8>, String>), Other(Vec<u8>), Dir }

fn collect(out: ParsedJar<ClassRepr, Vec<u8>>, through_zip: bool) -> Result<Vec<(String, OutEntry)>, String> {
    let mut v = vec![];
    if through_zip {
        let mem = out.to_mem().map_err(|e| format!("to_mem: {e:#}"))?;
        let mut opened = mem.open().map_err(|e| format!("open: {e:#}"))?;
        for k in opened.entry_keys() {
            let e = opened.by_entry_key(k).map_err(|e| format!("entry: {e:#}"))?;
            let name = e.name().to_string();
            let oe = match e.to_jar_entry_enum().map_err(|e| format!("entry data: {e:#}"))? {
                JarEntryEnum::Dir => OutEntry::Dir,
                JarEntryEnum::Class(c) => OutEntry::Class(Ok(c.0)),
                JarEntryEnum::Other(o) => OutEntry::Other(o),
            };
            v.push((name, oe));
        }
    } else {
        for (name, e) in out.entries {
            let oe = match e.content {
                JarEntryEnum::Dir => OutEntry::Dir,
                JarEntryEnum::Class(c) => OutEntry::Class(c.write().map(|b| b.into_owned()).map_err(|e| format!("{e:#}"))),
                JarEntryEnum::Other(o) => OutEntry::Other(o),
            };
            v.push((name, oe));
        }
    }
    Ok(v)
}

/// Calls the real nester on the text table. Outer `Err` = panic, inner `Err` = the call refused.
pub fn nest_real(entries: &[(String, InEntry)], table: &str, through_zip: bool) -> Result<Result<Vec<(String, OutEntry)>, String>, PanicInfo> {
    let bytes = table.as_bytes().to_vec();
    guard(|| {
        let nests = dukenest::nest::Nests::<()>::read(&bytes).map_err(|e| format!("Nests::read: {e:#}"))?;
        let jar = build_jar(entries);
        let out = if through_zip {
            let mem = jar.to_mem().map_err(|e| format!("input to_mem: {e:#}"))?;
            dukenest::nest_jar(true, &mem, nests).map_err(|e| format!("nest_jar: {e:#}"))?
        } else {
            dukenest::nest_jar(true, &jar, nests).map_err(|e| format!("nest_jar: {e:#}"))?
        };
        collect(out, through_zip)
    })
}

/// the InnerClasses entry an applying row asks for
fn nest_entry(r: &Row, ren: &dyn Fn(&str) -> String) -> InnerClass {
    InnerClass {
        inner: JS::new(&ren(&r.class)),
        outer: if r.kind() == Kind::Inner { Some(JS::new(&ren(&r.encl))) } else { None },
        name: if r.kind() == Kind::Anonymous { None } else { Some(JS::new(strip_digits(&r.inner))) },
        flags: r.access,
    }
}

/// The expected class for `class` (parsed input model): references renamed, nest attributes added when its row applies.
pub fn expected_class(input: &Class, exp: &JarExpectation) -> (Class, u64) {
    let mut c = input.clone();
    let old = input.this_class.show();
    let row = exp.applying.iter().find(|r| r.class == old);
    let changing: BTreeMap<&str, &str> = exp.names.iter().filter(|(a, b)| a != b).map(|(a, b)| (a.as_str(), b.as_str())).collect();
    let f = |s: &str| changing.get(s).map(|x| x.to_string());
    let hits = rename_refs(&mut c, &f);
    if let Some(r) = row {
        let ren = |s: &str| f(s).unwrap_or_else(|| s.to_string());
        if r.kind() != Kind::Inner {
            c.enclosing_method = Some(EnclosingMethod { class: JS::new(&ren(&r.encl)), method: r.method.as_ref().map(|(n, d)| (JS::new(n), JS::new(&maps::desc::map_desc(d, &ren)))) });
        }
        c.inner_classes.get_or_insert_with(Vec::new).push(nest_entry(r, &ren));
    }
    (c, hits)
}

/// Signature of a fact difference: the fact path without indices; constants nested in bootstrap arguments are
/// reported under one path however deep they sit (`...Dynamic.<field>`).
pub fn fact_signature(d: &diff::Difference) -> String {
    let p = match d.path.rfind(".Dynamic.") { Some(i) => format!(".methods[].code.insns[]..Dynamic.{}", &d.path[i + ".Dynamic.".len()..]), None => d.path.clone() };
    format!("{p}:{}", d.kind)
}

/// order of InnerClasses entries is not judged
pub fn canon(c: &mut Class) {
    project::normalise(c);
    if let Some(v) = &mut c.inner_classes { v.sort_by(|a, b| (&a.inner, &a.outer, &a.name, a.flags).cmp(&(&b.inner, &b.outer, &b.name, b.flags))); }
}

pub struct JarJudgement { pub ok: bool }

/// Compares the output of `nest_jar` with the expectation. `inputs` = (old class name, parsed input model).
pub fn judge_jar(rep: &mut Report, inputs: &[(String, Class)], others: &[(String, InEntry)], rows: &[Row], exp: &JarExpectation, out: &[(String, OutEntry)], detail: &dyn Fn() -> Value) -> JarJudgement {
    let mut ok = true;
    let bad = |rep: &mut Report, sig: String, extra: Value| { rep.violation(sig, json!({"where": extra, "input": detail()})); };
    let out_map: BTreeMap<&str, &OutEntry> = out.iter().map(|(n, e)| (n.as_str(), e)).collect();
    if out_map.len() != out.len() { bad(rep, "C14 jar: two output entries under one name".into(), json!(out.iter().map(|(n, _)| n).collect::<Vec<_>>())); ok = false; }
    let by_class: BTreeMap<&str, (&Row, Option<&'static str>)> = rows.iter().zip(&exp.verdicts).map(|(r, v)| (r.class.as_str(), (r, *v))).collect();
    let mut expected_entries: BTreeSet<String> = BTreeSet::new();
    // ---- pass 1: every input class must be stored under the name the reference gives it
    let new_name = |old: &String| exp.names.get(old).cloned().unwrap_or_else(|| old.clone());
    let misplaced: BTreeSet<&str> = inputs.iter().filter(|(old, _)| !out_map.contains_key(format!("{}.class", new_name(old)).as_str())).map(|(o, _)| o.as_str()).collect();
    for (old, _) in inputs {
        let ename = format!("{}.class", new_name(old));
        expected_entries.insert(ename.clone());
        if !misplaced.contains(old.as_str()) { continue; }
        ok = false;
        let row_info = by_class.get(old.as_str());
        // a class below a misplaced enclosing class is misplaced as a consequence: only the topmost one is reported
        if let Some((r, _)) = row_info { if misplaced.contains(r.encl.as_str()) { rep.count("jar.misplaced_as_a_consequence_of_its_enclosing_class"); continue; } }
        let old_there = out_map.contains_key(format!("{old}.class").as_str());
        let sig = match row_info {
            Some((r, None)) => if old_there { format!("C14 jar: listed class keeps its name although its row applies ({})", r.kind().name()) } else { format!("C14 jar: applying row ({}): class is not stored as Enclosing$Inner (transitively)", r.kind().name()) },
            Some((_, Some(why))) => format!("C14 jar: listed class renamed although its row does not apply ({why})"),
            None => "C14 jar: class without a row is missing under its name".to_string(),
        };
        bad(rep, sig, json!({"class": old, "expected entry": ename, "entries": out.iter().map(|(n, _)| n).collect::<Vec<_>>()}));
    }
    let names_ok = misplaced.is_empty();
    if !names_ok { rep.count("jar.fact_comparison_skipped_because_class_names_differ"); }
    // ---- pass 2: the facts of every class (only when the names are right: otherwise every reference differs as a consequence)
    for (old, model) in inputs {
        if !names_ok { break; }
        let ename = format!("{}.class", new_name(old));
        let Some(entry) = out_map.get(ename.as_str()) else { continue };
        let bytes = match entry {
            OutEntry::Class(Ok(b)) => b,
            OutEntry::Class(Err(e)) => { ok = false; bad(rep, format!("C14 jar: nested class cannot be written: {}", crate::mapside::err_template(e)), json!({"class": old, "error": e})); continue; }
            _ => { ok = false; bad(rep, "C14 jar: class entry comes back as a non-class entry".into(), json!({"class": old})); continue; }
        };
        let mut obs = match parse::parse(bytes) {
            Ok(c) => c,
            Err(e) => { ok = false; bad(rep, format!("C14 jar: written class is not a well-formed class file: {}", crate::mapside::err_template(&e)), json!({"class": old, "error": e, "bytes_hex": hex(bytes)})); continue; }
        };
        let (mut want, hits) = expected_class(model, exp);
        rep.add("jar.references_rewritten_expected", hits);
        canon(&mut want); canon(&mut obs);
        // An entry the class carried about itself before it was nested (same inner class, other outer / name / flags) is stale once the
        // nest's own entry is recorded. "Records each in an InnerClasses entry" is met with it kept (the repository) and with it replaced.
        if want != obs {
            let me = want.this_class.clone();
            let own = want.inner_classes.as_ref().map_or(0, |v| v.iter().filter(|ic| ic.inner == me).count());
            if own >= 2 {
                let mut alt = want.clone();
                // the nest's entry is the one pushed last by expected_class; after canon() it is found again by comparing with the observation
                let changing: BTreeMap<&str, &str> = exp.names.iter().filter(|(a, b)| a != b).map(|(a, b)| (a.as_str(), b.as_str())).collect();
                let ren = |s: &str| changing.get(s).map(|x| x.to_string()).unwrap_or_else(|| s.to_string());
                if let Some(mine) = exp.applying.iter().find(|r| &r.class == old).map(|r| nest_entry(r, &ren)) {
                    // of the entries about this class any stale one (every one but the nest's own) may be gone; nothing else may differ
                    if let (Some(wv), Some(ov)) = (&want.inner_classes, &obs.inner_classes) {
                        let mut rest = ov.clone(); let mut missing = vec![];
                        for ic in wv { match rest.iter().position(|x| x == ic) { Some(k) => { rest.remove(k); } None => missing.push(ic.clone()) } }
                        if rest.is_empty() && !missing.is_empty() && missing.iter().all(|ic| ic.inner == me) && ov.contains(&mine) {
                            alt.inner_classes = Some(ov.clone());
                        }
                    }
                    // only this one fact is settled here; whatever else differs (e.g. the frames the writer drops) is judged below
                    if alt.inner_classes == obs.inner_classes && want.inner_classes != obs.inner_classes { rep.count("jar.stale_self_entry_replaced (accepted)"); want = alt; }
                }
            }
        }
        // `inner_name` of an entry that was there before the nesting: the statement speaks about class names and references to them; whether the
        // simple-name string of an entry follows its renamed class is open. Kept as it was (the repository) and "the simple name the renamed
        // inner class ends in" are both accepted - for entries other than the one the nest itself asks for.
        if want.inner_classes != obs.inner_classes {
            let changing: BTreeMap<&str, &str> = exp.names.iter().filter(|(a, b)| a != b).map(|(a, b)| (a.as_str(), b.as_str())).collect();
            let ren = |s: &str| changing.get(s).map(|x| x.to_string()).unwrap_or_else(|| s.to_string());
            let mine = exp.applying.iter().find(|r| &r.class == old).map(|r| nest_entry(r, &ren));
            if let (Some(wv), Some(ov)) = (&mut want.inner_classes, &obs.inner_classes) {
                if wv.len() == ov.len() {
                    for (w, o) in wv.iter_mut().zip(ov) {
                        if w.inner == o.inner && w.outer == o.outer && w.flags == o.flags && w.name != o.name && Some(&*w) != mine.as_ref() {
                            let full = w.inner.show(); let simple = strip_digits(full.rsplit('$').next().unwrap_or(&full)).to_string();
                            if full.contains('$') && o.name.as_ref().map(|n| n.show()) == Some(simple) { w.name = o.name.clone(); rep.count("jar.inner_name_follows_renamed_class (accepted)"); }
                        }
                    }
                }
            }
        }
        // Further entries: "records each in an InnerClasses entry" asks for the entry in the nested class; that other classes (its
        // enclosing class, as javac does it) also carry the entry of an applied nest is not excluded. Entries that are exactly the
        // entry of some applying row are accepted as additions; anything else that is added is still reported.
        if want.inner_classes != obs.inner_classes {
            let changing: BTreeMap<&str, &str> = exp.names.iter().filter(|(a, b)| a != b).map(|(a, b)| (a.as_str(), b.as_str())).collect();
            let ren = |s: &str| changing.get(s).map(|x| x.to_string()).unwrap_or_else(|| s.to_string());
            let nests: Vec<InnerClass> = exp.applying.iter().map(|r| nest_entry(r, &ren)).collect();
            let wv = want.inner_classes.clone().unwrap_or_default();
            if let Some(ov) = &obs.inner_classes {
                let mut rest = ov.clone(); let mut all_there = true;
                for ic in &wv { match rest.iter().position(|x| x == ic) { Some(k) => { rest.remove(k); } None => all_there = false } }
                if all_there && !rest.is_empty() && rest.iter().all(|x| nests.contains(x)) { want.inner_classes = Some(ov.clone()); rep.count("jar.entry_of_an_applied_nest_also_in_another_class (accepted)"); }
            }
        }
        if want != obs {
            ok = false;
            for d in diff::diff(&want, &obs, 10) {
                bad(rep, format!("C14 jar class fact {}", fact_signature(&d)), json!({"class": old, "entry": ename, "at": d.at, "expected": d.expected, "observed": d.observed}));
            }
        } else { rep.count("jar.classes_equal_to_expectation"); }
    }
    // created enclosing classes
    for m in &exp.must_create {
        let ename = format!("{m}.class");
        expected_entries.insert(ename.clone());
        let entry = match out_map.get(ename.as_str()) {
            Some(e) => Some(*e),
            None => match out_map.get(m.as_str()) {
                // the class exists, but under an entry name no jar reader takes for a class
                Some(e @ OutEntry::Class(_)) | Some(e @ OutEntry::Other(_)) => {
                    ok = false; expected_entries.insert(m.clone());
                    bad(rep, "C14 jar: created enclosing class is stored under an entry name without the .class extension".into(), json!({"enclosing class": m, "entry": m}));
                    Some(*e)
                }
                _ => None,
            },
        };
        let bytes: Option<&Vec<u8>> = match entry { Some(OutEntry::Class(Ok(b))) => Some(b), Some(OutEntry::Other(b)) => Some(b), _ => None };
        match (entry, bytes) {
            (None, _) => { ok = false; bad(rep, "C14 jar: missing enclosing class of an applying row is not created".into(), json!({"enclosing class": m})); }
            (Some(_), Some(b)) => match parse::parse(b) {
                Ok(c) => { rep.count("jar.created_enclosing_classes"); if c.this_class.show() != *m { ok = false; bad(rep, "C14 jar: created enclosing class has another name than the row says".into(), json!({"enclosing class": m, "this_class": c.this_class.show()})); } }
                Err(e) => { ok = false; bad(rep, format!("C14 jar: created enclosing class is not a well-formed class file: {}", crate::mapside::err_template(&e)), json!({"enclosing class": m, "error": e})); }
            },
            (Some(_), None) => { ok = false; bad(rep, "C14 jar: created enclosing class cannot be written".into(), json!({"enclosing class": m})); }
        }
    }
    for m in &exp.may_create {
        let e = format!("{m}.class");
        if !exp.must_create.contains(m) {
            if out_map.contains_key(e.as_str()) { rep.count("jar.created_for_non_applying_row"); }
            else if matches!(out_map.get(m.as_str()), Some(OutEntry::Class(_)) | Some(OutEntry::Other(_))) {
                ok = false; expected_entries.insert(m.clone()); rep.count("jar.created_for_non_applying_row");
                bad(rep, "C14 jar: created enclosing class is stored under an entry name without the .class extension".into(), json!({"enclosing class": m, "entry": m}));
            }
        }
        expected_entries.insert(e);
    }
    // other entries keep name and content
    for (n, e) in others {
        expected_entries.insert(n.clone());
        let same = match (e, out_map.get(n.as_str())) { (InEntry::Other(a), Some(OutEntry::Other(b))) => a == b, (InEntry::Dir, Some(OutEntry::Dir)) => true, _ => false };
        if !same { ok = false; bad(rep, "C14 jar: a non-class entry is lost or changed".into(), json!({"entry": n})); } else { rep.count("jar.other_entries_kept"); }
    }
    for (n, _) in out { if names_ok && !expected_entries.contains(n) { ok = false; bad(rep, "C14 jar: unexpected entry in the nested jar".into(), json!({"entry": n, "expected entries": expected_entries})); } }
    JarJudgement { ok }
}

/// emits a body and checks the harness' own parser reads it back (harness error otherwise)
pub fn emit_checked(c: &Class, rng: &mut Rng, case: &(String, u64)) -> Option<Vec<u8>> {
    let layout = if rng.chance(1, 2) { emit::Layout::canonical() } else { emit::Layout::random(rng.next_u64()) };
    let bytes = emit::emit(c, &layout).ok()?;
    match parse::parse(&bytes) {
        Ok(p) if &p == c => Some(bytes),
        Ok(p) => { eprintln!("HARNESS-ERROR parse(emit(M)) != M at {:?} (case {case:?})", diff::diff(c, &p, 3)); std::process::exit(3) }
        Err(e) => { eprintln!("HARNESS-ERROR parse(emit(M)) failed: {e} (case {case:?})"); std::process::exit(3) }
    }
}
