//! C14 — nesting renames classes identically in jars and in mappings.
//!
//! Observed: `dukenest::{nest_jar, apply_nests_to_mappings, undo_nests_to_mappings, remap_nests}` and `Nests::read`
//! (the table always enters as TEXT). Oracle: the reference nester of `refnest.rs` (rows that apply per kind rule,
//! transitive `Enclosing$Inner` names), the class-only renamer of `rename.rs` over the independently parsed class
//! models, the reference `apply` / nest translation of `mapside.rs`. See NOTES.md for what is not judged.
mod jarside;
mod mapside;
mod refnest;
mod rename;
mod scenario;

use common::{par::*, report::{finish, Meta}, *};
use jarside::{InEntry, OutEntry};
use mapside::{Exp, Src};
use maps::{Ins, Maps};
use refnest::*;
use scenario::*;
use std::collections::{BTreeMap, BTreeSet};

fn hash_parts(parts: &[String]) -> u64 { rng::fnv_str(&parts.join("|")) }

/// how a row looks to the reference (for counters and fingerprints)
fn row_shape(r: &Row, verdict: Option<&'static str>, jar: &JarIndex, applying: &[&Row], new: Option<&String>) -> String {
    let depth = if verdict.is_none() { chain_depth(r, applying) } else { 0 };
    format!("{}:{}:d{}:{}:{}:{}", r.kind().name(), if verdict.is_none() { "applies" } else { "not" }, depth,
        if jar.contains_key(&r.encl) { "encl_present" } else { "encl_missing" },
        if new.is_some_and(|n| n == &r.class) { "same_name" } else { "new_name" },
        match &r.method { None => "no_method", Some(_) if method_present(jar, r) => "method_declared", Some(_) => "method_not_declared" })
}

fn depth_bucket(d: usize) -> String { match d { 0..=5 => d.to_string(), 6..=9 => "6-9".into(), 10..=15 => "10-15".into(), 16..=24 => "16-24".into(), _ => "25+".into() } }
/// counts `key.<bucket>`, `key.ge_10`, `key.ge_16` and the same per row order
fn count_depth(rep: &mut Report, key: &str, d: usize, order: RowOrder) {
    rep.count(&format!("{key}.max_chain_depth.{}", depth_bucket(d)));
    for t in [6usize, 10, 16] { if d >= t { rep.count(&format!("{key}.chain_depth_ge_{t}")); rep.count(&format!("{key}.chain_depth_ge_{t}.rows_{}", order.name())); } }
}

struct MapOutcome { applied: Option<Maps> }

/// The mapping-side judgement shared by both workloads. `names_all` = new names by the construction over the whole table.
fn map_side(rng: &mut Rng, rep: &mut Report, rows: &[Row], text: &str, m: &Maps, shapes: &BTreeMap<String, TargetShape>, names_all: &BTreeMap<String, String>, order: RowOrder) -> MapOutcome {
    let detail = || json!({"table": text, "mappings": m.render()});
    let mut out = MapOutcome { applied: None };
    let nests = match mapside::read_table::<Src>(text) {
        Err(p) => { rep.violation(format!("C14 panic {}", p.site()), json!({"in": "Nests::read", "panic": p.message, "input": detail()})); return out; }
        Ok(Err(e)) => { rep.violation(format!("C14 table text: a well-formed table is rejected: {}", mapside::err_template(&e)), json!({"error": e, "input": detail()})); return out; }
        Ok(Ok(n)) => n,
    };
    if !mapside::judge_table(rep, rows, &nests, &detail) { return out; }
    rep.count("table.read_and_compared");
    for r in rows { rep.count(&format!("table.access_notation.{}", ["decimal", "hexadecimal", "binary"][r.radix as usize % 3])); }
    let mut fork = rng.fork();
    let mut ins = match fork.below(3) { 0 => Ins::Sorted, 1 => Ins::Reverse, _ => Ins::Shuffle(&mut fork) };
    let q = match mapside::to_quill(m, &mut ins) { Ok(q) => q, Err(e) => { rep.count("harness.to_quill_failed"); rep.note(format!("to_quill failed: {e}")); return out; } };

    // ---- nest translation
    let exp = mapside::ref_translate(rows, m);
    let outside = exp.iter().any(|e| matches!(e.encl, Exp::Outside(_)) || matches!(e.inner, Exp::Outside(_)));
    // the real code follows class -> enclosing class links recursively, in the source table and in the translated one
    let links_src: Vec<(String, String)> = rows.iter().map(|r| (r.class.clone(), r.encl.clone())).collect();
    let links_dst: Vec<(String, String)> = exp.iter().filter_map(|e| match &e.encl { Exp::Exact(x) => Some((e.class.clone(), x.clone())), _ => None }).collect();
    if !acyclic(&links_src) { rep.count("harness.cyclic_source_table"); return out; }
    if !acyclic(&links_dst) { rep.count("domain.translated_table_cyclic"); return out; }
    if outside { rep.count("domain.translation_outside_pinned_rules"); for e in &exp { rep.count(&format!("translate.inner_name.{}", e.inner_case)); } return out; }
    for e in &exp { rep.count(&format!("translate.inner_name.{}", e.inner_case)); }
    for r in rows { if let Some(s) = shapes.get(&r.class) { rep.seen("translate.target_shapes_of_listed_classes", &format!("{s:?}")); } else { rep.count("translate.listed_class_without_mapping_entry"); } }
    match mapside::call_remap(&nests, &q) {
        Err(p) => { if !outside { rep.violation(format!("C14 panic {}", p.site()), json!({"in": "remap_nests", "panic": p.message, "input": detail()})); } }
        Ok(Err(e)) => { if !outside { rep.violation(format!("C14 nest translation: refuses a table inside the domain: {}", mapside::err_template(&e)), json!({"error": e, "input": detail()})); } }
        Ok(Ok(t)) => { if !outside { let full = mapside::judge_translation(rep, &exp, &t, &detail); rep.add("translate.nests_judged_completely", full as u64); rep.count("translate.tables_judged"); for e in &exp { if e.method.is_some() { rep.count("translate.enclosing_methods_judged"); } } } }
    }

    // ---- apply
    let Some(want) = mapside::ref_apply(m, names_all) else { rep.count("domain.apply_would_collide"); return out; };
    match mapside::call_apply(q.clone(), &nests) {
        Err(p) => { if !outside { rep.violation(format!("C14 panic {}", p.site()), json!({"in": "apply_nests_to_mappings", "panic": p.message, "input": detail()})); } }
        Ok(Err(e)) => { if !outside { rep.violation(format!("C14 mappings apply: refuses a table inside the domain: {}", mapside::err_template(&e)), json!({"error": e, "input": detail()})); } }
        Ok(Ok(a)) => {
            maps::watch(rep, "C14", "apply_nests_to_mappings", &a, &detail);
            let got = maps::from_quill(&a);
            rep.count("apply.judged");
            let all_rows: Vec<&Row> = rows.iter().collect();
            let max_depth = rows.iter().map(|r| chain_depth(r, &all_rows)).max().unwrap_or(0);
            count_depth(rep, "apply.judged", max_depth, order);
            let listed_new: BTreeSet<String> = names_all.values().cloned().collect();
            let listed_old: BTreeSet<String> = names_all.keys().cloned().collect();
            rep.add("apply.unlisted_class_entries_with_judged_target_name", m.classes.keys().filter(|k| !listed_old.contains(*k)).count() as u64);
            if mapside::judge_maps(rep, "apply", &want, &got, &listed_new, &detail) { rep.count("apply.equal_to_reference"); }
            let renamed = m.classes.keys().filter(|k| names_all.get(*k).is_some_and(|n| n != *k)).count();
            rep.add("apply.class_entries_renamed_expected", renamed as u64);
            let mut descs_changed = 0u64;
            for c in m.classes.values() { for (_, d) in c.fields.keys().chain(c.methods.keys()) { if maps::desc::classes_of(d).iter().any(|x| names_all.get(x).is_some_and(|n| n != x)) { descs_changed += 1; } } }
            rep.add("apply.descriptors_rewritten_expected", descs_changed);
            // ---- undo(apply(M)) == M on source names and descriptors
            match mapside::call_undo(a, &nests) {
                Err(p) => rep.violation(format!("C14 panic {}", p.site()), json!({"in": "undo_nests_to_mappings", "panic": p.message, "input": detail()})),
                Ok(Err(e)) => rep.violation(format!("C14 mappings undo: refuses what apply produced: {}", mapside::err_template(&e)), json!({"error": e, "input": detail()})),
                Ok(Ok(u)) => {
                    maps::watch(rep, "C14", "undo_nests_to_mappings", &u, &detail);
                    let back = maps::from_quill(&u);
                    rep.count("undo.judged");
                    count_depth(rep, "undo.judged", max_depth, order);
                    if mapside::judge_maps(rep, "undo(apply(M)) vs M", m, &back, &listed_old, &detail) { rep.count("undo.restores_source_names_and_descriptors"); }
                }
            }
            out.applied = Some(got);
        }
    }
    out
}

fn jar_case(rng: &mut Rng, rep: &mut Report) {
    let mut names = Names::new();
    // 1 case in 8: one chain of 6..=24 nests (lean class bodies, so that a 25-class jar stays cheap)
    let deep = if rng.chance(1, 8) { Some(rng.usize_in(6, 24)) } else { None };
    let order = RowOrder::pick(rng);
    let n = match deep { Some(d) => d + 1 + rng.below(3), None => rng.usize_in(3, 8) };
    let present = gen_present(rng, &mut names, n);
    let mut pool = present.clone();
    for _ in 0..2 { pool.push(names.top(rng)); }
    let mut bodies: Vec<(String, cf::model::Class)> = vec![];
    for (k, name) in present.iter().enumerate() {
        let mut c = jarside::gen_body(rng, name, &pool, deep.is_some());
        c.source_file = Some(cf::model::JS::new(&format!("id{k}.java")));
        bodies.push((name.clone(), c));
    }
    let methods: BTreeMap<String, Vec<(String, String)>> = bodies.iter().map(|(n, c)| (n.clone(), jarside::methods_of(c))).collect();
    let all_apply = if deep.is_some() { rng.chance(3, 5) } else { rng.chance(2, 5) };
    let rows = gen_rows(rng, &mut names, &present, &methods, &RowCfg { max_rows: 6, all_apply, absent_rows: true, deep, order });
    let mut universe = universe_of(&present, &rows);
    universe.extend(pool.iter().cloned());
    let index = jarside::jar_index(&bodies);
    let exp = expect_jar(&index, &rows);
    let all_rows: Vec<&Row> = rows.iter().collect();
    let names_all = new_names(&all_rows);
    if !injective(&exp.names, &universe) || !injective(&names_all, &universe) { rep.count("domain.skipped_rename_not_injective"); return; }
    let final_newline = rng.bool();
    let text = table_text(&rows, final_newline);
    let case = rep.cur.clone();
    let mut entries: Vec<(String, InEntry)> = vec![];
    for (name, c) in &bodies {
        let Some(b) = jarside::emit_checked(c, rng, &case) else { rep.count("harness.emit_skipped"); return; };
        entries.push((format!("{name}.class"), InEntry::Class(b)));
    }
    rng.shuffle(&mut entries);
    let mut others: Vec<(String, InEntry)> = vec![];
    if rng.chance(1, 3) { others.push(("META-INF/MANIFEST.MF".into(), InEntry::Other(b"Manifest-Version: 1.0\n".to_vec()))); }
    if rng.chance(1, 4) { others.push(("data/blob.bin".into(), InEntry::Other((0..rng.below(40)).map(|_| rng.next_u32() as u8).collect()))); }
    if rng.chance(1, 5) { others.push(("data/".into(), InEntry::Dir)); }
    for o in &others { let at = rng.below(entries.len() + 1); entries.insert(at, o.clone()); }
    let through_zip = rng.chance(1, 4);

    let detail = || json!({"table": text, "jar classes": present, "methods declared": index.iter().map(|(c, ms)| (c.clone(), ms.iter().map(|(n, d)| format!("{n}{d}")).collect::<Vec<_>>())).collect::<BTreeMap<_, _>>(),
        "expected new names": exp.names, "rows that do not apply": rows.iter().zip(&exp.verdicts).filter_map(|(r, v)| v.map(|w| format!("{}: {w}", r.class))).collect::<Vec<_>>(), "through zip": through_zip});
    rep.eval();
    // ---- coverage of the table
    let applying: Vec<&Row> = exp.applying.iter().collect();
    let mut shapes_fp: Vec<String> = vec![];
    let mut renames = 0;
    for (r, v) in rows.iter().zip(&exp.verdicts) {
        let sh = row_shape(r, *v, &index, &applying, exp.names.get(&r.class));
        rep.seen("jar.row_shapes", &sh);
        rep.count(&format!("rows.{}.{}", r.kind().name(), if v.is_none() { "applies" } else { "does_not_apply" }));
        if let Some(w) = v { rep.count(&format!("rows.not_applying.{w}")); }
        if v.is_none() {
            let d = chain_depth(r, &applying); rep.count(&format!("rows.applying.chain_depth.{}", depth_bucket(d)));
            if exp.names.get(&r.class) == Some(&r.class) { rep.count("rows.applying.name_unchanged"); } else { renames += 1; }
            if !index.contains_key(&r.encl) { rep.count("rows.applying.enclosing_class_missing"); }
            // chain whose upper part does not apply: the enclosing class has a row that does not apply
            if rows.iter().zip(&exp.verdicts).any(|(o, ov)| o.class == r.encl && ov.is_some()) { rep.count("rows.applying.below_a_row_that_does_not_apply"); }
            if r.kind() == Kind::Anonymous {
                rep.count(if r.method.is_some() { "rows.anonymous.with_method" } else { "rows.anonymous.without_method" });
                if scenario::ANON_BOUNDARY.contains(&r.inner.as_str()) { rep.count(&format!("rows.anonymous.applies.number.{}", r.inner)); }
            }
        } else if index.contains_key(&r.class) && !index.contains_key(&r.encl) { rep.count("rows.not_applying.class_present_enclosing_missing"); }
        if r.method.is_some() != method_present(&index, r) && r.method.is_some() { rep.count("rows.method_named_but_not_declared"); }
        shapes_fp.push(sh);
    }
    shapes_fp.sort();
    let max_depth_jar = exp.applying.iter().map(|r| chain_depth(r, &applying)).max().unwrap_or(0);
    if max_depth_jar >= 6 {
        // kinds along the deepest applying chain
        let by: BTreeMap<&str, &Row> = applying.iter().map(|r| (r.class.as_str(), *r)).collect();
        if let Some(bottom) = exp.applying.iter().max_by_key(|r| chain_depth(r, &applying)) {
            let mut kinds = std::collections::BTreeSet::new(); let mut cur = Some(bottom);
            while let Some(r) = cur { kinds.insert(r.kind()); cur = by.get(r.encl.as_str()).copied(); }
            rep.count(&format!("deep.jar.kinds_along_the_deepest_chain.{}", kinds.len()));
        }
    }
    let everything_applies = exp.verdicts.iter().all(|v| v.is_none());
    if everything_applies { rep.count("tables.all_rows_apply"); } else { rep.count("tables.some_row_does_not_apply"); }

    // ---- the jar
    let inputs: Vec<(String, cf::model::Class)> = bodies.clone();
    let mut jar_names: BTreeMap<usize, String> = BTreeMap::new();
    match jarside::nest_real(&entries, &text, through_zip) {
        Err(p) => rep.violation(format!("C14 panic {}", p.site()), json!({"in": "nest_jar", "panic": p.message, "at": format!("{}:{}", p.file, p.line), "input": detail()})),
        Ok(Err(e)) => rep.violation(format!("C14 jar: nest_jar refuses a jar and table inside the domain: {}", mapside::err_template(&e)), json!({"error": e, "input": detail()})),
        Ok(Ok(out)) => {
            rep.count(if through_zip { "jar.through_zip" } else { "jar.in_memory" });
            let j = jarside::judge_jar(rep, &inputs, &others, &rows, &exp, &out, &detail);
            if j.ok { rep.count("jar.whole_jar_equal_to_expectation"); }
            count_depth(rep, "jar.judged", max_depth_jar, order);
            // observed name of every input class, found through its SourceFile marker (independent of the expectation)
            for (_, e) in &out {
                if let OutEntry::Class(Ok(b)) = e { if let Ok(c) = cf::parse::parse(b) { if let Some(sf) = &c.source_file { if let Some(k) = sf.show().strip_prefix("id").and_then(|s| s.strip_suffix(".java")).and_then(|s| s.parse::<usize>().ok()) { jar_names.insert(k, c.this_class.show()); } } } }
            }
        }
    }
    let hits: u64 = inputs.iter().map(|(_, c)| jarside::expected_class(c, &exp).1).sum();
    if renames > 0 && hits > 0 { rep.nontrivial(hash_parts(&[format!("jar n={n} all={everything_applies}"), shapes_fp.join(",")])); }

    // ---- the mappings over the same classes; agreement
    let want_methods: Vec<(String, (String, String))> = rows.iter().filter_map(|r| r.method.clone().map(|m| (r.encl.clone(), m))).collect();
    let (mut m, tshapes) = gen_mappings(rng, &universe, &present, &want_methods, false);
    for (k, name) in present.iter().enumerate() { if let Some(c) = m.classes.get_mut(name) { c.comment = Some(format!("id{k}")); } }
    let mo = map_side(rng, rep, &rows, &text, &m, &tshapes, &names_all, order);
    if let Some(applied) = &mo.applied {
        let mut map_names: BTreeMap<usize, String> = BTreeMap::new();
        for c in applied.classes.values() { if let Some(k) = c.comment.as_deref().and_then(|s| s.strip_prefix("id")).and_then(|s| s.parse::<usize>().ok()) { if let Some(n0) = &c.names[0] { map_names.insert(k, n0.clone()); } } }
        if jar_names.len() == present.len() && map_names.len() == present.len() {
            let differing: Vec<usize> = (0..present.len()).filter(|k| jar_names.get(k) != map_names.get(k)).collect();
            if everything_applies {
                rep.count("agreement.tables_judged");
                count_depth(rep, "agreement.tables_judged", max_depth_jar, order);
                rep.add("agreement.classes_compared", present.len() as u64);
                if !differing.is_empty() {
                    let k = differing[0];
                    rep.violation("C14 agreement: jar and mappings name a class differently although every row applies", json!({"class": present[k], "jar": jar_names.get(&k), "mappings": map_names.get(&k), "input": detail()}));
                } else { rep.count("agreement.all_class_names_agree"); }
            } else {
                rep.count("agreement.not_judged_some_row_does_not_apply");
                if !differing.is_empty() { rep.count("agreement.not_judged.names_differ_as_expected_for_non_applying_rows"); }
            }
        } else { rep.count("agreement.not_judged_class_not_located"); }
    }
    if rep.want_sample() && renames > 0 { rep.sample(|| json!({"kind": "jar case", "table": text, "jar classes": present, "expected new names": exp.names, "created": exp.must_create, "mappings": m.render()})); }
}

/// `small` = tiny scenarios (the slice the interpreter runs)
fn maps_case(rng: &mut Rng, rep: &mut Report, small: bool) {
    let mut names = Names::new();
    let deep = if !small && rng.chance(1, 6) { Some(rng.usize_in(6, 24)) } else { None };
    let order = RowOrder::pick(rng);
    let n = match deep { Some(d) => d + 1 + rng.below(3), None => if small { rng.usize_in(2, 4) } else { rng.usize_in(2, 9) } };
    let present = gen_present(rng, &mut names, n);
    let mut methods: BTreeMap<String, Vec<(String, String)>> = BTreeMap::new();
    for c in &present {
        let mut v = vec![];
        for k in 0..rng.below(3) { let d = match rng.below(3) { 0 => "()V".to_string(), 1 => format!("(L{};)V", rng.pick(&present)), _ => format!("(I)[L{};", rng.pick(&present)) }; v.push((format!("m{k}"), d)); }
        methods.insert(c.clone(), v);
    }
    let rows = gen_rows(rng, &mut names, &present, &methods, &RowCfg { max_rows: if small { 3 } else { 7 }, all_apply: false, absent_rows: true, deep, order });
    let universe = universe_of(&present, &rows);
    let all_rows: Vec<&Row> = rows.iter().collect();
    let names_all = new_names(&all_rows);
    if !injective(&names_all, &universe) { rep.count("domain.skipped_rename_not_injective"); return; }
    let text = table_text(&rows, rng.bool());
    let want_methods: Vec<(String, (String, String))> = rows.iter().filter_map(|r| r.method.clone().map(|m| (r.encl.clone(), m))).collect();
    let (m, tshapes) = gen_mappings(rng, &universe, &[], &want_methods, small);
    rep.eval();
    let mut fp: Vec<String> = rows.iter().map(|r| format!("{}:d{}:{:?}:{}", r.kind().name(), chain_depth(r, &all_rows), tshapes.get(&r.class), r.method.is_some())).collect();
    fp.sort();
    for r in &rows { rep.count(&format!("maps.rows.chain_depth.{}", depth_bucket(chain_depth(r, &all_rows)))); }
    let listed_with_entry = rows.iter().filter(|r| m.classes.contains_key(&r.class)).count();
    let mo = map_side(rng, rep, &rows, &text, &m, &tshapes, &names_all, order);
    let touched = m.classes.values().any(|c| c.fields.keys().chain(c.methods.keys()).any(|(_, d)| maps::desc::classes_of(d).iter().any(|x| names_all.get(x).is_some_and(|nn| nn != x))));
    if listed_with_entry > 0 && touched { rep.nontrivial(hash_parts(&[format!("maps n={n}"), fp.join(",")])); }
    if rep.want_sample() && mo.applied.is_some() && listed_with_entry > 0 && rep.samples.len() < 2 { rep.sample(|| json!({"kind": "mapping case", "table": text, "mappings": m.render(), "expected source names": names_all})); }
}

// ------------------------------------------------------------------------------------------------ self-checks

fn self_checks() -> Result<(), String> {
    refnest::self_check()?;
    rename::self_check()?;
    mapside::self_check()?;
    maps::self_test(3, 20)?;
    // canaries: the comparison functions must flag deliberately wrong expectations
    let mut rng = Rng::new(0xC14);
    let mut tried = 0;
    let (mut jar_ok, mut fact_ok, mut map_ok, mut tr_ok) = (false, false, false, false);
    while tried < 200 && !(jar_ok && fact_ok && map_ok && tr_ok) {
        tried += 1;
        let mut names = Names::new();
        let present = gen_present(&mut rng, &mut names, 4);
        let bodies: Vec<(String, cf::model::Class)> = present.iter().map(|n| (n.clone(), jarside::gen_body(&mut rng, n, &present, false))).collect();
        let methods: BTreeMap<String, Vec<(String, String)>> = bodies.iter().map(|(n, c)| (n.clone(), jarside::methods_of(c))).collect();
        let rows = gen_rows(&mut rng, &mut names, &present, &methods, &RowCfg { max_rows: 3, all_apply: true, absent_rows: false, deep: None, order: RowOrder::Shuffled });
        let universe = universe_of(&present, &rows);
        let index = jarside::jar_index(&bodies);
        let exp = expect_jar(&index, &rows);
        let all_rows: Vec<&Row> = rows.iter().collect();
        let names_all = new_names(&all_rows);
        if !injective(&names_all, &universe) || !exp.names.iter().any(|(a, b)| a != b) { continue; }
        let text = table_text(&rows, true);
        let mut entries = vec![];
        for (n, c) in &bodies { match cf::emit::emit(c, &cf::emit::Layout::canonical()) { Ok(b) => entries.push((format!("{n}.class"), InEntry::Class(b))), Err(_) => { entries.clear(); break; } } }
        if entries.is_empty() { continue; }
        let Ok(Ok(out)) = jarside::nest_real(&entries, &text, false) else { continue };
        // (1) expectation without the first renaming row: the renamed class must be reported
        let victim = exp.names.iter().find(|(a, b)| a != b).map(|(a, _)| a.clone()).unwrap_or_default();
        let fewer: Vec<Row> = rows.iter().filter(|r| r.class != victim).cloned().collect();
        let wrong = expect_jar(&index, &fewer);
        let mut probe = Report::new();
        jarside::judge_jar(&mut probe, &bodies, &[], &fewer, &wrong, &out, &|| json!(null));
        if probe.violations.keys().any(|k| k.starts_with("C14 jar: class without a row is missing") || k.starts_with("C14 jar: unexpected entry")) { jar_ok = true; }
        // (2) expectation that forgets to rename field descriptors: a fact difference must be reported
        let mut wrong_bodies = bodies.clone();
        let mut changed = false;
        for (_, c) in &mut wrong_bodies { for m in &mut c.methods { if m.desc.show().contains(&format!("L{victim};")) { m.desc = cf::model::JS::new(&m.desc.show().replace(&format!("L{victim};"), "Lcanary/Wrong;")); changed = true; } } }
        if changed {
            let mut probe = Report::new();
            jarside::judge_jar(&mut probe, &wrong_bodies, &[], &rows, &exp, &out, &|| json!(null));
            if probe.violations.keys().any(|k| k.starts_with("C14 jar class fact .methods[].desc")) { fact_ok = true; }
        }
        // (3) mapping side: a reference that forgets one rename must be reported; (4) a wrong inner name too
        let (m, _) = gen_mappings(&mut rng, &universe, &present, &[], false);
        let Ok(q) = mapside::to_quill(&m, &mut Ins::Sorted) else { continue };
        let Ok(Ok(nests)) = mapside::read_table::<Src>(&text) else { continue };
        if let Ok(Ok(a)) = mapside::call_apply(q.clone(), &nests) {
            let mut fewer_names = names_all.clone(); fewer_names.remove(&victim);
            if let Some(wrong) = mapside::ref_apply(&m, &fewer_names) {
                let mut probe = Report::new();
                mapside::judge_maps(&mut probe, "apply", &wrong, &maps::from_quill(&a), &names_all.values().cloned().collect(), &|| json!(null));
                if !probe.violations.is_empty() { map_ok = true; }
            }
        }
        if let Ok(Ok(t)) = mapside::call_remap(&nests, &q) {
            let mut e = mapside::ref_translate(&rows, &m);
            if e.iter().all(|x| matches!(x.inner, Exp::Exact(_)) && matches!(x.encl, Exp::Exact(_))) {
                e[0].inner = Exp::Exact("canary$Wrong".into());
                let mut probe = Report::new();
                mapside::judge_translation(&mut probe, &e, &t, &|| json!(null));
                if probe.violations.keys().any(|k| k.contains("inner name differs")) { tr_ok = true; }
            }
        }
    }
    if !(jar_ok && fact_ok && map_ok && tr_ok) { return Err(format!("canaries not flagged after {tried} scenarios: jar={jar_ok} fact={fact_ok} mappings={map_ok} translation={tr_ok}")); }
    Ok(())
}

// ------------------------------------------------------------------------------------------------ Miri

/// `c14 --miri-slice <seed> <operations> <max seconds> <shard>`: mapping-side operations only (table reading, nest
/// translation, apply, undo, with the same judgement as the native run), single-threaded, no files.
fn miri_slice(seed: u64, ops: usize, max_s: u64, shard: u64) -> i32 {
    let mut rep = Report::new();
    let deadline = std::time::Instant::now() + std::time::Duration::from_secs(max_s);
    let mut i = 0u64;
    let count = |rep: &Report| rep.get("table.read_and_compared") + rep.get("translate.tables_judged") + rep.get("apply.judged") + rep.get("undo.judged");
    while (count(&rep) as usize) < ops && i < 10_000 && std::time::Instant::now() < deadline {
        let mut rng = Rng::new(rng::case_seed(seed, "C14/miri", shard * 1_000_000 + i));
        rep.cur = ("miri".into(), i);
        maps_case(&mut rng, &mut rep, true);
        i += 1;
    }
    for v in rep.violations.values() { println!("SLICE-OBSERVATION {} ({}x)", v.signature, v.count); }
    println!("MIRI-SLICE done cases={} operations={} (asked for {}) observations={}", i, count(&rep), ops, rep.violations.len());
    0
}

/// the interpreter's build goes next to the build this binary comes from (`<target>/release/c14` -> `<target>/miri`)
fn miri_target_dir() -> String {
    std::env::current_exe().ok().and_then(|p| p.parent().and_then(|d| d.parent()).map(|t| t.join("miri").to_string_lossy().into_owned())).unwrap_or_else(|| "/tmp/c14-miri-target".into())
}

const MIRI_DIAG: [&str; 7] = ["Undefined Behavior", "error: unsupported operation", "error: memory leaked", "error: abnormal termination", "error: deadlock", "error: resource exhaustion", "error: the evaluated program"];

/// Builds the slice once, then runs it sharded over processes. Returns (status for the evidence, diagnostics, observations).
fn run_miri(ctx: &Ctx, ops_per_shard: usize) -> (Value, Vec<String>, Vec<String>) {
    let manifest = format!("{}/../../Cargo.toml", env!("CARGO_MANIFEST_DIR"));
    if !std::path::Path::new(&manifest).exists() { return (json!({"status": format!("skipped: {manifest} not found")}), vec![], vec![]); }
    let t0 = std::time::Instant::now();
    let cmd = |secs: &str, args: &[String]| {
        let mut c = std::process::Command::new("timeout");
        c.args(["-k", "10", secs, "cargo", "+nightly", "miri", "run", "--offline", "--manifest-path", &manifest, "-p", "c14", "--", "--miri-slice"]).args(args)
            .env("MIRIFLAGS", "-Zmiri-disable-isolation").env("CARGO_NET_OFFLINE", "true").env("CARGO_TARGET_DIR", miri_target_dir()).env("RUST_BACKTRACE", "0").env_remove("RUSTFLAGS")
            .stdin(std::process::Stdio::null());
        c
    };
    // step 1: build (zero operations)
    let b = cmd("240", &[ctx.seed.to_string(), "0".into(), "1".into(), "0".into()]).output();
    let b = match b { Ok(o) => o, Err(e) => return (json!({"status": format!("skipped: cannot start cargo miri: {e}")}), vec![], vec![]) };
    if b.status.code() != Some(0) {
        let se = String::from_utf8_lossy(&b.stderr);
        return (json!({"status": format!("skipped: miri unavailable or build failed (exit {:?}) after {}s: {}", b.status.code(), t0.elapsed().as_secs(), se.lines().filter(|l| l.starts_with("error")).take(2).collect::<Vec<_>>().join(" | "))}), vec![], vec![]);
    }
    let build_s = t0.elapsed().as_secs();
    // step 2: shards in parallel
    let shards = ctx.threads.clamp(1, 8);
    let children: Vec<_> = (0..shards).filter_map(|k| cmd("150", &[ctx.seed.to_string(), ops_per_shard.to_string(), "100".into(), k.to_string()]).stdout(std::process::Stdio::piped()).stderr(std::process::Stdio::piped()).spawn().ok()).collect();
    let (mut done, mut ops, mut cases) = (0u64, 0u64, 0u64);
    let (mut diags, mut obs, mut failed): (Vec<String>, Vec<String>, Vec<String>) = (vec![], vec![], vec![]);
    for (k, c) in children.into_iter().enumerate() {
        let Ok(o) = c.wait_with_output() else { failed.push(format!("shard {k}: wait failed")); continue };
        let so = String::from_utf8_lossy(&o.stdout); let se = String::from_utf8_lossy(&o.stderr);
        for l in se.lines() { if MIRI_DIAG.iter().any(|d| l.contains(d)) { diags.push(l.trim().to_string()); } }
        for l in so.lines() { if let Some(x) = l.strip_prefix("SLICE-OBSERVATION ") { obs.push(x.to_string()); } }
        match (o.status.code(), so.lines().find(|l| l.starts_with("MIRI-SLICE done"))) {
            (Some(0), Some(line)) => {
                done += 1;
                for part in line.split_whitespace() { if let Some(v) = part.strip_prefix("operations=") { ops += v.parse::<u64>().unwrap_or(0); } if let Some(v) = part.strip_prefix("cases=") { cases += v.parse::<u64>().unwrap_or(0); } }
            }
            (code, _) => failed.push(format!("shard {k}: exit {code:?}: {}", se.lines().rev().take(3).collect::<Vec<_>>().join(" | "))),
        }
    }
    diags.sort(); diags.dedup(); obs.sort(); obs.dedup();
    let status = if !diags.is_empty() { "diagnostic" } else if done as usize == shards { "completed" } else if done > 0 { "partly completed (rest skipped)" } else { "skipped" };
    (json!({"status": status, "shards": shards, "shards_completed": done, "cases_interpreted": cases, "mapping_side_operations_interpreted": ops, "build_s": build_s, "wall_s": t0.elapsed().as_secs(),
        "diagnostics": diags, "not_completed": failed, "flags": "-Zmiri-disable-isolation", "command": "cargo +nightly miri run --offline -p c14 -- --miri-slice <seed> <operations> 100 <shard>"}), diags, obs)
}

fn main() {
    let args: Vec<String> = std::env::args().collect();
    if let Some(p) = args.iter().position(|a| a == "--miri-slice") {
        let seed = args.get(p + 1).and_then(|s| s.parse().ok()).unwrap_or(1);
        let n = args.get(p + 2).and_then(|s| s.parse().ok()).unwrap_or(60);
        let max_s = args.get(p + 3).and_then(|s| s.parse().ok()).unwrap_or(150);
        let shard = args.get(p + 4).and_then(|s| s.parse().ok()).unwrap_or(0);
        std::process::exit(miri_slice(seed, n, max_s, shard));
    }
    let mut ctx = Ctx::from_args("C14", 35, 300);
    let replay = load_replay(&mut ctx);
    if let Err(e) = self_checks() { println!("HARNESS-ERROR C14 self-check failed: {e}"); std::process::exit(3); }
    let mut rep = Report::new();
    // Three workloads. The obligations are met by the first two (a few hundred cases each); the wall-clock budget only
    // ends generation, so on a starved machine it is the bulk of the cheap mapping cases (`maps2`) that is cut short.
    let n_maps = ctx.tier.pick(15_000, 50_000);
    let n_jar = ctx.tier.pick(20_000, 200_000);
    let n_maps2 = ctx.tier.pick(45_000, 600_000);
    run_cases(&ctx, &replay, &mut rep, "maps", n_maps, |rng, rep, _| maps_case(rng, rep, false));
    run_cases(&ctx, &replay, &mut rep, "jar", n_jar, |rng, rep, _| jar_case(rng, rep));
    run_cases(&ctx, &replay, &mut rep, "maps2", n_maps2, |rng, rep, _| maps_case(rng, rep, false));

    // samples: the first two cases of each kind that produce one (re-executed on a scratch report, so that the evidence
    // shows a jar case and a mapping case whatever the thread schedule was)
    if replay.is_none() {
        rep.samples.clear();
        for wl in ["jar", "maps"] {
            let mut got = 0;
            for i in 0..300u64 {
                let mut scratch = Report::new();
                scratch.cur = (wl.to_string(), i);
                let mut r = Rng::new(rng::case_seed(ctx.seed, &format!("{}/{}", ctx.prop, wl), i));
                if wl == "jar" { jar_case(&mut r, &mut scratch) } else { maps_case(&mut r, &mut scratch, false) }
                if let Some(mut s) = scratch.samples.into_iter().next() { s["workload"] = json!(wl); s["case"] = json!(i); rep.samples.push(s); got += 1; if got == 2 { break; } }
            }
        }
    }

    let mut meta = Meta::new("exploration",
        "jar case = 3-8 generated classes that reference each other (generated bodies over a shared class pool + anchor methods) x a nests table of 1-6 rows plus rows for absent classes, fed as text, x a two-namespace mapping set over the same classes; \
         maps case = table x mapping set without a jar. Non-trivial (jar) = at least one applying row changes a name and at least one reference to a renamed class exists; (maps) = a listed class has a mapping entry and a descriptor mentions a renamed class. \
         distinct = fingerprint of the multiset of row shapes (kind, applies, chain depth, enclosing class present/missing, name changes, method none/declared/not declared; maps: target-name shape) and the jar size")
        .assume("tables are acyclic, have one row per class, and the rename they describe is injective on all class names in play (jar classes, created classes, classes mentioned in descriptors)")
        .assume("every class of a mapping set has a target name; target names are pairwise distinct (the mapping side unwraps the target name)")
        .assume("a missing enclosing class has no row of its own and a row for an absent class never encloses a present one (the filter's treatment of a class that was just created depends on row order and is not specified)")
        .assume("\"enclosing method present\" = the row names a method that the enclosing class in the jar declares (DESIGN C14); anonymous numbers stay within 1..=i32::MAX or are zero")
        .assume("jar entry name = class name + .class; access flags use only the ten bits JVMS 4.7.6 defines")
        .assume("not judged: target names of listed classes after apply/undo (the target name of an unlisted class must stay), generic signatures, facts the reader / jar remapper are known to drop (records, unknown attributes, module data, parameter annotations: removed from the generated bodies), order of InnerClasses entries, facts of created classes other than their name, remap=false");
    if replay.is_none() {
        for k in ["anonymous", "inner", "local"] {
            meta.oblige(format!("{k} rows that apply and {k} rows whose class is present but whose rule fails"), rep.get(&format!("rows.{k}.applies")) > 20 && rep.counters.iter().any(|(c, v)| c.starts_with(&format!("rows.not_applying.{k}:")) && *v > 5));
        }
        meta.oblige("applying chains of depth 1, 2, 3 and 4", (1..=4).all(|d| rep.get(&format!("rows.applying.chain_depth.{d}")) > 0));
        meta.oblige("jars judged whose deepest applying chain has >= 10 nests (>= 30 jars) and >= 16 nests (>= 10 jars), with all three kinds along one deep chain",
            rep.get("jar.judged.chain_depth_ge_10") >= 30 && rep.get("jar.judged.chain_depth_ge_16") >= 10 && rep.get("deep.jar.kinds_along_the_deepest_chain.3") >= 10);
        meta.oblige("jar/mappings agreement judged on all-applying tables with a chain of >= 10 nests (>= 20 tables) and >= 16 nests (>= 5), and for each row order (deepest row first / last / shuffled) with >= 10 nests",
            rep.get("agreement.tables_judged.chain_depth_ge_10") >= 20 && rep.get("agreement.tables_judged.chain_depth_ge_16") >= 5 && ["deepest_first", "deepest_last", "shuffled"].iter().all(|o| rep.get(&format!("agreement.tables_judged.chain_depth_ge_10.rows_{o}")) >= 3));
        meta.oblige("apply and undo(apply) judged on tables with a chain of >= 10 nests (>= 50) and >= 16 nests (>= 20), in each row order",
            ["apply.judged", "undo.judged"].iter().all(|k| rep.get(&format!("{k}.chain_depth_ge_10")) >= 50 && rep.get(&format!("{k}.chain_depth_ge_16")) >= 20 && ["deepest_first", "deepest_last", "shuffled"].iter().all(|o| rep.get(&format!("{k}.chain_depth_ge_16.rows_{o}")) >= 5)));
        meta.oblige("applying row below a row that does not apply (chain interrupted)", rep.get("rows.applying.below_a_row_that_does_not_apply") > 5);
        meta.oblige("rows for classes that are not in the jar", rep.get("rows.not_applying.class not in the jar") > 20);
        meta.oblige("missing enclosing classes created (>= 20) and a missing enclosing class named only by a row that does not apply", rep.get("jar.created_enclosing_classes") >= 20 && rep.get("rows.not_applying.class_present_enclosing_missing") > 0);
        meta.oblige("applying rows that do not change the name (A$B in A)", rep.get("rows.applying.name_unchanged") > 5);
        meta.oblige("anonymous numbers around integer-width boundaries (255/256, 32767/32768, 65535/65536, 2^31-1) in applying rows", ["255", "256", "32767", "32768", "65535", "65536", "2147483647"].iter().all(|k| rep.get(&format!("rows.anonymous.applies.number.{k}")) > 0));
        meta.oblige("anonymous rows with and without enclosing method; rows naming a method the enclosing class does not declare", rep.get("rows.anonymous.with_method") > 0 && rep.get("rows.anonymous.without_method") > 0 && rep.get("rows.method_named_but_not_declared") > 10);
        meta.oblige("at least 200 references to renamed classes expected in the nested jars", rep.get("jar.references_rewritten_expected") >= 200);
        meta.oblige("jars read from memory and through a zip archive", rep.get("jar.in_memory") > 0 && rep.get("jar.through_zip") > 0);
        meta.oblige("at least 100 tables in which every row applies judged for jar/mappings agreement", rep.get("agreement.tables_judged") >= 100);
        meta.oblige("apply judged >= 1000 times with renamed class entries and rewritten descriptors", rep.get("apply.judged") >= 1000 && rep.get("apply.class_entries_renamed_expected") > 500 && rep.get("apply.descriptors_rewritten_expected") > 500);
        meta.oblige("undo(apply(M)) judged >= 1000 times", rep.get("undo.judged") >= 1000);
        meta.oblige("nest translation: derived and custom inner names for inner and local rows, anonymous numbers kept and taken from C_<n>, already nested X__Y names",
            ["inner.derived", "inner.custom", "local.derived", "local.custom", "anonymous.number_kept", "anonymous.number_from_C_name", "already_nested"].iter().all(|k| rep.get(&format!("translate.inner_name.{k}")) > 10));
        meta.oblige("nest translation: enclosing methods judged; listed classes without mapping entry", rep.get("translate.enclosing_methods_judged") > 100 && rep.get("translate.listed_class_without_mapping_entry") > 10);
        meta.oblige("access column in decimal, hexadecimal and binary", ["decimal", "hexadecimal", "binary"].iter().all(|k| rep.get(&format!("table.access_notation.{k}")) > 0));
        meta.oblige("mapping-side chains of depth 1..4", (1..=4).all(|d| rep.get(&format!("maps.rows.chain_depth.{d}")) > 0));
        meta.oblige("fewer than 10% of the generated cases fall outside the domain", (rep.get("domain.skipped_rename_not_injective") + rep.get("domain.translated_table_cyclic") + rep.get("domain.translation_outside_pinned_rules") + rep.get("domain.apply_would_collide") + rep.get("harness.emit_skipped") + rep.get("harness.to_quill_failed")) * 10 < rep.evaluations.max(1) && rep.get("harness.cyclic_source_table") == 0);
        meta.oblige("the invariant walker ran on results", rep.get("invariant.walks") > 1000);
        if ctx.tier == Tier::Thorough {
            let (status, diags, obs) = run_miri(&ctx, 40);
            rep.cur = ("miri".into(), 0);
            for d in diags { rep.violation(format!("miri: {d}"), json!({"how": "cargo +nightly miri run --offline -p c14 -- --miri-slice <seed> 40 100 <shard>", "seed": ctx.seed as i64})); }
            // functional mismatches seen under the interpreter carry the signatures of the native run
            for o in obs { let sig = o.rsplit_once(" (").map(|(a, _)| a.to_string()).unwrap_or(o); rep.violation(sig, json!({"seen_in": "miri slice (the native workloads carry the inputs)"})); }
            rep.add("miri.mapping_side_operations_interpreted", status["mapping_side_operations_interpreted"].as_u64().unwrap_or(0));
            meta.extra.insert("miri_slice".into(), status);
        } else {
            meta.extra.insert("miri_slice".into(), json!("not run in the quick tier"));
        }
    }
    std::process::exit(finish(&ctx, rep, meta));
}
