//! Class-only renaming of every reference position of the semantic class model (local copy, independent of props/c07).
//! Positions: this/super/interfaces, member descriptors, field/method/class operands (incl. array class names),
//! ldc Class / MethodHandle / MethodType / condy, invokedynamic (handle, arguments, descriptor), catch types, frame
//! `Object` types, local variable descriptors, annotations (type, enum type, class values, nested) and type
//! annotations at every level, Exceptions, InnerClasses (inner / outer), EnclosingMethod (class, descriptor),
//! NestHost / NestMembers, PermittedSubclasses, record component descriptors, module uses / provides / main class.
//! Not touched: member names, generic Signature strings, `InnerClasses.inner_name`, strings, unknown attributes.
use cf::model::*;

pub struct Ren<'a> { pub f: &'a dyn Fn(&str) -> Option<String>, pub hits: u64 }

impl Ren<'_> {
    fn obj(&mut self, name: &[u8]) -> Option<Vec<u8>> {
        let units = cf::mutf8::decode(name).ok()?;
        let s = String::from_utf16(&units).ok()?;
        let r = (self.f)(&s)?;
        self.hits += 1;
        Some(cf::mutf8::encode_str(&r))
    }
    /// a descriptor of any kind (field, method, return) or an array class name: every `L...;` is looked up
    pub fn desc(&mut self, d: &mut JS) {
        let b = &d.0;
        let mut out: Vec<u8> = Vec::with_capacity(b.len());
        let mut i = 0; let mut changed = false;
        while i < b.len() {
            if b[i] == b'L' {
                if let Some(end) = b[i..].iter().position(|c| *c == b';') {
                    let name = &b[i + 1..i + end];
                    out.push(b'L');
                    match self.obj(name) { Some(n) => { out.extend(n); changed = true; } None => out.extend_from_slice(name) }
                    out.push(b';');
                    i += end + 1;
                    continue;
                }
            }
            out.push(b[i]); i += 1;
        }
        if changed { d.0 = out; }
    }
    /// a CONSTANT_Class name: object class name or array descriptor
    pub fn class(&mut self, c: &mut JS) {
        if c.0.first() == Some(&b'[') { self.desc(c); } else if let Some(n) = self.obj(&c.0) { c.0 = n; }
    }
    fn member(&mut self, m: &mut MemberRef) { self.class(&mut m.owner); self.desc(&mut m.desc); }
    fn handle(&mut self, h: &mut Handle) { self.member(&mut h.member); }
    fn dynamic(&mut self, d: &mut Dynamic) { self.handle(&mut d.bsm); for a in &mut d.args { self.konst(a); } self.desc(&mut d.desc); }
    fn konst(&mut self, k: &mut Const) {
        match k {
            Const::Class(c) => self.class(c),
            Const::MethodHandle(h) => self.handle(h),
            Const::MethodType(d) => self.desc(d),
            Const::Dynamic(d) => self.dynamic(d),
            Const::Int(_) | Const::Float(_) | Const::Long(_) | Const::Double(_) | Const::Str(_) => {}
        }
    }
    fn annotation(&mut self, a: &mut Annotation) { self.desc(&mut a.type_); for (_, v) in &mut a.pairs { self.ev(v); } }
    fn ev(&mut self, v: &mut ElementValue) {
        match v {
            ElementValue::Enum(t, _) => self.desc(t),
            ElementValue::Class(d) => self.desc(d),
            ElementValue::Annotation(a) => self.annotation(a),
            ElementValue::Array(vs) => for x in vs { self.ev(x); },
            _ => {}
        }
    }
    fn annotations(&mut self, v: &mut [Annotation]) { for a in v { self.annotation(a); } }
    fn type_annotations(&mut self, v: &mut [TypeAnnotation]) { for a in v { self.annotation(&mut a.annotation); } }
    fn vtype(&mut self, t: &mut VType) { if let VType::Object(c) = t { self.class(c); } }
    fn code(&mut self, c: &mut Code) {
        for i in &mut c.insns {
            match i {
                Insn::Ldc(k) => self.konst(k),
                Insn::Field(_, m) | Insn::Invoke(_, m, _) => self.member(m),
                Insn::InvokeDynamic(d) => self.dynamic(d),
                Insn::Type(_, c) => self.class(c),
                Insn::MultiANewArray(c, _) => self.class(c),
                _ => {}
            }
        }
        for e in &mut c.exceptions { if let Some(t) = &mut e.catch { self.class(t); } }
        if let Some(l) = &mut c.lvt { for v in l { self.desc(&mut v.desc_or_sig); } }
        if let Some(fr) = &mut c.frames {
            for f in fr {
                match &mut f.kind {
                    FrameKind::SameLocals1(t) => self.vtype(t),
                    FrameKind::Append(ts) => for t in ts { self.vtype(t); },
                    FrameKind::Full { locals, stack } => { for t in locals { self.vtype(t); } for t in stack { self.vtype(t); } }
                    FrameKind::Same | FrameKind::Chop(_) => {}
                }
            }
        }
        self.type_annotations(&mut c.vis_type_annotations); self.type_annotations(&mut c.invis_type_annotations);
    }
    pub fn class_file(&mut self, c: &mut Class) {
        self.class(&mut c.this_class);
        if let Some(s) = &mut c.super_class { self.class(s); }
        for i in &mut c.interfaces { self.class(i); }
        for f in &mut c.fields {
            self.desc(&mut f.desc);
            self.annotations(&mut f.vis_annotations); self.annotations(&mut f.invis_annotations);
            self.type_annotations(&mut f.vis_type_annotations); self.type_annotations(&mut f.invis_type_annotations);
        }
        for m in &mut c.methods {
            self.desc(&mut m.desc);
            if let Some(code) = &mut m.code { self.code(code); }
            if let Some(ex) = &mut m.exceptions { for e in ex { self.class(e); } }
            self.annotations(&mut m.vis_annotations); self.annotations(&mut m.invis_annotations);
            self.type_annotations(&mut m.vis_type_annotations); self.type_annotations(&mut m.invis_type_annotations);
            if let Some(p) = &mut m.vis_param_annotations { for l in p { self.annotations(l); } }
            if let Some(p) = &mut m.invis_param_annotations { for l in p { self.annotations(l); } }
            if let Some(d) = &mut m.annotation_default { self.ev(d); }
        }
        if let Some(ics) = &mut c.inner_classes { for ic in ics { self.class(&mut ic.inner); if let Some(o) = &mut ic.outer { self.class(o); } } }
        if let Some(em) = &mut c.enclosing_method { self.class(&mut em.class); if let Some((_, d)) = &mut em.method { self.desc(d); } }
        self.annotations(&mut c.vis_annotations); self.annotations(&mut c.invis_annotations);
        self.type_annotations(&mut c.vis_type_annotations); self.type_annotations(&mut c.invis_type_annotations);
        if let Some(m) = &mut c.module { for u in &mut m.uses { self.class(u); } for (s, impls) in &mut m.provides { self.class(s); for i in impls { self.class(i); } } }
        if let Some(m) = &mut c.module_main_class { self.class(m); }
        if let Some(h) = &mut c.nest_host { self.class(h); }
        if let Some(ms) = &mut c.nest_members { for m in ms { self.class(m); } }
        if let Some(ps) = &mut c.permitted_subclasses { for p in ps { self.class(p); } }
        if let Some(rs) = &mut c.record {
            for r in rs {
                self.desc(&mut r.desc);
                self.annotations(&mut r.vis_annotations); self.annotations(&mut r.invis_annotations);
                self.type_annotations(&mut r.vis_type_annotations); self.type_annotations(&mut r.invis_type_annotations);
            }
        }
    }
}

/// Renames every class reference of `c`; returns the number of references that changed.
pub fn rename_refs(c: &mut Class, f: &dyn Fn(&str) -> Option<String>) -> u64 {
    let mut r = Ren { f, hits: 0 };
    r.class_file(c);
    r.hits
}

/// Hand-computed checks of the walker; `Err` = harness error.
pub fn self_check() -> Result<(), String> {
    let f = |s: &str| -> Option<String> { match s { "a/B" => Some("a/O$B".into()), "L" => Some("x/LL".into()), _ => None } };
    let mut r = Ren { f: &f, hits: 0 };
    for (i, o) in [("(La/B;[[La/B;ILL;)La/B;", "(La/O$B;[[La/O$B;ILx/LL;)La/O$B;"), ("[La/B;", "[La/O$B;"), ("La/Bx;", "La/Bx;"), ("I", "I"), ("(J)V", "(J)V"), ("LLL;", "LLL;"), ("[[I", "[[I")] {
        let mut d = JS::new(i); r.desc(&mut d);
        if d != JS::new(o) { return Err(format!("desc {i}: {d:?}")); }
    }
    for (i, o) in [("a/B", "a/O$B"), ("[La/B;", "[La/O$B;"), ("a/C", "a/C"), ("L", "x/LL")] {
        let mut c = JS::new(i); r.class(&mut c);
        if c != JS::new(o) { return Err(format!("class {i}: {c:?}")); }
    }
    Ok(())
}
