//! Seeded generator of nesting scenarios: a universe of class names, which of them are in the jar, the methods
//! each declares, a nests table (inner / local / anonymous rows, chains of depth 1..4, missing enclosing classes, rows
//! for absent classes, custom vs derived inner names, rows that do not change the name) and a two-namespace mapping
//! set over those classes (flat `C_<n>` targets, named targets, already nested `X__Y` targets).
//! Everything depends on the `Rng` only.
use crate::refnest::*;
use common::Rng;
use maps::model as mm;
use std::collections::{BTreeMap, BTreeSet};

const PKGS: &[&str] = &["", "", "", "a/", "a/b/", "com/example/", "net/minecraft/unmapped/", "ж/", "L/"];
const SIMPLE: &[&str] = &["A", "B", "Foo", "Bar", "Main", "Entry", "Node", "C_12", "C_7", "x", "L", "LL", "Ünï", "名前", "Ж", "I", "V", "Outer", "Thing", "a1", "Handler", "Q"];
const CUSTOM: &[&str] = &["Named", "Inner", "Builder", "Ünï", "Impl", "State", "名", "L", "X_"];
const DIGITS: &[&str] = &["1", "2", "3", "12", "007", "99"];

pub struct Names { pub used: BTreeSet<String>, ctr: usize }
impl Names {
    pub fn new() -> Names { Names { used: BTreeSet::new(), ctr: 0 } }
    pub fn n(&mut self) -> usize { self.ctr += 1; self.ctr }
    fn take(&mut self, base: String) -> String {
        if self.used.insert(base.clone()) { return base; }
        loop { let c = format!("{base}{}", self.n()); if self.used.insert(c.clone()) { return c; } }
    }
    /// a top-level looking name
    pub fn top(&mut self, rng: &mut Rng) -> String {
        let s = format!("{}{}", rng.pick(PKGS), rng.pick(SIMPLE));
        let s = if rng.chance(1, 3) { format!("{s}{}", rng.below(30)) } else { s };
        self.take(s)
    }
    /// a name that already looks nested below `outer`
    pub fn below(&mut self, rng: &mut Rng, outer: &str) -> String {
        let seg = match rng.below(4) { 0 => rng.pick(DIGITS).to_string(), 1 => format!("{}{}", rng.pick(DIGITS), rng.pick(CUSTOM)), _ => rng.pick(SIMPLE).to_string() };
        self.take(format!("{outer}${seg}"))
    }
}

/// last segment of a class name after `/` and `$`
pub fn last_segment(c: &str) -> &str { c.rsplit(['/', '$']).next().unwrap_or(c) }

/// order of the rows in the table text (name construction must not depend on it)
#[derive(Clone, Copy, Debug, PartialEq, Eq)]
pub enum RowOrder { DeepestFirst, DeepestLast, Shuffled }
impl RowOrder {
    pub fn name(self) -> &'static str { match self { RowOrder::DeepestFirst => "deepest_first", RowOrder::DeepestLast => "deepest_last", RowOrder::Shuffled => "shuffled" } }
    pub fn pick(rng: &mut Rng) -> RowOrder { match rng.below(3) { 0 => RowOrder::DeepestFirst, 1 => RowOrder::DeepestLast, _ => RowOrder::Shuffled } }
}

/// `deep = Some(d)`: `present[1..=d]` form ONE chain (`present[i]` is nested in `present[i-1]`), kinds mixed along it;
/// needs `present.len() > d`. The remaining classes get ordinary rows.
pub struct RowCfg { pub max_rows: usize, pub all_apply: bool, pub absent_rows: bool, pub deep: Option<usize>, pub order: RowOrder }

/// anonymous numbers around every integer-width boundary (all positive and <= i32::MAX: they apply)
pub const ANON_BOUNDARY: &[&str] = &["127", "128", "255", "256", "32767", "32768", "65535", "65536", "16777215", "16777216", "2147483646", "2147483647", "007", "0001", "010", "00065536"];

/// Builds the rows of a table for the classes `present` (acyclic by construction: the enclosing class of a row for
/// `present[i]` is `present[j]` with `j < i`, or a class that is not in the jar and has no row).
pub fn gen_rows(rng: &mut Rng, names: &mut Names, present: &[String], methods: &BTreeMap<String, Vec<(String, String)>>, cfg: &RowCfg) -> Vec<Row> {
    let n = present.len();
    let mut rows: Vec<Row> = vec![];
    if n < 2 { return rows; }
    let deep = cfg.deep.filter(|d| *d < n).unwrap_or(0);
    let mut idx: Vec<usize> = (deep + 1..n).collect();
    if !idx.is_empty() { let want = rng.usize_in(if deep > 0 { 0 } else { 1 }, cfg.max_rows.min(idx.len())); rng.shuffle(&mut idx); idx.truncate(want); }
    idx.extend(1..=deep);
    idx.sort();
    let mut nested: Vec<usize> = vec![];
    let mut anon_ctr: BTreeMap<String, u32> = BTreeMap::new();
    let flag_bits = [0x0001u16, 0x0002, 0x0004, 0x0008, 0x0010, 0x0200, 0x0400, 0x1000, 0x2000, 0x4000];
    for &i in &idx {
        let class = present[i].clone();
        // enclosing class
        let pre_outer = class.rsplit_once('$').map(|(o, _)| o.to_string()).filter(|o| present[..i].contains(o));
        let (encl, encl_present) = if i <= deep { (present[i - 1].clone(), true) }
            else if let (Some(o), true) = (&pre_outer, rng.chance(1, 2)) { (o.clone(), true) }
            else if rng.chance(1, 7) { (names.top(rng), false) }
            else {
                let lower: Vec<usize> = nested.iter().copied().filter(|&j| j < i).collect();
                let j = if !lower.is_empty() && rng.chance(3, 5) { *rng.pick(&lower) } else { rng.below(i) };
                (present[j].clone(), true)
            };
        let declared: &[(String, String)] = if encl_present { methods.get(&encl).map(|v| v.as_slice()).unwrap_or(&[]) } else { &[] };
        let seg = last_segment(&class).to_string();
        let seg_ok = !seg.is_empty() && !seg.chars().next().is_some_and(|c| c.is_ascii_digit());
        let mut kind = match rng.below(10) { 0..=3 => Kind::Inner, 4..=6 => Kind::Anonymous, _ => Kind::Local };
        let want_apply = cfg.all_apply || if i <= deep { rng.chance(24, 25) } else { rng.chance(3, 4) };
        if kind == Kind::Local && want_apply && declared.is_empty() { kind = if rng.bool() { Kind::Inner } else { Kind::Anonymous }; }
        let word = |rng: &mut Rng, names: &mut Names| -> String {
            if seg_ok && rng.chance(3, 5) { seg.clone() } else { format!("{}{}", rng.pick(CUSTOM), names.n()) }
        };
        let inner = match kind {
            Kind::Inner => word(rng, names),
            Kind::Local => format!("{}{}", rng.pick(DIGITS), word(rng, names)),
            Kind::Anonymous => {
                if want_apply {
                    if seg.chars().all(|c| c.is_ascii_digit()) && !seg.is_empty() && anonymous_number(&seg).is_some_and(|v| v >= 1 && v <= i32::MAX as u64) && rng.chance(1, 2) { seg.clone() }
                    else if rng.chance(1, 5) { (*rng.pick(ANON_BOUNDARY)).to_string() }
                    else { let c = anon_ctr.entry(encl.clone()).or_insert(0); *c += 1; c.to_string() }
                } else { (*rng.pick(&["0", "00", "000"])).to_string() }
            }
        };
        let other_method = |rng: &mut Rng, names: &mut Names| -> (String, String) {
            // a method the enclosing class does not declare: same name with another descriptor, or a fresh name
            if !declared.is_empty() && rng.bool() { let (n0, d0) = rng.pick(declared).clone(); let d = if d0 == "()V" { "(I)V".to_string() } else { "()V".to_string() }; if !declared.contains(&(n0.clone(), d.clone())) { return (n0, d); } }
            (format!("nope{}", names.n()), (*rng.pick(&["()V", "(I)I", "(Ljava/lang/Object;)V"])).to_string())
        };
        let method = match kind {
            Kind::Inner => if want_apply { if rng.chance(2, 3) { None } else { Some(other_method(rng, names)) } }
                           else if declared.is_empty() { None } else { Some(rng.pick(declared).clone()) },
            Kind::Local => if want_apply { Some(rng.pick(declared).clone()) } else if rng.bool() { None } else { Some(other_method(rng, names)) },
            Kind::Anonymous => match rng.below(3) { 0 => None, 1 if !declared.is_empty() => Some(rng.pick(declared).clone()), _ => Some(other_method(rng, names)) },
        };
        let mut access = 0u16; for b in flag_bits { if rng.chance(1, 4) { access |= b; } }
        rows.push(Row { class, encl, method, inner, access, radix: rng.below(3) as u8 });
        nested.push(i);
    }
    if cfg.absent_rows && !cfg.all_apply {
        for _ in 0..rng.below(3) {
            let class = names.top(rng);
            let encl = if rng.chance(2, 3) { rng.pick(present).clone() } else { names.top(rng) };
            let inner = match rng.below(3) { 0 => rng.pick(DIGITS).to_string(), 1 => format!("{}{}", rng.pick(DIGITS), rng.pick(CUSTOM)), _ => last_segment(&class).to_string() };
            let inner = if inner.is_empty() { "Q".to_string() } else { inner };
            let method = if rng.bool() { None } else { Some(("run".to_string(), "()V".to_string())) };
            rows.push(Row { class, encl, method, inner, access: *rng.pick(&[0u16, 1, 8, 0x4019]), radix: rng.below(3) as u8 });
        }
    }
    rng.shuffle(&mut rows);
    if cfg.order != RowOrder::Shuffled {
        let depth: BTreeMap<String, usize> = { let all: Vec<&Row> = rows.iter().collect(); rows.iter().map(|r| (r.class.clone(), chain_depth(r, &all))).collect() };
        rows.sort_by_key(|r| depth[&r.class]);      // stable: ties keep their shuffled order
        if cfg.order == RowOrder::DeepestFirst { rows.reverse(); }
    }
    rows
}

/// names of the present classes: a few top-level ones, the rest top-level looking or already nested looking
pub fn gen_present(rng: &mut Rng, names: &mut Names, n: usize) -> Vec<String> {
    let mut v: Vec<String> = vec![];
    for i in 0..n {
        let s = if i > 0 && rng.chance(1, 4) { let o = rng.pick(&v).clone(); names.below(rng, &o) } else { names.top(rng) };
        v.push(s);
    }
    v
}

pub fn universe_of(present: &[String], rows: &[Row]) -> BTreeSet<String> {
    let mut u: BTreeSet<String> = present.iter().cloned().collect();
    for r in rows { u.insert(r.class.clone()); u.insert(r.encl.clone()); }
    u
}

// ------------------------------------------------------------------------------------------------ mappings

/// How the target name of a class was drawn (for coverage counters).
#[derive(Clone, Copy, Debug, PartialEq, Eq, PartialOrd, Ord)]
pub enum TargetShape { FlatCalamus, Named, Same, AlreadyNested, Dollar }

/// A two-namespace mapping set over (a subset of) the universe; every class has a target name; target names are
/// pairwise distinct. `want_methods` are added to their owners (with a target name most of the time).
pub fn gen_mappings(rng: &mut Rng, universe: &BTreeSet<String>, must_have: &[String], want_methods: &[(String, (String, String))], small: bool) -> (mm::Maps, BTreeMap<String, TargetShape>) {
    let mut m = mm::Maps::new(&["official", "named"]);
    let mut shapes = BTreeMap::new();
    let mut used: BTreeSet<String> = universe.clone();
    let mut ctr = 100usize;
    let all: Vec<String> = universe.iter().cloned().collect();
    let gcfg = maps::GenCfg { comments: maps::CommentClass::Plain, big_indices: false, max_fields: if small { 1 } else { 2 }, max_methods: if small { 1 } else { 2 }, max_params: if small { 1 } else { 2 }, ..maps::GenCfg::default() }.with_n(2);
    for c in universe {
        if !must_have.contains(c) && rng.chance(1, 3) { continue; }
        let (t, shape) = loop {
            ctr += 1;
            let (t, shape) = match rng.below(12) {
                0..=3 => (format!("{}C_{ctr}", rng.pick(&["", "net/minecraft/unmapped/", "net/minecraft/unmapped/", "p/"])), TargetShape::FlatCalamus),
                4..=6 => (format!("{}{}{ctr}", rng.pick(PKGS), rng.pick(SIMPLE)), TargetShape::Named),
                7 => (c.clone(), TargetShape::Same),
                8..=10 => {
                    let inner = match rng.below(4) { 0 => format!("{ctr}"), 1 => format!("1Loc{ctr}"), _ => format!("{}{ctr}", rng.pick(CUSTOM)) };
                    let outer = match rng.below(3) { 0 => format!("{}Out{}", rng.pick(PKGS), rng.below(5)), 1 => format!("net/minecraft/unmapped/C_{}", rng.below(50)), _ => format!("{}O{}__M{}", rng.pick(PKGS), rng.below(5), rng.below(5)) };
                    (format!("{outer}__{inner}"), TargetShape::AlreadyNested)
                }
                _ => (format!("{}{}{ctr}${}", rng.pick(PKGS), rng.pick(SIMPLE), rng.pick(CUSTOM)), TargetShape::Dollar),
            };
            if shape == TargetShape::Same { break (t, shape); }
            if used.insert(t.clone()) { break (t, shape); }
        };
        shapes.insert(c.clone(), shape);
        let mut cl = mm::Class { names: vec![Some(c.clone()), Some(t)], comment: if rng.chance(1, 5) { Some("A comment.".into()) } else { None }, ..Default::default() };
        maps::gen::fill_members(rng, &gcfg, 2, 1, &all, &mut cl);
        for (owner, (n, d)) in want_methods {
            if owner == c && rng.chance(4, 5) && !cl.methods.contains_key(&(n.clone(), d.clone())) {
                let tn = if rng.chance(1, 5) { None } else { Some(format!("m_{ctr}_{}", cl.methods.len())) };
                cl.methods.insert((n.clone(), d.clone()), mm::Method { names: vec![Some(n.clone()), tn], comment: None, params: BTreeMap::new() });
            }
        }
        m.classes.insert(c.clone(), cl);
    }
    (m, shapes)
}
