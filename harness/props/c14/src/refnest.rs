//! Reference nester, written from the statement of C14 (first) and DESIGN.md 5/C14 (second). Plain strings, no
//! repository types.
//!
//! A table is a list of rows `(class, enclosing class, optional enclosing method, inner name, access)`.
//! kind of a row  = from its inner name: all ASCII digits -> anonymous, starts with a digit -> local, else inner.
//! a row APPLIES to a jar iff its class is in the jar and the rule of its kind holds:
//!   anonymous: the inner name is a positive number (>= 1)
//!   inner:     enclosing method absent
//!   local:     enclosing method present
//! where "enclosing method present" = the row names a method that the enclosing class *in the jar* declares.
//! new name of a listed class = new name of its enclosing class (recursively, when that class has a row that takes
//! part) + `$` + inner name. On the jar side the rows that take part are the applying ones, on the mapping side all.
use std::collections::{BTreeMap, BTreeSet};

#[derive(Clone, Copy, Debug, PartialEq, Eq, PartialOrd, Ord, Hash)]
pub enum Kind { Anonymous, Inner, Local }
impl Kind { pub fn name(self) -> &'static str { match self { Kind::Anonymous => "anonymous", Kind::Inner => "inner", Kind::Local => "local" } } }

#[derive(Clone, Debug, PartialEq, Eq)]
pub struct Row {
    pub class: String,
    pub encl: String,
    /// (name, descriptor)
    pub method: Option<(String, String)>,
    pub inner: String,
    pub access: u16,
    /// 0 = decimal, 1 = `0x` hexadecimal, 2 = `0b` binary (how the access column is written)
    pub radix: u8,
}

pub fn kind_of(inner: &str) -> Kind {
    if inner.chars().all(|c| c.is_ascii_digit()) { Kind::Anonymous }
    else if inner.chars().next().is_some_and(|c| c.is_ascii_digit()) { Kind::Local }
    else { Kind::Inner }
}
/// inner name without its leading digits (local classes); an all-digit name is returned unchanged
pub fn strip_digits(inner: &str) -> &str {
    let s = inner.trim_start_matches(|c: char| c.is_ascii_digit());
    if s.is_empty() { inner } else { s }
}
/// leading ASCII digits of an inner name
pub fn digit_prefix(inner: &str) -> &str { &inner[..inner.len() - inner.trim_start_matches(|c: char| c.is_ascii_digit()).len()] }

impl Row {
    pub fn kind(&self) -> Kind { kind_of(&self.inner) }
    pub fn line(&self) -> String {
        let (mn, md) = self.method.as_ref().map(|(n, d)| (n.as_str(), d.as_str())).unwrap_or(("", ""));
        let acc = match self.radix { 1 => format!("0x{:x}", self.access), 2 => format!("0b{:b}", self.access), _ => self.access.to_string() };
        format!("{}\t{}\t{}\t{}\t{}\t{}", self.class, self.encl, mn, md, self.inner, acc)
    }
}

/// The table as text (what `Nests::read` is given).
pub fn table_text(rows: &[Row], final_newline: bool) -> String {
    let mut s = rows.iter().map(|r| r.line()).collect::<Vec<_>>().join("\n");
    if final_newline && !rows.is_empty() { s.push('\n'); }
    s
}

/// What the reference needs to know about a jar: the classes and the methods each declares.
pub type JarIndex = BTreeMap<String, BTreeSet<(String, String)>>;

/// positive value of an all-digit inner name; `None` when it is not within 1..=i32::MAX
/// (numbers beyond i32::MAX are outside the judged domain and never generated)
pub fn anonymous_number(inner: &str) -> Option<u64> {
    let t = inner.trim_start_matches('0');
    if t.is_empty() { return Some(0); }
    if t.len() > 10 { return None; }
    t.parse::<u64>().ok()
}

pub fn method_present(jar: &JarIndex, r: &Row) -> bool {
    match &r.method { None => false, Some(m) => jar.get(&r.encl).is_some_and(|ms| ms.contains(m)) }
}

/// does the row apply to the jar?  (`Err(reason)` = no)
pub fn applies(jar: &JarIndex, r: &Row) -> Result<(), &'static str> {
    if !jar.contains_key(&r.class) { return Err("class not in the jar"); }
    match r.kind() {
        Kind::Anonymous => match anonymous_number(&r.inner) { Some(n) if n >= 1 => Ok(()), _ => Err("anonymous: inner name is not a positive number") },
        Kind::Inner => if method_present(jar, r) { Err("inner: enclosing method present") } else { Ok(()) },
        Kind::Local => if method_present(jar, r) { Ok(()) } else { Err("local: enclosing method absent") },
    }
}

/// New names of the classes of `rows` (all of them take part): class -> enclosing new name + `$` + inner name.
/// The table must be acyclic (the generators guarantee it).
pub fn new_names(rows: &[&Row]) -> BTreeMap<String, String> {
    let by_class: BTreeMap<&str, &Row> = rows.iter().map(|r| (r.class.as_str(), *r)).collect();
    fn name_of(c: &str, by: &BTreeMap<&str, &Row>, depth: usize) -> String {
        assert!(depth < 64, "harness: cyclic nests table");
        match by.get(c) { Some(r) => format!("{}${}", name_of(&r.encl, by, depth + 1), r.inner), None => c.to_string() }
    }
    rows.iter().map(|r| (r.class.clone(), name_of(&r.class, &by_class, 0))).collect()
}

/// `true` when following `class -> enclosing class` through the pairs never comes back (the real code recurses along
/// these links without a guard: a cyclic table is outside the domain and must never reach it)
pub fn acyclic(links: &[(String, String)]) -> bool {
    let by: BTreeMap<&str, &str> = links.iter().map(|(c, e)| (c.as_str(), e.as_str())).collect();
    for (c, _) in links {
        let mut cur = c.as_str(); let mut steps = 0;
        while let Some(e) = by.get(cur) { cur = e; steps += 1; if steps > links.len() { return false; } }
    }
    true
}

/// number of rows on the enclosing path of `r` that take part (1 = its enclosing class is not itself nested)
pub fn chain_depth(r: &Row, rows: &[&Row]) -> usize {
    let by_class: BTreeMap<&str, &Row> = rows.iter().map(|r| (r.class.as_str(), *r)).collect();
    let mut d = 1; let mut cur = r.encl.as_str();
    while let Some(n) = by_class.get(cur) { d += 1; cur = n.encl.as_str(); if d > 64 { break; } }
    d
}

#[derive(Clone, Debug)]
pub struct JarExpectation {
    /// rows that apply, in table order
    pub applying: Vec<Row>,
    /// per row of the table: None = applies, Some(reason) otherwise
    pub verdicts: Vec<Option<&'static str>>,
    /// old name -> new name for applying rows (also when equal)
    pub names: BTreeMap<String, String>,
    /// enclosing classes that must be created (missing, named by an applying row)
    pub must_create: BTreeSet<String>,
    /// enclosing classes that may be created (missing, named by a row whose class is present)
    pub may_create: BTreeSet<String>,
}

pub fn expect_jar(jar: &JarIndex, rows: &[Row]) -> JarExpectation {
    let verdicts: Vec<Option<&'static str>> = rows.iter().map(|r| applies(jar, r).err()).collect();
    let applying: Vec<Row> = rows.iter().zip(&verdicts).filter(|(_, v)| v.is_none()).map(|(r, _)| r.clone()).collect();
    let refs: Vec<&Row> = applying.iter().collect();
    let names = new_names(&refs);
    let must_create = applying.iter().filter(|r| !jar.contains_key(&r.encl)).map(|r| r.encl.clone()).collect();
    let may_create = rows.iter().filter(|r| jar.contains_key(&r.class) && !jar.contains_key(&r.encl)).map(|r| r.encl.clone()).collect();
    JarExpectation { applying, verdicts, names, must_create, may_create }
}

/// `true` when `old -> new` (identity outside) is injective on `universe` united with the table's classes.
pub fn injective(names: &BTreeMap<String, String>, universe: &BTreeSet<String>) -> bool {
    let mut seen = BTreeSet::new();
    for c in universe.iter().chain(names.keys()).collect::<BTreeSet<_>>() {
        let n = names.get(c).unwrap_or(c);
        if !seen.insert(n.clone()) { return false; }
    }
    true
}

/// Hand-computed examples; `Err` = the reference is broken (harness error).
pub fn self_check() -> Result<(), String> {
    let row = |c: &str, e: &str, m: Option<(&str, &str)>, i: &str| Row { class: c.into(), encl: e.into(), method: m.map(|(a, b)| (a.into(), b.into())), inner: i.into(), access: 0, radix: 0 };
    for (s, k) in [("1", Kind::Anonymous), ("007", Kind::Anonymous), ("1Local", Kind::Local), ("Inner", Kind::Inner), ("I1", Kind::Inner), ("12a3", Kind::Local)] {
        if kind_of(s) != k { return Err(format!("kind_of({s})")); }
    }
    if strip_digits("123Foo") != "Foo" || strip_digits("123") != "123" || strip_digits("Foo") != "Foo" || digit_prefix("12Ab") != "12" || digit_prefix("Ab") != "" { return Err("strip_digits".into()); }
    if anonymous_number("0") != Some(0) || anonymous_number("000") != Some(0) || anonymous_number("007") != Some(7) || anonymous_number("2147483647") != Some(2147483647) { return Err("anonymous_number".into()); }
    let mut jar = JarIndex::new();
    jar.insert("p/A".into(), [("m".to_string(), "()V".to_string())].into_iter().collect());
    for c in ["p/B", "p/C", "p/D", "p/E", "p/F"] { jar.insert(c.into(), BTreeSet::new()); }
    let rows = vec![
        row("p/B", "p/A", None, "B"),                       // inner, applies                -> p/A$B
        row("p/C", "p/B", Some(("x", "()V")), "1"),          // anonymous, applies             -> p/A$B$1
        row("p/D", "p/A", Some(("m", "()V")), "Dd"),        // inner with present method: no
        row("p/E", "p/D", None, "0"),                        // anonymous 0: no
        row("p/F", "p/A", Some(("m", "()V")), "2Loc"),      // local with present method: yes -> p/A$2Loc
        row("p/G", "p/A", None, "G"),                        // class absent: no
        row("p/H", "q/Missing", None, "H"),                  // class absent, enclosing missing: nothing created
    ];
    let e = expect_jar(&jar, &rows);
    let want: BTreeMap<String, String> = [("p/B", "p/A$B"), ("p/C", "p/A$B$1"), ("p/F", "p/A$2Loc")].into_iter().map(|(a, b)| (a.to_string(), b.to_string())).collect();
    if e.names != want { return Err(format!("expect_jar names {:?}", e.names)); }
    if !e.must_create.is_empty() || !e.may_create.is_empty() { return Err("expect_jar created".into()); }
    let all: Vec<&Row> = rows.iter().collect();
    let t = new_names(&all);
    if t.get("p/E").map(|s| s.as_str()) != Some("p/A$Dd$0") || t.get("p/H").map(|s| s.as_str()) != Some("q/Missing$H") { return Err(format!("new_names whole table {t:?}")); }
    if chain_depth(&rows[1], &all) != 2 || chain_depth(&rows[0], &all) != 1 { return Err("chain_depth".into()); }
    let txt = table_text(&rows[..2], true);
    if txt != "p/B\tp/A\t\t\tB\t0\np/C\tp/B\tx\t()V\t1\t0\n" { return Err(format!("table_text {txt:?}")); }
    let l = |v: &[(&str, &str)]| v.iter().map(|(a, b)| (a.to_string(), b.to_string())).collect::<Vec<_>>();
    if !acyclic(&l(&[("a", "b"), ("b", "c")])) || acyclic(&l(&[("a", "b"), ("b", "a")])) || acyclic(&l(&[("a", "a")])) || acyclic(&l(&[("x", "a"), ("a", "b"), ("b", "c"), ("c", "a")])) { return Err("acyclic".into()); }
    let uni: BTreeSet<String> = jar.keys().cloned().collect();
    if !injective(&e.names, &uni) { return Err("injective".into()); }
    let mut clash = e.names.clone(); clash.insert("p/F".into(), "p/A$B".into());
    if injective(&clash, &uni) { return Err("injective misses a clash".into()); }
    Ok(())
}
