//! Mapping side of C14: reference `apply` / `undo∘apply` / nest translation, calls of the real functions, judgement.
use crate::refnest::*;
use common::{guard, json, PanicInfo, Report, Value};
use dukenest::nest::{NestType, Nests};
use maps::model as mm;
use maps::{cmp, desc, Ins, Maps};
use quill::tree::mappings::Mappings;
use std::collections::BTreeMap;

/// namespace markers of the two-namespace sets
pub struct Src;
pub struct Dst;
pub type M2 = Mappings<2, (Src, Dst)>;

pub fn read_table<N>(text: &str) -> Result<Result<Nests<N>, String>, PanicInfo> {
    let bytes = text.as_bytes().to_vec();
    guard(|| Nests::<N>::read(&bytes).map_err(|e| format!("{e:#}")))
}

fn s(j: &java_string::JavaStr) -> String { j.as_str_lossy().into_owned() }

/// `Nests::read` must deliver the rows as written (kind from the inner name; both method columns empty = no method;
/// access in decimal, `0x` hexadecimal or `0b` binary). Returns false when something differs.
pub fn judge_table<N>(rep: &mut Report, rows: &[Row], nests: &Nests<N>, detail: &dyn Fn() -> Value) -> bool {
    let mut ok = true;
    let bad = |rep: &mut Report, what: &str, extra: Value| { rep.violation(format!("C14 table text: {what}"), json!({"input": detail(), "where": extra})); };
    if nests.all.len() != rows.len() { bad(rep, "number of nests differs from the number of rows", json!({"rows": rows.len(), "nests": nests.all.len()})); return false; }
    for (r, (key, n)) in rows.iter().zip(nests.all.iter()) {
        let kind = match n.nest_type { NestType::Anonymous => Kind::Anonymous, NestType::Inner => Kind::Inner, NestType::Local => Kind::Local };
        let flags = n.inner_access;
        let mut acc = 0u16;
        for (bit, on) in [(0x0001, flags.is_public), (0x0002, flags.is_private), (0x0004, flags.is_protected), (0x0008, flags.is_static), (0x0010, flags.is_final), (0x0200, flags.is_interface),
            (0x0400, flags.is_abstract), (0x1000, flags.is_synthetic), (0x2000, flags.is_annotation), (0x4000, flags.is_enum)] { if on { acc |= bit; } }
        let method = n.encl_method.as_ref().map(|m| (s(m.name.as_inner()), s(m.desc.as_inner())));
        let line = r.line();
        if s(key.as_inner()) != r.class || s(n.class_name.as_inner()) != r.class { bad(rep, "class name differs (or rows out of order)", json!(line)); ok = false; }
        if s(n.encl_class_name.as_inner()) != r.encl { bad(rep, "enclosing class differs", json!(line)); ok = false; }
        if method != r.method { bad(rep, "enclosing method differs", json!(line)); ok = false; }
        if s(n.inner_name.as_inner()) != r.inner { bad(rep, "inner name differs", json!(line)); ok = false; }
        if kind != r.kind() { bad(rep, "kind differs from what the inner name says", json!(line)); ok = false; }
        if acc != r.access { bad(rep, &format!("access flags differ ({} notation)", ["decimal", "hexadecimal", "binary"][r.radix as usize % 3]), json!({"line": line, "observed": acc})); ok = false; }
    }
    ok
}

// ------------------------------------------------------------------------------------------------ apply / undo

/// Reference of `apply_nests_to_mappings` on source names and descriptors (target class names are not judged and
/// are left as they are): every listed class gets the name the construction over the WHOLE table yields.
pub fn ref_apply(m: &Maps, names: &BTreeMap<String, String>) -> Option<Maps> {
    let f = |c: &str| names.get(c).cloned().unwrap_or_else(|| c.to_string());
    let mut out = Maps { namespaces: m.namespaces.clone(), classes: BTreeMap::new() };
    for (k, c) in &m.classes {
        let nk = f(k);
        let mut nc = mm::Class { names: c.names.clone(), comment: c.comment.clone(), ..Default::default() };
        nc.names[0] = Some(nk.clone());
        for ((n, d), fl) in &c.fields { if nc.fields.insert((n.clone(), desc::map_desc(d, f)), fl.clone()).is_some() { return None; } }
        for ((n, d), me) in &c.methods { if nc.methods.insert((n.clone(), desc::map_desc(d, f)), me.clone()).is_some() { return None; } }
        if out.classes.insert(nk, nc).is_some() { return None; }
    }
    Some(out)
}

/// target names of LISTED classes are not part of the judgement (the statement speaks of source names); the target
/// name of a class the table does not list must stay as it is
pub fn mask_targets(m: &mut Maps, listed: &std::collections::BTreeSet<String>) { for (k, c) in m.classes.iter_mut() { if listed.contains(k) { for n in c.names.iter_mut().skip(1) { *n = None; } } } }

pub fn call_apply(q: M2, nests: &Nests<Src>) -> Result<Result<M2, String>, PanicInfo> { guard(|| dukenest::apply_nests_to_mappings(q, nests).map_err(|e| format!("{e:#}"))) }
pub fn call_undo(q: M2, nests: &Nests<Src>) -> Result<Result<M2, String>, PanicInfo> { guard(|| dukenest::undo_nests_to_mappings(q, nests).map_err(|e| format!("{e:#}"))) }
pub fn call_remap(nests: &Nests<Src>, q: &M2) -> Result<Result<Nests<Dst>, String>, PanicInfo> { guard(|| dukenest::remap_nests(nests, q).map_err(|e| format!("{e:#}"))) }

fn template(msg: &str) -> String {
    let mut out = String::new(); let mut in_q = false; let mut in_num = false;
    for c in msg.chars() {
        if c == '"' { in_q = !in_q; if in_q { out.push_str("\"..\""); } continue; }
        if in_q { continue; }
        if c.is_ascii_digit() { if !in_num { out.push('#'); in_num = true; } continue; }
        in_num = false; out.push(c);
    }
    out.chars().take(120).collect()
}
pub fn err_template(e: &str) -> String { template(e.rsplit(": ").next().unwrap_or(e)) }

/// Compares the source side of two sets. `what` names the operation inside the signature.
pub fn judge_maps(rep: &mut Report, what: &str, expected: &Maps, observed: &Maps, listed: &std::collections::BTreeSet<String>, detail: &dyn Fn() -> Value) -> bool {
    let (mut e, mut o) = (expected.clone(), observed.clone());
    mask_targets(&mut e, listed); mask_targets(&mut o, listed);
    let d = cmp::diff_maps(&e, &o);
    for (k, w) in cmp::kinds(&d) { rep.violation(format!("C14 mappings {what}: {k}"), json!({"where": w, "input": detail()})); }
    d.is_empty()
}

// ------------------------------------------------------------------------------------------------ nest translation

#[derive(Clone, Debug, PartialEq, Eq)]
pub enum Exp { Exact(String), Open(&'static str), Outside(&'static str) }

pub fn mapped_class(m: &Maps, c: &str) -> String { m.classes.get(c).and_then(|x| x.names[1].clone()).unwrap_or_else(|| c.to_string()) }
fn simple(c: &str) -> &str { c.rsplit('/').next().unwrap_or(c) }

/// `Some((enclosing, inner))` when the mapped name is already nested (`X__Y`); `Err` when the split yields an
/// invalid part (outside the judged domain)
pub fn split_nested(mapped: &str) -> Result<Option<(&str, &str)>, &'static str> {
    match mapped.rsplit_once("__") {
        None => Ok(None),
        Some((e, i)) => if e.is_empty() || e.ends_with('/') || i.is_empty() || i.starts_with('/') { Err("already nested mapped name with an empty part") } else { Ok(Some((e, i))) },
    }
}

/// derived (the class name ends with the word at a `$` / `/` boundary or equals it), custom (does not end with it),
/// or open (ends with it in the middle of a segment: the repository's tests do not pin that case)
fn word_class(class: &str, word: &str) -> &'static str {
    if !class.ends_with(word) { return "custom"; }
    let head = &class[..class.len() - word.len()];
    if head.is_empty() || head.ends_with('$') || head.ends_with('/') { "derived" } else { "open" }
}

/// Expected inner name of the translated nest (rules pinned by the repository's unit tests of `inner_name`).
pub fn exp_inner(r: &Row, mapped: &str) -> (Exp, &'static str) {
    match split_nested(mapped) { Err(w) => return (Exp::Outside(w), "nested"), Ok(Some((_, i))) => return (Exp::Exact(i.to_string()), "already_nested"), Ok(None) => {} }
    let ms = simple(mapped);
    match r.kind() {
        Kind::Anonymous => match ms.strip_prefix("C_") {
            Some(rest) if !rest.is_empty() && rest.chars().all(|c| c.is_ascii_digit()) => (Exp::Exact(rest.to_string()), "anonymous.number_from_C_name"),
            Some(_) => (Exp::Outside("anonymous class mapped to a C_ name without a plain number"), "anonymous.C_name_without_number"),
            None => (Exp::Exact(r.inner.clone()), "anonymous.number_kept"),
        },
        Kind::Inner => match word_class(&r.class, &r.inner) {
            "derived" => (Exp::Exact(ms.to_string()), "inner.derived"),
            "custom" => (Exp::Exact(r.inner.clone()), "inner.custom"),
            _ => (Exp::Open("class name ends with the inner name inside a segment"), "inner.open"),
        },
        Kind::Local => {
            let (pre, word) = (digit_prefix(&r.inner), strip_digits(&r.inner));
            match word_class(&r.class, word) {
                "derived" => (Exp::Exact(format!("{pre}{ms}")), "local.derived"),
                "custom" => (Exp::Exact(r.inner.clone()), "local.custom"),
                _ => (Exp::Open("class name ends with the local name inside a segment"), "local.open"),
            }
        }
    }
}

/// R-remap of a member without super types: the owner's own table, else the name is kept; descriptor translated.
pub fn ref_method(m: &Maps, owner: &str, name: &str, d: &str) -> (String, String) {
    let nd = desc::map_desc(d, |c| mapped_class(m, c));
    let hit = m.classes.get(owner).filter(|c| c.names[1].is_some()).and_then(|c| c.methods.get(&(name.to_string(), d.to_string()))).and_then(|me| me.names[1].clone());
    (hit.unwrap_or_else(|| name.to_string()), nd)
}

#[derive(Clone, Debug)]
pub struct ExpNest { pub class: String, pub encl: Exp, pub method: Option<(String, String)>, pub inner: Exp, pub inner_case: &'static str, pub kind: Kind, pub access: u16 }

pub fn ref_translate(rows: &[Row], m: &Maps) -> Vec<ExpNest> {
    rows.iter().map(|r| {
        let mc = mapped_class(m, &r.class);
        let encl = match split_nested(&mc) { Err(w) => Exp::Outside(w), Ok(Some((e, _))) => Exp::Exact(e.to_string()), Ok(None) => Exp::Exact(mapped_class(m, &r.encl)) };
        let (inner, inner_case) = exp_inner(r, &mc);
        ExpNest { class: mc, encl, method: r.method.as_ref().map(|(n, d)| ref_method(m, &r.encl, n, d)), inner, inner_case, kind: r.kind(), access: r.access }
    }).collect()
}

/// Judges a translated table. Returns the number of nests whose every component was judged.
pub fn judge_translation(rep: &mut Report, exp: &[ExpNest], obs: &Nests<Dst>, detail: &dyn Fn() -> Value) -> usize {
    let bad = |rep: &mut Report, what: String, extra: Value| { rep.violation(format!("C14 nest translation: {what}"), json!({"where": extra, "input": detail()})); };
    if obs.all.len() != exp.len() { bad(rep, "number of nests changes".into(), json!({"expected": exp.len(), "observed": obs.all.len()})); }
    let mut full = 0;
    for e in exp {
        let found = obs.all.iter().find(|(k, _)| s(k.as_inner()) == e.class);
        let Some((_, n)) = found else { bad(rep, "a nest is lost (no nest under the mapped class name)".into(), json!({"mapped class": e.class})); continue };
        let mut complete = true;
        for (what, v) in [("class name", &n.class_name), ("enclosing class", &n.encl_class_name), ("inner name", &n.inner_name)] {
            if !duke::tree::class::ObjClassName::is_valid(v.as_inner()) { bad(rep, format!("{what} of a translated nest fails ObjClassName::is_valid ({})", e.inner_case), json!({"mapped class": e.class, "value": s(v.as_inner())})); }
        }
        if s(n.class_name.as_inner()) != e.class { bad(rep, "class name of the nest differs from its key".into(), json!({"mapped class": e.class})); }
        match &e.encl {
            Exp::Exact(x) => if &s(n.encl_class_name.as_inner()) != x { bad(rep, format!("enclosing class not in the target namespace ({})", if e.inner_case == "already_nested" { "already nested mapped name" } else { "mapped enclosing class" }), json!({"mapped class": e.class, "expected": x, "observed": s(n.encl_class_name.as_inner())})); },
            _ => complete = false,
        }
        match &e.inner {
            Exp::Exact(x) => if &s(n.inner_name.as_inner()) != x { bad(rep, format!("inner name differs ({})", e.inner_case), json!({"mapped class": e.class, "expected": x, "observed": s(n.inner_name.as_inner())})); },
            _ => complete = false,
        }
        let om = n.encl_method.as_ref().map(|m| (s(m.name.as_inner()), s(m.desc.as_inner())));
        if om != e.method {
            let what = match (&e.method, &om) { (Some(_), None) => "enclosing method lost", (None, Some(_)) => "enclosing method invented", (Some(a), Some(b)) if a.0 != b.0 => "enclosing method name not what the mappings say", _ => "enclosing method descriptor not in the target namespace" };
            bad(rep, what.into(), json!({"mapped class": e.class, "expected": e.method, "observed": om}));
        }
        let k = match n.nest_type { NestType::Anonymous => Kind::Anonymous, NestType::Inner => Kind::Inner, NestType::Local => Kind::Local };
        if k != e.kind { bad(rep, "kind changes".into(), json!({"mapped class": e.class})); }
        let acc: u16 = { let f = n.inner_access; let mut a = 0u16; for (bit, on) in [(0x0001, f.is_public), (0x0002, f.is_private), (0x0004, f.is_protected), (0x0008, f.is_static), (0x0010, f.is_final), (0x0200, f.is_interface), (0x0400, f.is_abstract), (0x1000, f.is_synthetic), (0x2000, f.is_annotation), (0x4000, f.is_enum)] { if on { a |= bit; } } a };
        if acc != e.access { bad(rep, "access flags change".into(), json!({"mapped class": e.class, "expected": e.access, "observed": acc})); }
        if complete { full += 1; }
    }
    full
}

pub fn to_quill(m: &Maps, ins: &mut Ins) -> Result<M2, String> { maps::to_quill::<2, (Src, Dst)>(m, ins).map_err(|e| format!("{e:#}")) }

/// Self-checks with hand-computed values (the cases the repository's own unit tests pin); `Err` = harness error.
pub fn self_check() -> Result<(), String> {
    let row = |c: &str, i: &str| Row { class: c.into(), encl: "E".into(), method: None, inner: i.into(), access: 0, radix: 0 };
    let cases: [(&str, &str, &str, Exp); 14] = [
        ("Foo", "Normal", "MAPPED", Exp::Exact("Normal".into())), ("Foo$Normal", "Normal", "MAPPED", Exp::Exact("MAPPED".into())),
        ("Foo", "123Local", "MAPPED", Exp::Exact("123Local".into())), ("Foo$Local", "123Local", "MAPPED", Exp::Exact("123MAPPED".into())),
        ("Foo", "12345", "MAPPED", Exp::Exact("12345".into())), ("Foo$Inner", "12345", "MAPPED", Exp::Exact("12345".into())),
        ("Foo", "Normal", "MAPPED/C_9876", Exp::Exact("Normal".into())), ("Foo$Normal", "Normal", "MAPPED/C_9876", Exp::Exact("C_9876".into())),
        ("Foo", "123Local", "MAPPED/C_9876", Exp::Exact("123Local".into())), ("Foo$Local", "123Local", "MAPPED/C_9876", Exp::Exact("123C_9876".into())),
        ("Foo", "12345", "MAPPED/C_9876", Exp::Exact("9876".into())), ("Foo$Inner", "12345", "MAPPED/C_9876", Exp::Exact("9876".into())),
        ("p/Normal", "Normal", "q/Z", Exp::Exact("Z".into())), ("Foo", "7", "a/B__9", Exp::Exact("9".into())),
    ];
    for (c, i, mp, want) in cases { let got = exp_inner(&row(c, i), mp).0; if got != want { return Err(format!("exp_inner({c}, {i}, {mp}) = {got:?}, want {want:?}")); } }
    if !matches!(exp_inner(&row("FooNormal", "Normal"), "M").0, Exp::Open(_)) { return Err("open case not recognised".into()); }
    if !matches!(exp_inner(&row("Foo", "1"), "a/C_x").0, Exp::Outside(_)) || !matches!(exp_inner(&row("Foo", "1"), "a/C_").0, Exp::Outside(_)) { return Err("outside case not recognised".into()); }
    if split_nested("a/B__C__D") != Ok(Some(("a/B__C", "D"))) || split_nested("a/__D").is_ok() || split_nested("ab") != Ok(None) { return Err("split_nested".into()); }
    let mut m = Maps::new(&["official", "named"]);
    let mut c = mm::Class { names: vec![Some("p/A".into()), Some("q/X".into())], ..Default::default() };
    c.methods.insert(("m".into(), "(Lp/A;)V".into()), mm::Method { names: vec![Some("m".into()), Some("go".into())], ..Default::default() });
    m.classes.insert("p/A".into(), c);
    if ref_method(&m, "p/A", "m", "(Lp/A;)V") != ("go".to_string(), "(Lq/X;)V".to_string()) || ref_method(&m, "p/A", "n", "()Lp/A;") != ("n".to_string(), "()Lq/X;".to_string()) || ref_method(&m, "p/B", "m", "(Lp/A;)V").0 != "m" { return Err("ref_method".into()); }
    let names: BTreeMap<String, String> = [("p/A".to_string(), "p/O$A".to_string())].into_iter().collect();
    let a = ref_apply(&m, &names).ok_or("ref_apply none")?;
    if !a.classes.contains_key("p/O$A") || !a.classes["p/O$A"].methods.contains_key(&("m".to_string(), "(Lp/O$A;)V".to_string())) { return Err("ref_apply".into()); }
    Ok(())
}
