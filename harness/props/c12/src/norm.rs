//! Domain predicate, normalisation (DESIGN 9a R-enigma) and workload shaping for C12. Model level only.
use crate::scan::split_inner;
use maps::model::{Maps, Row};
use std::collections::{BTreeMap, BTreeSet};

/// parent of `src` by source-name nesting, if that parent is a class of the set
pub fn parent_in_set<'a>(m: &Maps, src: &'a str) -> Option<&'a str> { split_inner(src).map(|p| p.0).filter(|p| m.classes.contains_key(*p)) }
/// inner class (by its name) whose outer class is absent from the set
pub fn is_orphan(m: &Maps, src: &str) -> bool { split_inner(src).is_some() && parent_in_set(m, src).is_none() }
/// an orphan, or nested (transitively) in one
pub fn under_orphan(m: &Maps, src: &str) -> bool {
    let mut cur = src;
    loop {
        if is_orphan(m, cur) { return true; }
        match parent_in_set(m, cur) { Some(p) => cur = p, None => return false }
    }
}
/// target name of the class, or its source name when it has none
pub fn base(m: &Maps, src: &str) -> String { m.classes[src].names[1].clone().unwrap_or_else(|| src.to_string()) }
/// a `simple` part: non-empty, no `$`, no `/`
fn is_simple(s: &str) -> bool { !s.is_empty() && !s.contains('$') && !s.contains('/') }

/// Why a set is outside the domain the property is judged on (None = inside).
pub fn outside_domain(m: &Maps) -> Option<&'static str> {
    if m.n() != 2 { return Some("not two namespaces"); }
    let mut files: BTreeSet<String> = BTreeSet::new();
    for (src, c) in &m.classes {
        match parent_in_set(m, src) {
            Some(p) => {
                // nested class with its parent in the set: target absent or base(P) + "$" + simple
                if let Some(t) = &c.names[1] {
                    let b = base(m, p);
                    let ok = t.strip_prefix(b.as_str()).and_then(|r| r.strip_prefix('$')).is_some_and(is_simple);
                    if !ok { return Some("proviso: target name of a nested class does not follow the nesting"); }
                }
            }
            None => {
                if !is_orphan(m, src) {
                    if c.names[1].as_deref().is_some_and(|t| t.contains('$')) { return Some("proviso: top-level class with `$` in its target name"); }
                }
                // one file per class placed at file level: file names must be pairwise distinct
                if !files.insert(base(m, src)) { return Some("not judged: two file-level classes share a file name (target names not injective / collide with a source name)"); }
            }
        }
    }
    let mut bad = None;
    m.visit(|level, names, comment| {
        for n in names.iter().flatten() { if n.contains('#') || n.chars().any(char::is_whitespace) { bad = Some("domain: a name contains `#` or white space (the format cannot carry it)"); } }
        if level < 3 && names[0].is_none() { bad = Some("model: entry without source name"); }
        if let Some(c) = comment { if c.contains(['\t', '\r', '\u{b}', '\u{c}']) { bad = Some("domain: a comment contains TAB / CR / VT / FF (the tokeniser turns them into blanks)"); } }
    });
    bad
}

/// a parameter without target name: the format has no way to write it (`Err` accepted)
pub fn has_unnamed_param(m: &Maps) -> bool {
    m.classes.values().any(|c| c.methods.values().any(|me| me.params.values().any(|p| p.names[1].is_none())))
}

/// R-enigma normalisation: parameter source names erased; a method target name equal to `<init>` erased.
pub fn norm(m: &Maps) -> Maps {
    let mut out = m.clone();
    for c in out.classes.values_mut() {
        for me in c.methods.values_mut() {
            if me.names[1].as_deref() == Some("<init>") { me.names[1] = None; }
            for p in me.params.values_mut() { p.names[0] = None; }
        }
    }
    out
}

/// What DESIGN section 4 suspects the code of doing to orphan inner classes: the writer strips the source name (and the
/// target name) of a file-level inner class to the part after the last `$`, so the reader re-keys the whole family.
/// Used ONLY to classify a mismatch under the orphan signature; never as an expectation. None = the re-keyed names collide.
pub fn rekeyed_orphans(m: &Maps) -> Option<Maps> {
    let mut out = Maps { namespaces: m.namespaces.clone(), classes: BTreeMap::new() };
    // new (src, base) per old src
    let mut new_name: BTreeMap<String, (String, String)> = BTreeMap::new();
    // parents before children: BTreeMap order does not guarantee it (`A$B` < `A$B$C` holds, but be explicit)
    let mut order: Vec<&String> = m.classes.keys().collect();
    order.sort_by_key(|s| s.matches('$').count());
    for src in order {
        let c = &m.classes[src];
        let written_dst = |d: &str| split_inner(d).map(|x| x.1.to_string()).unwrap_or_else(|| d.to_string());
        let (nsrc, ndst): (String, Option<String>) = match parent_in_set(m, src) {
            Some(p) => {
                let (psrc, pbase) = new_name.get(p)?.clone();
                let inner = split_inner(src).map(|x| x.1).unwrap_or(src);
                (format!("{psrc}${inner}"), c.names[1].as_ref().map(|d| format!("{pbase}${}", written_dst(d))))
            }
            None => match split_inner(src) {
                Some((_, inner)) => (inner.to_string(), c.names[1].as_ref().map(|d| written_dst(d))),
                None => (src.clone(), c.names[1].clone()),
            },
        };
        new_name.insert(src.clone(), (nsrc.clone(), ndst.clone().unwrap_or_else(|| nsrc.clone())));
        let mut nc = c.clone();
        nc.names = vec![Some(nsrc.clone()), ndst];
        if out.classes.insert(nsrc, nc).is_some() { return None; }
    }
    Some(out)
}

/// Source names the text would show under the suspected re-keying (with repetitions when re-keyed names collide).
/// Classification only, like [`rekeyed_orphans`].
pub fn rekeyed_names(m: &Maps) -> Vec<String> {
    let mut v: Vec<String> = m.classes.keys().map(|src| {
        // strip everything up to the orphan ancestor's last `$`
        let mut top = src.as_str();
        while let Some(p) = parent_in_set(m, top) { top = p; }
        match split_inner(top) { Some((outer, _)) => src[outer.len() + 1..].to_string(), None => src.clone() }
    }).collect();
    v.sort();
    v
}

// ------------------------------------------------------------------------------------------------ workload shaping

/// Rewrites target names so that the set satisfies the proviso (nested target names follow the nesting, no `$` in
/// top-level target names), keeping which names are present. Orphans keep whatever they have.
pub fn repair_to_proviso(m: &mut Maps, fresh: &mut dyn FnMut() -> String) {
    let mut order: Vec<String> = m.classes.keys().cloned().collect();
    order.sort_by_key(|s| s.matches('$').count());
    for src in order {
        match parent_in_set(m, &src).map(String::from) {
            Some(p) => {
                if m.classes[&src].names[1].is_some() {
                    let b = base(m, &p);
                    let simple = { let mut s = fresh(); s.retain(|c| c != '$' && c != '/'); if s.is_empty() { "I".to_string() } else { s } };
                    m.classes.get_mut(&src).unwrap().names[1] = Some(format!("{b}${simple}"));
                }
            }
            None => {
                if !is_orphan(m, &src) {
                    if let Some(t) = m.classes[&src].names[1].clone() { if t.contains('$') { m.classes.get_mut(&src).unwrap().names[1] = Some(t.replace('$', "_")); } }
                }
            }
        }
    }
}

/// Removes every orphan family by renaming (`$` -> `_` in the orphan's own name part), so that the set has no orphans.
pub fn remove_orphans(m: &mut Maps) {
    loop {
        let Some(o) = m.classes.keys().find(|s| is_orphan(m, s)).cloned() else { return };
        let (parent, inner) = split_inner(&o).map(|(a, b)| (a.to_string(), b.to_string())).unwrap();
        let mut renamed = format!("{parent}_{inner}");
        while m.classes.contains_key(&renamed) { renamed.push('_'); }
        rename_family(m, &o, &renamed);
    }
}

/// renames class `old` and every class whose name starts with `old$` (keys and names[0])
pub fn rename_family(m: &mut Maps, old: &str, new: &str) {
    let pre = format!("{old}$");
    let keys: Vec<String> = m.classes.keys().filter(|k| *k == old || k.starts_with(&pre)).cloned().collect();
    for k in keys {
        let nk = format!("{new}{}", &k[old.len()..]);
        if m.classes.contains_key(&nk) { continue; }
        let mut c = m.classes.remove(&k).unwrap();
        c.names[0] = Some(nk.clone());
        m.classes.insert(nk, c);
    }
}

pub fn package_depth(name: &str) -> usize { name.matches('/').count() }

pub fn row2(a: &str, b: Option<&str>) -> Row { vec![Some(a.to_string()), b.map(String::from)] }
