//! The monitor's own scanner of Enigma text. It does not build mappings; it only recovers, for every `CLASS`
//! line, the full source name implied by the nesting of the text, so that the census ("every class in exactly one
//! file") and the nesting criterion can be judged on the text itself.
//!
//! Grammar used (Enigma mapping files): indentation = leading TABs; first token = CLASS | FIELD | METHOD | ARG |
//! COMMENT; tokens separated by single blanks; outside COMMENT lines everything from `#` on is a remark.

#[derive(Clone, Debug, PartialEq, Eq)]
pub struct ClassLine {
    pub line: usize,
    pub depth: usize,
    /// the name token as written
    pub src_token: String,
    pub dst_token: Option<String>,
    /// full source name implied by the text: tokens of the enclosing CLASS lines joined with `$`
    pub full_src: String,
    /// full source name of the directly enclosing CLASS line
    pub parent: Option<String>,
}

/// a FIELD / METHOD / ARG line: (line, depth, tag, first token after the tag)
pub type MemberLine = (usize, usize, &'static str, String);

#[derive(Clone, Debug, Default, PartialEq, Eq)]
pub struct Scan {
    pub classes: Vec<ClassLine>,
    pub members: Vec<MemberLine>,
    pub fields: usize,
    pub methods: usize,
    pub args: usize,
    pub comment_lines: usize,
    pub remark_lines: usize,
    /// structural problems of the text itself (indentation jumps, member outside a class, unknown tag)
    pub problems: Vec<String>,
}

pub fn scan(text: &str) -> Scan {
    let mut out = Scan::default();
    // stack[d] = (full source name of the open CLASS at depth d)
    let mut stack: Vec<String> = vec![];
    // depth of the last structural line (CLASS/FIELD/METHOD/ARG), to check indentation steps
    let mut last_kind: Vec<&'static str> = vec![]; // kind of the open node at each depth
    for (i, raw) in text.split('\n').enumerate() {
        let lineno = i + 1;
        if raw.is_empty() { continue; }
        let depth = raw.chars().take_while(|c| *c == '\t').count();
        let body = &raw[depth..];
        if body.starts_with("COMMENT") {
            out.comment_lines += 1;
            if depth == 0 || depth > last_kind.len() { out.problems.push(format!("line {lineno}: COMMENT at depth {depth} without an enclosing entry")); }
            continue;
        }
        let body = match body.find('#') { Some(p) => &body[..p], None => body };
        let body = body.trim_matches(' ');
        if body.is_empty() { out.remark_lines += 1; continue; }
        let toks: Vec<&str> = body.split(' ').collect();
        if depth > last_kind.len() { out.problems.push(format!("line {lineno}: indentation jumps to {depth}")); continue; }
        last_kind.truncate(depth);
        match toks[0] {
            "CLASS" => {
                if depth > 0 && last_kind[depth - 1] != "CLASS" { out.problems.push(format!("line {lineno}: CLASS nested in {}", last_kind[depth - 1])); }
                // open classes: only those whose depth < this depth stay
                let open_classes = last_kind.iter().take(depth).filter(|k| **k == "CLASS").count();
                stack.truncate(open_classes);
                if toks.len() < 2 || toks.len() > 4 { out.problems.push(format!("line {lineno}: CLASS with {} tokens", toks.len())); continue; }
                let parent = stack.last().cloned();
                let full = match &parent { Some(p) => format!("{p}${}", toks[1]), None => toks[1].to_string() };
                out.classes.push(ClassLine { line: lineno, depth, src_token: toks[1].to_string(), dst_token: toks.get(2).map(|s| s.to_string()), full_src: full.clone(), parent });
                stack.push(full);
                last_kind.push("CLASS");
            }
            "FIELD" | "METHOD" => {
                if depth == 0 || last_kind[depth - 1] != "CLASS" { out.problems.push(format!("line {lineno}: {} outside a class", toks[0])); }
                out.members.push((lineno, depth, if toks[0] == "FIELD" { "FIELD" } else { "METHOD" }, toks.get(1).unwrap_or(&"").to_string()));
                if toks[0] == "FIELD" { out.fields += 1; last_kind.push("FIELD"); } else { out.methods += 1; last_kind.push("METHOD"); }
            }
            "ARG" => {
                if depth == 0 || last_kind[depth - 1] != "METHOD" { out.problems.push(format!("line {lineno}: ARG outside a method")); }
                out.members.push((lineno, depth, "ARG", toks.get(1).unwrap_or(&"").to_string()));
                out.args += 1;
                last_kind.push("ARG");
            }
            t => out.problems.push(format!("line {lineno}: unknown tag {t:?}")),
        }
    }
    out
}

impl Scan {
    /// Sibling sequences that are not in ascending order of their first token (classes: source token; FIELD /
    /// METHOD: source name, ties allowed — overloads; ARG: numeric index). Siblings = same tag, same depth, no line of
    /// smaller depth in between (and, for depth-0 classes, the whole text).
    pub fn unsorted(&self) -> Vec<String> {
        let mut out = vec![];
        // (line, depth, tag, token)
        let mut all: Vec<(usize, usize, &'static str, String)> = self.members.clone();
        // file-level classes are ordered by FILE name (target name), which the caller checks through the `# name` remarks
        for c in &self.classes { all.push((c.line, c.depth, if c.depth == 0 { "CLASS0" } else { "CLASS" }, c.src_token.clone())); }
        all.sort_by_key(|x| x.0);
        // last token seen per (depth, tag); cleared when a shallower line appears
        let mut last: Vec<std::collections::BTreeMap<&'static str, String>> = vec![];
        for (line, depth, tag, tok) in all {
            last.truncate(depth + 1);
            while last.len() < depth + 1 { last.push(Default::default()); }
            // a new parent at this depth closes the deeper levels (done by truncate); a line at `depth` whose tag opens children keeps its own level
            if tag == "CLASS0" { continue; }
            if let Some(prev) = last[depth].get(tag) {
                let bad = if tag == "ARG" { match (prev.parse::<u64>(), tok.parse::<u64>()) { (Ok(a), Ok(b)) => a >= b, _ => true } } else if tag == "CLASS" { prev.as_str() >= tok.as_str() } else { prev.as_str() > tok.as_str() };
                if bad { out.push(format!("line {line}: {tag} {tok:?} after {prev:?}")); }
            }
            last[depth].insert(tag, tok);
        }
        out
    }
}

/// Source-name nesting: `P$I` is an inner class of `P` when the split at the LAST `$` leaves a non-empty parent that does
/// not end a package (`/`), and a non-empty inner part without `/`.
pub fn split_inner(name: &str) -> Option<(&str, &str)> {
    let p = name.rfind('$')?;
    let (parent, inner) = (&name[..p], &name[p + 1..]);
    if parent.is_empty() || inner.is_empty() || parent.ends_with('/') || inner.contains('/') { return None; }
    Some((parent, inner))
}

#[cfg(test)]
mod tests {
    use super::*;
    #[test]
    fn nesting() {
        let t = "#\n# x\nCLASS a/A x/X\n\tCOMMENT # hi\n\tFIELD f g I\n\tMETHOD m ()V\n\t\tARG 1 p\n\t\t\tCOMMENT c\n\tCLASS B Y\n\t\tCLASS C\n\tCLASS D\nCLASS E\n";
        let s = scan(t);
        assert!(s.problems.is_empty(), "{:?}", s.problems);
        let names: Vec<_> = s.classes.iter().map(|c| c.full_src.as_str()).collect();
        assert_eq!(names, ["a/A", "a/A$B", "a/A$B$C", "a/A$D", "E"]);
        assert_eq!(s.classes[2].parent.as_deref(), Some("a/A$B"));
        assert_eq!((s.fields, s.methods, s.args, s.comment_lines, s.remark_lines), (1, 1, 1, 2, 2));
        assert!(s.unsorted().is_empty(), "{:?}", s.unsorted());
        assert_eq!(scan("CLASS b\nCLASS a\n").unsorted().len(), 0);
        assert_eq!(scan("CLASS b\n\tCLASS z\n\tCLASS a\n").unsorted().len(), 1);
        assert_eq!(scan("CLASS a\n\tFIELD z I\n\tFIELD y I\n").unsorted().len(), 1);
        assert_eq!(scan("CLASS a\n\tFIELD z I\nCLASS b\n\tFIELD y I\n").unsorted().len(), 0);
        assert_eq!(scan("CLASS a\n\tMETHOD m ()V\n\t\tARG 2 x\n\t\tARG 10 y\n").unsorted().len(), 0);
        assert_eq!(split_inner("a/$B"), None);
        assert_eq!(split_inner("A$"), None);
        assert_eq!(split_inner("A$$B"), Some(("A$", "B")));
        assert_eq!(split_inner("a$b/C"), None);
    }
}
