fn main() { eprintln!("HARNESS-ERROR monitor not built yet"); std::process::exit(3); }
