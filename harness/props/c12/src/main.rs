//! C12 — Enigma files and directories round-trip the mappings they can express.
//!
//! Real code: `quill::enigma_file::{write_all, write_one, read_into, read_file_into}`, `quill::enigma_dir::{write, read}`.
//! Oracle: model equality after the R-enigma normalisation (DESIGN 9a), the monitor's own text scanner (census of classes
//! per file, nesting of the text vs nesting of the source names, sortedness), byte equality across insertion orders.
mod norm;
mod scan;

use common::{par::*, report::{finish, Meta}, *};
use maps::gen::{self, CommentClass, GenCfg, ParamSrc};
use maps::model::{from_quill, namespaces_to_quill, to_quill, Ins, Maps};
use norm::*;
use quill::tree::mappings::Mappings;
use scan::{scan, split_inner, Scan};
use std::collections::{BTreeMap, BTreeSet};
use std::path::{Path, PathBuf};

pub const SIG_ORPHAN: &str = "C12 roundtrip: orphan inner class (outer class absent from the set) is re-keyed to its simple name";

type Q = Mappings<2, ()>;

// ------------------------------------------------------------------------------------------------ generation

#[derive(Clone, Copy, Debug, PartialEq, Eq)]
enum Category { InDomain, Orphans, UnnamedParam, OutsideProviso }

/// set by `miri_slice` only: small sets with hostile names (the ordinary workloads never see it)
static MIRI_SLICE_CFG: std::sync::atomic::AtomicBool = std::sync::atomic::AtomicBool::new(false);

fn cfg() -> GenCfg {
    if MIRI_SLICE_CFG.load(std::sync::atomic::Ordering::Relaxed) { return maps::slice::small(GenCfg { max_classes: 4, ..cfg_ordinary() }); }
    cfg_ordinary()
}
fn cfg_ordinary() -> GenCfg {
    GenCfg { namespaces: Some(2), comments: CommentClass::Rich, comment_chance: (2, 5), empty_comments: true, param_src: ParamSrc::Mixed,
        max_classes: 7, max_fields: 3, max_methods: 3, max_params: 3, big: (1, 60), orphan: (1, 4), target_dollar: false, unique_per_namespace: true, ..GenCfg::default() }
}

/// One generated set and the category it was shaped into.
fn gen_set(rng: &mut Rng) -> (Maps, Category) {
    let cfg = cfg();
    let mut m = gen::gen_maps(rng, &cfg);
    // packages at depth 0-4: push one family of classes deeper now and then
    if rng.chance(1, 4) {
        let tops: Vec<String> = m.classes.keys().filter(|k| split_inner(k).is_none()).cloned().collect();
        if !tops.is_empty() {
            let t = rng.pick(&tops).clone();
            let want = rng.usize_in(1, 4);
            let mut name = t.clone();
            while package_depth(&name) < want { name = format!("{}/{name}", rng.pick(&["p", "q", "deep", "ü"])); }
            if !m.classes.contains_key(&name) { rename_family(&mut m, &t, &name); }
        }
    }
    // packages at "any depth": the file of a class lies as deep in the directory tree as its TARGET name (source name if it has none) has
    // package components - a ladder around every plausible limit of a directory walk
    if rng.chance(1, 10) {
        let loners: Vec<String> = m.classes.keys().filter(|k| split_inner(k).is_none() && !k.contains('$') && !m.classes.keys().any(|o| o.starts_with(&format!("{k}$")))).cloned().collect();
        if !loners.is_empty() {
            let t = rng.pick(&loners).clone();
            let want = *rng.pick(&[8usize, 16, 30, 31, 32, 33, 40, 64]);
            let prefix: String = (0..want).map(|i| format!("{}/", ["d", "e", "ü", "x1"][i % 4])).collect();
            let c = m.classes.get_mut(&t).unwrap();
            match c.names.get(1).cloned().flatten() {
                Some(dst) if !dst.contains('$') => { c.names[1] = Some(format!("{prefix}{dst}")); }
                Some(_) => {}
                None => { let name = format!("{prefix}{t}"); if !m.classes.contains_key(&name) { rename_family(&mut m, &t, &name); } }
            }
        }
    }
    // deep nesting now and then: a chain of 13..=28 inner classes below one top-level class (the text form indents one tab per level)
    if rng.chance(1, 12) {
        let tops: Vec<String> = m.classes.keys().filter(|k| split_inner(k).is_none() && !k.contains('$')).cloned().collect();
        if let Some(t) = tops.first().cloned() {
            let depth = rng.usize_in(13, 28);
            // the Miri slice keeps the chain (the text form indents one tab per level) but shorter: a 28-level chain costs ~90 s there
            let depth = if MIRI_SLICE_CFG.load(std::sync::atomic::Ordering::Relaxed) { 4 + depth % 5 } else { depth };
            let mut src = t.clone();
            for d in 1..=depth {
                src = format!("{src}$N{d}");
                if m.classes.contains_key(&src) { break; }
                let mut c = maps::Class { names: vec![Some(src.clone()), if rng.chance(1, 6) { None } else { Some(format!("T{d}")) }], ..Default::default() };
                if rng.chance(1, 3) { c.comment = Some(format!("level {d}")); }
                m.classes.insert(src.clone(), c);
            }
        }
    }
    let which = rng.below(20);
    // proviso (except for the small "outside" category, which is only watched for panics)
    if which != 0 {
        let mut r2 = rng.fork();
        repair_to_proviso(&mut m, &mut || gen::simple_name(&mut r2, &cfg));
        // target directories at depth up to 4
        if rng.chance(1, 5) {
            let tops: Vec<String> = m.classes.keys().filter(|k| parent_in_set(&m, k).is_none() && !is_orphan(&m, k)).cloned().collect();
            if let Some(t) = tops.first().cloned() {
                if let Some(old) = m.classes[&t].names[1].clone() {
                    let new = format!("{}{}", rng.pick(&["d0/", "d0/d1/d2/", "d0/d1/d2/d3/"]), old.rsplit('/').next().unwrap_or(&old));
                    if !m.classes.values().any(|c| c.names[1].as_deref() == Some(new.as_str())) {
                        m.classes.get_mut(&t).unwrap().names[1] = Some(new);
                        let mut r3 = rng.fork();
                        repair_to_proviso(&mut m, &mut || gen::simple_name(&mut r3, &cfg));
                    }
                }
            }
        }
    }
    // parameters without target name: only in their own category
    if which != 1 { for c in m.classes.values_mut() { for me in c.methods.values_mut() { for (i, p) in me.params.iter_mut() { if p.names[1].is_none() { p.names[1] = Some(format!("arg{i}")); } } } } }
    // orphans: only in their own category (3 of 20)
    if !(2..=4).contains(&which) { remove_orphans(&mut m); if which != 0 { let mut r4 = rng.fork(); repair_to_proviso(&mut m, &mut || gen::simple_name(&mut r4, &cfg)); } }
    let cat = if which == 0 && outside_domain(&m).is_some_and(|r| r.starts_with("proviso")) { Category::OutsideProviso }
        else if has_unnamed_param(&m) { Category::UnnamedParam }
        else if m.classes.keys().any(|k| is_orphan(&m, k)) { Category::Orphans }
        else { Category::InDomain };
    (m, cat)
}

// ------------------------------------------------------------------------------------------------ real code wrappers

/// Every third text (chosen by its content, so that replays agree) is what arrives in a writer that accepts only a few bytes per
/// `write` call (legal for any `io::Write`; a `Vec<u8>` takes everything and hides a `write` where `write_all` is needed): the text
/// then goes through the same comparisons as any other (other insertion orders, write_one pieces, directory files, read back).
static SHORT_WRITE_TEXTS: std::sync::atomic::AtomicU64 = std::sync::atomic::AtomicU64::new(0);
fn via_short_writes(v: Vec<u8>, again: impl FnOnce(&mut common::io::ChunkedWriter) -> anyhow::Result<()>) -> anyhow::Result<Vec<u8>> {
    let h = common::rng::fnv(&v);
    if h % 3 != 0 { return Ok(v); }
    let mut w = common::io::ChunkedWriter::new(h, 1 + (h % 29) as usize);
    again(&mut w)?;
    if w.short_writes > 0 { SHORT_WRITE_TEXTS.fetch_add(1, std::sync::atomic::Ordering::Relaxed); }
    Ok(w.data)
}
fn write_all(q: &Q) -> Result<anyhow::Result<Vec<u8>>, PanicInfo> { guard(|| { let mut v = vec![]; quill::enigma_file::write_all(q, &mut v)?; via_short_writes(v, |w| quill::enigma_file::write_all(q, w)) }) }
fn write_one(q: &Q, file: &str) -> Result<anyhow::Result<Vec<u8>>, PanicInfo> { guard(|| { let mut v = vec![]; quill::enigma_file::write_one(q, file, &mut v)?; via_short_writes(v, |w| quill::enigma_file::write_one(q, file, w)) }) }
fn fresh(m: &Maps) -> anyhow::Result<Q> { Ok(Mappings { info: quill::tree::mappings::MappingInfo { namespaces: namespaces_to_quill::<2, ()>(m)? }, classes: Default::default(), javadoc: None }) }
fn read_texts(m: &Maps, texts: &[&[u8]]) -> Result<anyhow::Result<Q>, PanicInfo> {
    guard(|| { let mut q = fresh(m)?; for t in texts { if common::rng::fnv(t) % 3 == 0 { quill::enigma_file::read_into(common::io::ChunkedReader::new(t, common::rng::fnv(t), 1 + t.len() % 11), &mut q)?; } else { quill::enigma_file::read_into(*t, &mut q)?; } } Ok(q) })
}

fn settle<T>(rep: &mut Report, api: &str, what_err: &str, detail: &dyn Fn() -> Value, r: Result<anyhow::Result<T>, PanicInfo>) -> Option<T> {
    match r {
        Ok(Ok(v)) => Some(v),
        Ok(Err(e)) => { rep.violation(format!("C12 {api}: {what_err}"), json!({"error": format!("{e:#}"), "input": detail()})); None }
        Err(p) => { rep.violation(format!("panic {}", p.site()), json!({"api": api, "line": p.line, "message": p.message, "input": detail()})); None }
    }
}

// ------------------------------------------------------------------------------------------------ judging

fn comment_kind(expected: &str) -> &'static str {
    if expected.lines().any(|l| l.trim_start().starts_with('#')) { "a line starts with #" }
    else if expected.contains('#') { "contains #" }
    else if expected.contains("\n\n") || expected.starts_with('\n') || expected.ends_with('\n') || expected.is_empty() { "blank line" }
    else if expected.split('\n').any(|l| l.starts_with(' ')) { "line with leading space" }
    else if expected.split('\n').any(|l| l.ends_with(' ')) { "line with trailing space" }
    else if expected.contains('\n') { "several lines" }
    else { "one line" }
}

/// Compares an observed set with the expectation; records one violation per difference kind. Returns true when equal.
fn judge_equal(rep: &mut Report, via: &str, expected: &Maps, observed: &Maps, detail: &dyn Fn() -> Value) -> bool {
    let d = maps::cmp::diff_maps(expected, observed);
    if d.is_empty() { return true; }
    let mut done: BTreeSet<String> = BTreeSet::new();
    for (kind, at) in &d {
        let mut sig = format!("C12 roundtrip: {kind}");
        if kind.contains("comment differs") || kind.contains("comment lost") {
            // refine by the class of the expected comment
            if let Some(exp) = at.split("expected ").nth(1) {
                let text: String = exp.split("\" observed").next().unwrap_or(exp).trim_matches('"').replace("\\n", "\n");
                sig = format!("{sig} ({})", comment_kind(&text));
            }
        }
        if done.insert(sig.clone()) { rep.violation(sig, json!({"via": via, "where": at, "expected": expected.render(), "observed": observed.render(), "input": detail()})); }
    }
    false
}

/// expected placement of the classes of `m`: file-level classes (with their file name) and the text parent of each class
fn placement(m: &Maps) -> (BTreeMap<String, String>, BTreeMap<String, Option<String>>) {
    let mut files = BTreeMap::new();
    let mut parents = BTreeMap::new();
    for src in m.classes.keys() {
        match parent_in_set(m, src) {
            Some(p) => { parents.insert(src.clone(), Some(p.to_string())); }
            None => { parents.insert(src.clone(), None); files.insert(base(m, src), src.clone()); }
        }
    }
    (files, parents)
}

/// Census + nesting + sortedness of a set of texts (`name -> text`; one text per file, or one stream).
/// Returns false if anything was reported.
#[allow(clippy::too_many_arguments)]
fn judge_texts(rep: &mut Report, via: &str, m: &Maps, texts: &BTreeMap<String, String>, one_class_per_file: bool, has_orphans: bool, detail: &dyn Fn() -> Value) -> bool {
    let mut ok = true;
    let (_, parents) = placement(m);
    let mut seen_in: BTreeMap<String, Vec<String>> = BTreeMap::new();
    let (mut fields, mut methods, mut args, mut comments) = (0, 0, 0, 0);
    let v = |rep: &mut Report, sig: String, extra: Value| { rep.violation(sig, json!({"via": via, "what": extra, "texts": texts, "set": m.render(), "input": detail()})); };
    let scans: Vec<(&String, Scan)> = texts.iter().map(|(f, t)| (f, scan(t))).collect();
    // orphan category: are the class names of the text exactly those the suspected re-keying predicts (and not the source names)?
    let mut rekeyed_census = false;
    if has_orphans {
        let mut in_text: Vec<String> = scans.iter().flat_map(|(_, s)| s.classes.iter().map(|c| c.full_src.clone())).collect();
        in_text.sort();
        let src: Vec<String> = m.classes.keys().cloned().collect();
        if in_text != src && in_text == rekeyed_names(m) {
            rekeyed_census = true;
            ok = false;
            rep.count("orphan.census_shows_rekeyed_names");
            let orphan = m.classes.keys().find(|k| is_orphan(m, k)).cloned();
            rep.violation(SIG_ORPHAN, json!({"via": format!("{via} (census: the text holds the family of the orphan under its simple name, the source name appears in no file)"), "orphan": orphan, "texts": texts, "set": m.render()}));
        }
    }
    for (file, s) in &scans {
        let file = *file;
        if !s.problems.is_empty() { ok = false; v(rep, "C12 text: written text is not well-formed Enigma (indentation / tags)".into(), json!({"file": file, "problems": s.problems})); }
        let u = s.unsorted();
        if !u.is_empty() { ok = false; v(rep, "C12 text: output is not sorted (siblings out of order)".into(), json!({"file": file, "unsorted": u})); }
        if one_class_per_file && s.classes.iter().filter(|c| c.depth == 0).count() != 1 { ok = false; v(rep, "C12 census: a file does not hold exactly one top-level class".into(), json!({"file": file})); }
        if rekeyed_census { fields += s.fields; methods += s.methods; args += s.args; comments += s.comment_lines; continue; }
        for c in &s.classes {
            seen_in.entry(c.full_src.clone()).or_default().push(file.clone());
            // nesting in the text mirrors source-name nesting
            match parents.get(&c.full_src) {
                Some(exp) => if *exp != c.parent {
                    ok = false;
                    v(rep, "C12 nesting: nesting in the text differs from source-name nesting".into(), json!({"file": file, "class": c.full_src, "text_parent": c.parent, "source_parent": exp}));
                },
                None => { ok = false; v(rep, "C12 census: the text holds a class the set does not have".into(), json!({"file": file, "class": c.full_src})); }
            }
        }
        fields += s.fields; methods += s.methods; args += s.args; comments += s.comment_lines;
    }
    if !rekeyed_census {
        for src in m.classes.keys() {
            let n = seen_in.get(src).map(|f| f.len()).unwrap_or(0);
            if n == 1 { continue; }
            ok = false;
            v(rep, format!("C12 census: a class appears in {} files", if n == 0 { "zero" } else { "two or more" }), json!({"class": src, "files": seen_in.get(src)}));
        }
    }
    // members: totals of the text equal totals of the set
    let (_, f, me, p) = m.counts();
    let mut cl = 0; m.visit(|_, _, c| if let Some(c) = c { cl += c.split('\n').count(); });
    if (fields, methods, args, comments) != (f, me, p, cl) {
        ok = false;
        v(rep, "C12 census: number of FIELD / METHOD / ARG / COMMENT lines differs from the set".into(), json!({"text": [fields, methods, args, comments], "set": [f, me, p, cl]}));
    }
    ok
}

// ------------------------------------------------------------------------------------------------ directory helpers

fn list_files(root: &Path) -> std::io::Result<BTreeMap<String, Vec<u8>>> {
    fn rec(root: &Path, dir: &Path, out: &mut BTreeMap<String, Vec<u8>>) -> std::io::Result<()> {
        for e in std::fs::read_dir(dir)? {
            let e = e?;
            let p = e.path();
            if e.file_type()?.is_dir() { rec(root, &p, out)?; } else { out.insert(p.strip_prefix(root).unwrap_or(&p).to_string_lossy().into_owned(), std::fs::read(&p)?); }
        }
        Ok(())
    }
    let mut out = BTreeMap::new();
    if root.exists() { rec(root, root, &mut out)?; }
    Ok(out)
}

struct Scratch { root: PathBuf }
impl Scratch {
    fn new(ctx: &Ctx) -> Scratch { let root = PathBuf::from(format!("{}/scratch/c12-{}", ctx.out_dir, std::process::id())); let _ = std::fs::remove_dir_all(&root); Scratch { root } }
    fn dir(&self, case: u64, k: usize) -> PathBuf { self.root.join(format!("{case}-{k}")) }
}
impl Drop for Scratch { fn drop(&mut self) { let _ = std::fs::remove_dir_all(&self.root); } }

// ------------------------------------------------------------------------------------------------ one case

struct Wrong { expectation: bool }

/// `dir`: Some(directory for this case) => also the directory format. `wrong`: canary switch (deliberately wrong expectation).
fn one_case(rng: &mut Rng, rep: &mut Report, case: u64, scratch: Option<&Scratch>, wrong: &Wrong) {
    let (m, cat) = gen_set(rng);
    rep.eval();
    rep.count(&format!("category.{cat:?}"));
    let detail = || json!({"set": m.render(), "category": format!("{cat:?}")});
    // ---- build the quill tree in k insertion orders
    let mut r2 = rng.fork();
    let mut qs: Vec<Q> = vec![];
    for which in 0..3 {
        let mut ins = match which { 0 => Ins::Sorted, 1 => Ins::Reverse, _ => Ins::Shuffle(&mut r2) };
        match to_quill::<2, ()>(&m, &mut ins) { Ok(q) => qs.push(q), Err(e) => { rep.count("harness.to_quill_failed"); rep.note(format!("to_quill failed: {e:#}")); return; } }
    }
    maps::watch(rep, "C12", "to_quill (input)", &qs[0], detail);

    match cat {
        Category::OutsideProviso => {
            // not judged; only watched for panics
            for q in &qs { if let Err(p) = write_all(q) { rep.violation(format!("panic {}", p.site()), json!({"api": "write_all", "message": p.message, "input": detail()})); } }
            rep.count("not_judged.outside_proviso");
            return;
        }
        Category::UnnamedParam => {
            match write_all(&qs[0]) {
                Ok(Err(_)) => rep.count("unnamed_param.write_refused (accepted)"),
                Ok(Ok(_)) => rep.count("unnamed_param.write_succeeded (not judged)"),
                Err(p) => rep.violation(format!("panic {}", p.site()), json!({"api": "write_all", "message": p.message, "input": detail()})),
            }
            return;
        }
        _ => {}
    }
    if let Some(reason) = outside_domain(&m) { rep.count(&format!("not_judged.{}", reason.split(':').next().unwrap_or(reason))); rep.count("not_judged.total"); return; }
    let has_orphans = cat == Category::Orphans;
    // ---- coverage of the workload
    let mut max_depth_pkg = 0;
    for (src, c) in &m.classes {
        max_depth_pkg = max_depth_pkg.max(package_depth(src)).max(c.names[1].as_deref().map(package_depth).unwrap_or(0));
        if c.names[1].is_none() { rep.count("class.without_target_name"); }
        if parent_in_set(&m, src).is_some() { rep.count("class.nested_with_parent_in_set"); if c.names[1].is_none() { rep.count("class.nested_without_target_name"); } }
        if is_orphan(&m, src) { rep.count("class.orphan"); }
        rep.max("max.nesting_depth", src.matches('$').count() as u64);
        if src.matches('$').count() >= 17 { rep.count("class.nesting_depth_17_or_more"); }
        for me in c.methods.values() {
            if me.names[1].as_deref() == Some("<init>") { rep.count("method.target_name_is_init"); }
            for p in me.params.values() { if p.comment.is_some() { rep.count("parameter.with_comment"); } if p.names[0].is_some() { rep.count("parameter.with_source_name"); } }
        }
    }
    rep.count(&format!("package_depth.{}", max_depth_pkg.min(5)));
    m.visit(|_, _, c| if let Some(c) = c { rep.count(&format!("comment.{}", comment_kind(c))); });

    let expected = if wrong.expectation { let mut e = norm(&m); if let Some(c) = e.classes.values_mut().next() { c.comment = Some("canary: deliberately wrong expectation".into()); } e } else { norm(&m) };
    let (files, _) = placement(&m);

    // ---- 1. single stream, k insertion orders
    let mut texts: Vec<Vec<u8>> = vec![];
    for q in &qs { match settle(rep, "write_all", "Err on a set inside the domain", &detail, write_all(q)) { Some(t) => texts.push(t), None => return } }
    if texts.iter().any(|t| *t != texts[0]) {
        rep.violation("C12 determinism: write_all output differs between insertion orders", json!({"a": String::from_utf8_lossy(&texts[0]), "b": String::from_utf8_lossy(texts.iter().find(|t| **t != texts[0]).unwrap()), "input": detail()}));
    }
    rep.count("stream.writes");
    let text = String::from_utf8_lossy(&texts[0]).into_owned();
    let mut equal = true;
    let judge_rt = |rep: &mut Report, via: &str, r: Result<anyhow::Result<Q>, PanicInfo>| -> bool {
        // orphan category: classify by the suspected re-keying first
        if has_orphans {
            let rk = rekeyed_orphans(&expected);
            match (&r, &rk) {
                (Ok(Ok(q)), Some(rk)) if from_quill(q) == *rk && *rk != expected => {
                    rep.count("orphan.rekeyed_as_suspected");
                    rep.violation(SIG_ORPHAN, json!({"via": via, "expected": expected.render(), "observed": rk.render(), "text": text}));
                    return false;
                }
                (Ok(Err(e)), None) => {
                    rep.count("orphan.rekeyed_name_collides_reader_refuses");
                    rep.violation(SIG_ORPHAN, json!({"via": format!("{via} (the re-keyed name collides with another class: reader refuses)"), "error": format!("{e:#}"), "expected": expected.render(), "text": text}));
                    return false;
                }
                _ => {}
            }
        }
        let Some(q) = settle(rep, via, "reader rejects what the writer produced for a set inside the domain", &|| json!({"text": text, "set": m.render()}), r) else { return false };
        maps::watch(rep, "C12", via, &q, &detail);
        judge_equal(rep, via, &expected, &from_quill(&q), &|| json!({"text": text}))
    };
    equal &= judge_rt(rep, "read_into(write_all)", read_texts(&m, &[&texts[0]]));
    let mut one_text: BTreeMap<String, String> = BTreeMap::new();
    one_text.insert("<stream>".into(), text.clone());
    equal &= judge_texts(rep, "write_all", &m, &one_text, false, has_orphans, &detail);
    // the stream lists the files in ascending order, each announced by a remark
    let headers: Vec<&str> = text.split('\n').filter_map(|l| l.strip_prefix("# ")).collect();
    // "sorted": the statement names no key. Ascending by the announced file name (what the repository does) and ascending by the source
    // name of the file-level class are both accepted; the same classes in any other order, or other classes, are not.
    let by_file: Vec<&str> = files.keys().map(|s| s.as_str()).collect();
    let by_source: Vec<&str> = { let mut v: Vec<(&String, &String)> = files.iter().map(|(f, s)| (s, f)).collect(); v.sort(); v.into_iter().map(|(_, f)| f.as_str()).collect() };
    if headers == by_source && headers != by_file { rep.count("text.write_all_sorted_by_source_name (accepted)"); }
    if headers != by_file && headers != by_source {
        rep.violation("C12 text: write_all does not announce exactly the file-level classes in ascending order", json!({"headers": headers, "expected": files.keys().collect::<Vec<_>>(), "text": text, "input": detail()}));
    }

    // ---- 2. write_one per file-level class
    let mut pieces: BTreeMap<String, String> = BTreeMap::new();
    for f in files.keys() {
        let Some(t) = settle(rep, "write_one", "Err for a file-level class of a set inside the domain", &|| json!({"file": f, "set": m.render()}), write_one(&qs[2], f)) else { return };
        pieces.insert(f.clone(), String::from_utf8_lossy(&t).into_owned());
    }
    rep.add("write_one.calls", files.len() as u64);
    // the pieces in the order write_all announces them (judged above)
    let order: Vec<&str> = if headers.len() == pieces.len() && headers.iter().all(|h| pieces.contains_key(*h)) { headers.clone() } else { by_file.clone() };
    let concat: String = order.iter().map(|f| format!("#\n# {f}\n{}", pieces[*f])).collect();
    if concat != text { rep.violation("C12 determinism: write_one pieces differ from the corresponding part of write_all", json!({"write_all": text, "write_one": pieces, "input": detail()})); }
    let byte_pieces: Vec<&[u8]> = pieces.values().map(|s| s.as_bytes()).collect();
    equal &= judge_rt(rep, "read_into(write_one ...)", read_texts(&m, &byte_pieces));
    // nested class: write_one must refuse (it is not a file of its own)
    if let Some(nested) = m.classes.keys().find(|k| parent_in_set(&m, k).is_some()) {
        let b = base(&m, nested);
        if !files.contains_key(&b) { if let Ok(Ok(_)) = write_one(&qs[0], &b) { rep.count("write_one.accepts_nested_class (not judged)"); } }
    }

    // ---- 3. directory
    if let Some(sc) = scratch {
        let mut listings: Vec<BTreeMap<String, Vec<u8>>> = vec![];
        for (k, q) in qs.iter().enumerate() {
            let dir = sc.dir(case, k);
            // the caller provides an existing directory (an empty set writes no file, hence creates nothing)
            if let Err(e) = std::fs::create_dir_all(&dir) { rep.note(format!("cannot create scratch directory: {e}")); rep.count("harness.scratch_io"); return; }
            // Environment: the second directory is not empty - it already holds a file at the path of every file-level class, with an
            // OLDER and LONGER content (the new text followed by members that have since been removed), as after an earlier write of
            // a larger set. "Every class lands in exactly one file" and the round trip speak about the files this write produces: each
            // must hold exactly the new text (compared with the other two directories below), not the new text plus the old tail.
            if k == 1 && !pieces.is_empty() {
                for (f, t) in &pieces {
                    let path = dir.join(format!("{f}.mapping"));
                    if let Some(parent) = path.parent() { let _ = std::fs::create_dir_all(parent); }
                    let old = format!("{t}\tFIELD stale_{} was_here I\n\tMETHOD old_m old_target ()V\n\t\tARG 1 gone\n\tCLASS Removed StaleInner\n\t\tFIELD x y Ljava/lang/String;\n", f.len());
                    if let Err(e) = std::fs::write(&path, old) { rep.note(format!("cannot pre-populate scratch directory: {e}")); rep.count("harness.scratch_io"); return; }
                }
                rep.count("directory.writes_over_older_longer_files");
            }
            let r = guard(|| quill::enigma_dir::write(q, &dir));
            if settle(rep, "enigma_dir::write", "Err on a set inside the domain", &detail, r).is_none() { let _ = std::fs::remove_dir_all(&dir); return; }
            match list_files(&dir) { Ok(l) => listings.push(l), Err(e) => { rep.note(format!("cannot list scratch directory: {e}")); rep.count("harness.scratch_io"); return; } }
        }
        rep.count("directory.writes");
        if listings[0] != listings[2] { rep.violation("C12 determinism: directory content differs between insertion orders", json!({"input": detail()})); }
        else if listings[1] != listings[0] {
            let stale = listings[1].iter().any(|(f, b)| listings[0].get(f).is_some_and(|n| b.len() > n.len() && b.starts_with(n)));
            rep.violation(if stale { "C12 directory: a file that existed before the write keeps the tail of its old content (the new text is written over the beginning only)" } else { "C12 determinism: directory content differs between insertion orders" }, json!({"input": detail()}));
        }
        let file_texts: BTreeMap<String, String> = listings[0].iter().map(|(f, b)| (f.clone(), String::from_utf8_lossy(b).into_owned())).collect();
        rep.max("max.files_in_directory", file_texts.len() as u64);
        rep.max("max.directory_depth", file_texts.keys().map(|f| f.matches('/').count()).max().unwrap_or(0) as u64);
        equal &= judge_texts(rep, "enigma_dir::write", &m, &file_texts, true, has_orphans, &detail);
        // file names: one file per file-level class, named after it
        let expected_files: BTreeSet<String> = files.keys().map(|f| format!("{f}.mapping")).collect();
        let got_files: BTreeSet<String> = file_texts.keys().cloned().collect();
        if expected_files != got_files { rep.violation("C12 census: files of the directory are not one `<name>.mapping` per file-level class", json!({"expected": expected_files, "observed": got_files, "input": detail()})); }
        else { for (f, t) in &pieces { if file_texts.get(&format!("{f}.mapping")) != Some(t) { rep.violation("C12 determinism: file content differs from write_one", json!({"file": f, "input": detail()})); break; } } }
        // read back (from the directory written in shuffled order)
        let dir = sc.dir(case, 2);
        let r = guard(|| -> anyhow::Result<Q> { quill::enigma_dir::read::<()>(&dir, namespaces_to_quill::<2, ()>(&m)?) });
        equal &= judge_rt(rep, "enigma_dir::read(enigma_dir::write)", r);
        // a single file through read_file_into
        if let Some((f, _)) = file_texts.iter().next() {
            let p = dir.join(f);
            let r = guard(|| -> anyhow::Result<Q> { let mut q = fresh(&m)?; quill::enigma_file::read_file_into(&p, &mut q)?; Ok(q) });
            if let Some(q) = settle(rep, "read_file_into", "rejects a file the directory writer produced", &detail, r) {
                let got = from_quill(&q);
                let r2 = read_texts(&m, &[file_texts[f].as_bytes()]);
                if let Ok(Ok(q2)) = r2 { if from_quill(&q2) != got { rep.violation("C12 roundtrip: read_file_into differs from read_into on the same text", json!({"file": f, "input": detail()})); } }
            }
        }
        for k in 0..3 { let _ = std::fs::remove_dir_all(sc.dir(case, k)); }
    }

    // ---- bookkeeping
    let nontrivial = m.classes.len() >= 2 && (m.classes.keys().any(|k| parent_in_set(&m, k).is_some()) || m.n_comments() > 0);
    if nontrivial { rep.nontrivial(rng::fnv_str(&format!("{:x}|{cat:?}|{}", m.shape_fingerprint(), scratch.is_some()))); }
    if equal && has_orphans { rep.count("orphan.roundtrip_equal"); }
    if rep.want_sample() && nontrivial && m.classes.len() <= 5 { rep.sample(|| json!({"set": m.render(), "category": format!("{cat:?}"), "enigma_text": text})); }
}

// ------------------------------------------------------------------------------------------------ self checks

fn self_checks(seed: u64) -> Result<(), String> {
    maps::self_test(seed, 30)?;
    use maps::model::{Class, Method, Param};
    // normalisation / prediction on the DESIGN example: A$B -> x/Y$Z, outer class absent
    let mut m = Maps::new(&["a", "b"]);
    m.classes.insert("A$B".into(), Class { names: row2("A$B", Some("x/Y$Z")), ..Default::default() });
    m.classes.insert("A$B$C".into(), Class { names: row2("A$B$C", Some("x/Y$Z$W")), ..Default::default() });
    m.classes.insert("T".into(), Class { names: row2("T", None), ..Default::default() });
    m.classes.insert("T$I".into(), Class { names: row2("T$I", Some("T$J")), ..Default::default() });
    let mut me = Method { names: row2("<init>", Some("<init>")), ..Default::default() };
    me.params.insert(1, Param { names: row2("src", Some("dst")), comment: None });
    m.classes.get_mut("T").unwrap().methods.insert(("<init>".into(), "(I)V".into()), me);
    if outside_domain(&m).is_some() { return Err(format!("domain predicate rejects the reference example: {:?}", outside_domain(&m))); }
    if !is_orphan(&m, "A$B") || is_orphan(&m, "A$B$C") || !under_orphan(&m, "A$B$C") || is_orphan(&m, "T$I") { return Err("orphan predicate".into()); }
    let n = norm(&m);
    if norm(&n) != n { return Err("norm is not idempotent".into()); }
    let nm = &n.classes["T"].methods[&("<init>".to_string(), "(I)V".to_string())];
    if nm.names[1].is_some() || nm.params[&1].names[0].is_some() || nm.params[&1].names[1].as_deref() != Some("dst") { return Err("norm: <init> / parameter source name".into()); }
    let rk = rekeyed_orphans(&n).ok_or("rekeyed_orphans: unexpected collision")?;
    if !rk.classes.contains_key("B") || rk.classes["B"].names[1].as_deref() != Some("Z") || rk.classes.get("B$C").map(|c| c.names[1].clone()) != Some(Some("Z$W".into())) || !rk.classes.contains_key("T$I") {
        return Err(format!("rekeyed_orphans does not reproduce the DESIGN example:\n{}", rk.render()));
    }
    let mut bad = m.clone();
    bad.classes.get_mut("T$I").unwrap().names[1] = Some("Other$J".into());
    if outside_domain(&bad).is_none() { return Err("domain predicate accepts a nested target name that does not follow the nesting".into()); }
    // scanner canaries: mis-nested and unsorted texts must be flagged by judge_texts
    {
        let mut m2 = Maps::new(&["a", "b"]);
        m2.classes.insert("A".into(), Class { names: row2("A", Some("X")), ..Default::default() });
        m2.classes.insert("A$B".into(), Class { names: row2("A$B", Some("X$Y")), ..Default::default() });
        m2.classes.insert("C".into(), Class { names: row2("C", None), ..Default::default() });
        let good = "CLASS C\nCLASS A X\n\tCLASS B Y\n";
        for (text, must_flag, what) in [(good, false, "a correct text"), ("CLASS C\n\tCLASS B Y\nCLASS A X\n", true, "B nested in C instead of A"), ("CLASS C\nCLASS A X\n", true, "A$B in no file"),
            ("CLASS C\nCLASS A X\n\tCLASS B Y\nCLASS A X\n", true, "A twice"), ("CLASS C\nCLASS A X\n\tCLASS B Y\n\tFIELD f I\n", true, "a FIELD the set does not have")] {
            let mut rep = Report::new();
            let mut t = BTreeMap::new(); t.insert("<stream>".to_string(), text.to_string());
            let ok = judge_texts(&mut rep, "canary", &m2, &t, false, false, &|| json!(null));
            if ok == must_flag || rep.violations.is_empty() != !must_flag { return Err(format!("canary: text scanner verdict wrong for {what}")); }
        }
        let mut rep = Report::new();
        let mut wrong = norm(&m2); wrong.classes.get_mut("A").unwrap().names[1] = Some("Wrong".into());
        if judge_equal(&mut rep, "canary", &wrong, &norm(&m2), &|| json!(null)) || rep.violations.is_empty() { return Err("canary: a deliberately wrong expectation was not flagged by judge_equal".into()); }
    }
    // end-to-end canary: the whole case runner with a deliberately wrong expectation must report
    let mut flagged = false;
    for i in 0..40 {
        let mut rng = Rng::new(rng::case_seed(seed, "C12/canary", i));
        let mut rep = Report::new();
        one_case(&mut rng, &mut rep, i, None, &Wrong { expectation: true });
        if rep.violations.keys().any(|s| s.starts_with("C12 roundtrip: class: comment")) { flagged = true; break; }
    }
    if !flagged { return Err("canary: runs with a deliberately wrong expectation were not flagged".into()); }
    Ok(())
}

// ------------------------------------------------------------------------------------------------ main

/// cases of the Miri slice the thorough tier asks for (measured: see NOTES.md)
const MIRI_CASES: usize = 35;

/// Write-only probe with lone surrogates (the text format cannot carry them; nothing is judged but unexpected panics): `write_all`
/// places and sorts the classes by their raw names and prints them through duke's `Display`, which refuses names that are not
/// UTF-8 (`fmt::Error` -> the panic of `io::Write::write_fmt`; counted, see NOTES.md of C03).
fn surrogate_write_probe(rng: &mut Rng, rep: &mut Report) {
    // up to 6 draws until a set carries the marker (U+FFFD in the model = lone surrogate in the tree)
    let mut m = gen_set(rng).0;
    for _ in 0..5 { if m.render().contains('\u{fffd}') { break; } m = gen_set(rng).0; }
    rep.eval();
    let Ok(q) = to_quill::<2, ()>(&m, &mut Ins::Shuffle(&mut rng.fork())) else { rep.count("harness.to_quill_failed"); return };
    match write_all(&q) {
        Err(p) if p.message.contains("formatting trait implementation returned an error") => rep.count("miri.surrogate_write.panics_because_Display_refuses_non_UTF-8 (not judged)"),
        Err(p) => rep.violation(format!("panic {}", p.site()), json!({"api": "write_all (names with lone surrogates)", "message": p.message, "input": m.render()})),
        Ok(Err(_)) => rep.count("miri.surrogate_write.refused (not judged)"),
        Ok(Ok(_)) => rep.count("miri.surrogate_sets_written"),
    }
}

/// `c12 --miri-slice <seed> <cases> <max seconds>`: single-threaded, no files: the stream workload (write_all from 3 insertion
/// orders, write_one per file-level class, read_into - every third text through the short-read reader -, R-enigma comparison, text
/// census) on small sets in which a third of the simple names are hostile (NUL, boundary / supplementary code points, BOM,
/// descriptor letters, names of 40..1300 bytes); every sixth case writes a set with lone surrogates. The directory workload needs
/// the file system and is not part of the slice.
fn miri_slice(seed: u64, cases: usize, max_s: u64) -> i32 {
    MIRI_SLICE_CFG.store(true, std::sync::atomic::Ordering::Relaxed);
    let right = Wrong { expectation: false };
    maps::slice::run("C12", seed, cases, max_s, 6, |rng, rep, i, sur| if sur { surrogate_write_probe(rng, rep) } else { one_case(rng, rep, i, None, &right) })
}

fn main() {
    if let Some((seed, n, max_s)) = common::miri::slice_args() { std::process::exit(miri_slice(seed, n, max_s)); }
    let mut ctx = Ctx::from_args("C12", 35, 420);
    let replay = load_replay(&mut ctx);
    if let Err(e) = self_checks(ctx.seed) { println!("HARNESS-ERROR C12 self-check failed: {e}"); std::process::exit(3); }
    let mut rep = Report::new();
    let right = Wrong { expectation: false };
    run_cases(&ctx, &replay, &mut rep, "stream", ctx.tier.pick(30_000, 200_000), |rng, rep, case| one_case(rng, rep, case, None, &right));
    {
        let scratch = Scratch::new(&ctx);
        run_cases(&ctx, &replay, &mut rep, "directory", ctx.tier.pick(800, 10_000), |rng, rep, case| one_case(rng, rep, case, Some(&scratch), &right));
        if scratch.root.exists() { let left = list_files(&scratch.root).map(|l| l.len()).unwrap_or(0); if left > 0 { rep.note(format!("{left} scratch files were left behind and removed at exit")); } }
    }
    let mut meta = Meta::new("exploration",
        "a case = one generated two-namespace mapping set (maps::gen, shaped into the stated domain: nested target names follow the nesting; categories: in-domain 15/20, orphan inner classes 3/20, parameter without target name 1/20, outside the proviso 1/20) written in 3 insertion orders through write_all, write_one per file and (workload `directory`) enigma_dir::write, read back through read_into / enigma_dir::read / read_file_into; \
         non-trivial = at least two classes and (a nested class with its parent in the set or a comment); distinct = structural fingerprint of the set (shape, name classes, comment classes) x category x format")
        .assume("names contain no white space and no `#`; comments contain no TAB / CR / VT / FF (the text format cannot carry them)")
        .assume("target names (file names) of file-level classes are pairwise distinct and differ from the source names of classes without target name; sets violating that are counted, not judged")
        .assume("equality after R-enigma: parameter source names erased, a method target name `<init>` erased; `simple` part of a nested target name has no `$` and no `/`")
        .assume("sets with a parameter without target name: a refusal of the writer is accepted; sets outside the proviso are only watched for panics");
    if replay.is_none() {
        meta.oblige("orphan inner classes generated (separately counted category)", rep.get("category.Orphans") > 0 && rep.get("class.orphan") > 0);
        meta.oblige("classes without target name, also nested ones", rep.get("class.without_target_name") > 0 && rep.get("class.nested_without_target_name") > 0);
        meta.oblige("parameters with comments and with source names", rep.get("parameter.with_comment") > 0 && rep.get("parameter.with_source_name") > 0);
        meta.oblige("comments with blank lines, leading spaces, # characters (at line start and inside)", ["comment.blank line", "comment.line with leading space", "comment.contains #", "comment.a line starts with #"].iter().all(|k| rep.get(k) > 0));
        meta.oblige("packages at depth 0, 1, 2, 3 and 4", (0..=4).all(|d| rep.get(&format!("package_depth.{d}")) > 0));
        meta.oblige("nesting depth >= 3", rep.get("max.nesting_depth") >= 3);
        meta.oblige("judged sets with nesting depth >= 17 (chains of inner classes)", rep.get("max.nesting_depth") >= 17 && rep.get("class.nesting_depth_17_or_more") >= 20);
        meta.oblige("constructors named <init> in the target namespace", rep.get("method.target_name_is_init") > 0);
        meta.oblige("directories with >= 5 files and depth >= 3", rep.get("max.files_in_directory") >= 5 && rep.get("max.directory_depth") >= 3);
        meta.oblige("texts written through write_all / write_one into a writer that accepts only a few bytes per call (>= 500, short writes happened)", SHORT_WRITE_TEXTS.load(std::sync::atomic::Ordering::Relaxed) >= 500);
        meta.oblige("directory writes over older, longer files at the same paths (>= 50)", rep.get("directory.writes_over_older_longer_files") >= 50);
        meta.oblige("stream, write_one and directory formats all exercised", rep.get("stream.writes") > 0 && rep.get("write_one.calls") > 0 && rep.get("directory.writes") > 0);
        meta.oblige("at most 10% of the cases fall outside the judged domain by accident", rep.get("not_judged.total") * 10 <= rep.evaluations);
        meta.oblige("no harness conversion / scratch I/O failure", rep.get("harness.to_quill_failed") + rep.get("harness.scratch_io") == 0);
        if ctx.tier == Tier::Thorough {
            let r = common::miri::run_slice(&ctx, "c12", env!("CARGO_MANIFEST_DIR"), MIRI_CASES, 170, 285);
            if let Some(line) = r.ub { rep.cur = ("miri".into(), 0); rep.violation(format!("miri: {line}"), json!({"how": format!("cargo +nightly miri run --offline -p c12 -- --miri-slice <seed> {MIRI_CASES} 170"), "seed": ctx.seed as i64, "status": r.status})); }
            meta.extra.insert("miri_slice".into(), json!(r.status));
        } else { meta.extra.insert("miri_slice".into(), json!("not run in the quick tier")); }
    }
    std::process::exit(finish(&ctx, rep, meta));
}
