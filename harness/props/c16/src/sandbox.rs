//! Parent side of the sandbox: starts the child through `sh -c 'ulimit -v ..; ulimit -s ..; exec ...'`, watches the event
//! log, attributes a death to the input that has a BEGIN without END, restarts the child on the remaining inputs,
//! and applies the hang rule (a stall becomes `Hang` only after three isolated re-runs with 10x the budget all stall).
use crate::proto::*;
use std::process::{Command, Stdio};
use std::sync::atomic::{AtomicU64, Ordering};
use std::time::{Duration, Instant};

#[derive(Clone, Debug)]
pub struct Limits {
    /// address space of the child, kB
    pub vmem_kb: u64,
    /// main-thread stack of the child, kB
    pub stack_kb: u64,
    /// no log growth for this long while the child is alive => suspected hang
    pub stall: Duration,
}
impl Default for Limits {
    fn default() -> Self { Limits { vmem_kb: 2 << 20, stack_kb: 8 << 10, stall: Duration::from_secs(20) } }
}

#[derive(Clone, Debug)]
pub enum Outcome {
    Done(Done),
    /// the child died while this input was being processed
    Died { signal: Option<i32>, exit: Option<i32>, what: String, in_write: bool, stderr: String },
    /// stalled in the batch and in three isolated re-runs with 10x the budget
    Hang { in_write: bool },
    /// stalled in the batch, but at least one isolated re-run finished and at least one did not: no verdict for this input
    HangUnclear { in_write: bool },
}

#[derive(Default, Debug)]
pub struct Stats { pub spawns: u64, pub restarts_after_death: u64, pub stalls: u64, pub isolated_reruns: u64, pub startup_stalls: u64 }

static SERIAL: AtomicU64 = AtomicU64::new(0);

pub struct Sandbox { pub exe: String, pub dir: String, pub limits: Limits }

enum RunEnd { Exited(std::process::ExitStatus), Stalled }

impl Sandbox {
    pub fn new(out_dir: &str, limits: Limits) -> Result<Sandbox, String> {
        let exe = std::env::current_exe().map_err(|e| format!("current_exe: {e}"))?.to_string_lossy().to_string();
        let dir = format!("{out_dir}/scratch/c16");
        std::fs::create_dir_all(&dir).map_err(|e| format!("cannot create {dir}: {e}"))?;
        Ok(Sandbox { exe, dir, limits })
    }

    fn spawn_and_wait(&self, batch: &str, log: &str, err: &str, start: usize, end: usize, stall: Duration) -> Result<RunEnd, String> {
        let errf = std::fs::File::create(err).map_err(|e| format!("cannot create {err}: {e}"))?;
        let script = format!("ulimit -c 0; ulimit -v {} || exit 96; ulimit -s {} || exit 96; exec \"$0\" --child \"$1\" \"$2\" \"$3\" \"$4\"", self.limits.vmem_kb, self.limits.stack_kb);
        let mut child = Command::new("sh").arg("-c").arg(script).arg(&self.exe).arg(batch).arg(log).arg(start.to_string()).arg(end.to_string())
            .env_remove("RUST_BACKTRACE").env_remove("RUST_LIB_BACKTRACE")
            .stdin(Stdio::null()).stdout(Stdio::null()).stderr(Stdio::from(errf))
            .spawn().map_err(|e| format!("cannot start the child: {e}"))?;
        let mut last_len = 0u64;
        let mut last_growth = Instant::now();
        let mut nap = Duration::from_micros(300);
        let mut last_check = Instant::now();
        loop {
            match child.try_wait() {
                Ok(Some(st)) => return Ok(RunEnd::Exited(st)),
                Ok(None) => {}
                Err(e) => return Err(format!("wait: {e}")),
            }
            std::thread::sleep(nap);
            if nap < Duration::from_millis(4) { nap = nap * 3 / 2; }
            if last_check.elapsed() >= Duration::from_millis(200) {
                last_check = Instant::now();
                let len = std::fs::metadata(log).map(|m| m.len()).unwrap_or(0);
                if len != last_len { last_len = len; last_growth = Instant::now(); }
                else if last_growth.elapsed() >= stall {
                    let _ = child.kill();
                    let _ = child.wait();
                    return Ok(RunEnd::Stalled);
                }
            }
        }
    }

    /// Runs every input of the batch; one outcome per input, in order. `Err` = the sandbox itself failed (harness error).
    pub fn run(&self, batch: &Batch, stats: &mut Stats) -> Result<Vec<Outcome>, String> {
        let n = batch.inputs.len();
        let mut out: Vec<Option<Outcome>> = vec![None; n];
        if n == 0 { return Ok(vec![]); }
        let id = SERIAL.fetch_add(1, Ordering::Relaxed);
        let base = format!("{}/{}-{}", self.dir, std::process::id(), id);
        let (bpath, lpath, epath) = (format!("{base}.batch"), format!("{base}.log"), format!("{base}.err"));
        std::fs::write(&bpath, batch.encode()).map_err(|e| format!("cannot write {bpath}: {e}"))?;
        let cleanup = || { for p in [&bpath, &lpath, &epath] { let _ = std::fs::remove_file(p); } let _ = std::fs::remove_file(format!("{lpath}.in.tinydiff")); };
        let mut start = 0usize;
        let mut rounds = 0usize;
        let mut startup_stalls = 0u32;
        let mut stall = self.limits.stall;
        while start < n {
            rounds += 1;
            if rounds > n + 6 { cleanup(); return Err("sandbox made no progress".into()); }
            let _ = std::fs::remove_file(&lpath);
            stats.spawns += 1;
            let end = match self.spawn_and_wait(&bpath, &lpath, &epath, start, n, stall) { Ok(e) => e, Err(e) => { cleanup(); return Err(e); } };
            let text = String::from_utf8_lossy(&std::fs::read(&lpath).unwrap_or_default()).to_string();
            let mut open: Option<(usize, bool)> = None;
            let mut last_done: Option<usize> = None;
            for ev in parse_log(&text) {
                match ev {
                    Event::Begin(i) => open = Some((i, false)),
                    Event::Write(i) => if let Some((j, w)) = open.as_mut() { if *j == i { *w = true; } },
                    Event::End(i, d) => { if i < n { out[i] = Some(Outcome::Done(d)); last_done = Some(i); } if open.map(|o| o.0) == Some(i) { open = None; } }
                }
            }
            match end {
                RunEnd::Exited(st) if st.success() && open.is_none() && last_done == Some(n - 1) => { start = n; }
                RunEnd::Exited(st) => {
                    use std::os::unix::process::ExitStatusExt;
                    let Some((i, in_write)) = open else {
                        let e = String::from_utf8_lossy(&std::fs::read(&epath).unwrap_or_default()).to_string();
                        cleanup();
                        return Err(format!("child ended ({st}) without an open input after input {last_done:?} of {n}; stderr: {}", e.chars().take(300).collect::<String>()));
                    };
                    let errtext = String::from_utf8_lossy(&std::fs::read(&epath).unwrap_or_default()).to_string();
                    let what = if errtext.contains("has overflowed its stack") { "stack overflow" }
                        else if errtext.contains("memory allocation of") { "allocation failure" }
                        else if st.signal() == Some(11) { "segmentation fault" }
                        else { "abort" };
                    out[i] = Some(Outcome::Died { signal: st.signal(), exit: st.code(), what: what.to_string(), in_write, stderr: errtext.chars().take(400).collect() });
                    stats.restarts_after_death += 1;
                    start = i + 1;
                }
                RunEnd::Stalled => {
                    stats.stalls += 1;
                    let Some((i, in_write)) = open else {
                        // nothing was open: the child was starved before its first input / between two inputs (a machine-level
                        // stall, not an observation about any input). Go on after the last finished input with 10x the patience.
                        startup_stalls += 1;
                        stats.startup_stalls += 1;
                        if startup_stalls > 3 { cleanup(); return Err(format!("child stalled {startup_stalls} times without an open input after input {last_done:?} of {n}")); }
                        if let Some(d) = last_done { if d + 1 > start { start = d + 1; } }
                        stall = self.limits.stall * 10;
                        continue;
                    };
                    // isolated re-runs with 10x the budget
                    let mut finished: Vec<Outcome> = vec![];
                    let mut stalled = 0;
                    for attempt in 0..3 {
                        stats.isolated_reruns += 1;
                        let _ = std::fs::remove_file(&lpath);
                        let e2 = match self.spawn_and_wait(&bpath, &lpath, &epath, i, i + 1, self.limits.stall * 10) { Ok(e) => e, Err(e) => { cleanup(); return Err(e); } };
                        match e2 {
                            RunEnd::Stalled => stalled += 1,
                            RunEnd::Exited(st) => {
                                use std::os::unix::process::ExitStatusExt;
                                let text = String::from_utf8_lossy(&std::fs::read(&lpath).unwrap_or_default()).to_string();
                                let done = parse_log(&text).into_iter().find_map(|ev| if let Event::End(j, d) = ev { (j == i).then_some(d) } else { None });
                                match done {
                                    Some(d) => finished.push(Outcome::Done(d)),
                                    None => {
                                        let errtext = String::from_utf8_lossy(&std::fs::read(&epath).unwrap_or_default()).to_string();
                                        let what = if errtext.contains("has overflowed its stack") { "stack overflow" } else if errtext.contains("memory allocation of") { "allocation failure" } else { "abort" };
                                        finished.push(Outcome::Died { signal: st.signal(), exit: st.code(), what: what.into(), in_write, stderr: errtext.chars().take(400).collect() });
                                    }
                                }
                            }
                        }
                        if attempt == 0 && !finished.is_empty() { break; } // finished at once in isolation: it was only slow in the batch
                    }
                    out[i] = Some(if stalled == 0 { finished.remove(0) } else if finished.is_empty() { Outcome::Hang { in_write } } else { Outcome::HangUnclear { in_write } });
                    start = i + 1;
                }
            }
        }
        cleanup();
        let mut res = Vec::with_capacity(n);
        for (i, o) in out.into_iter().enumerate() { match o { Some(o) => res.push(o), None => return Err(format!("no outcome recorded for input {i} of {n}")) } }
        Ok(res)
    }
}
