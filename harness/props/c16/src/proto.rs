//! What parent and child exchange: a batch file (seeds + inputs described as edits of a seed) and an event log.
//!
//! An input is never stored as bytes: it is `(parser, aux, seed index, edits)`; parent and child materialise it with the
//! same [`apply`]. That keeps a batch of 40 000 mutants of a 10 kB class at a few hundred kB.

#[derive(Clone, Copy, Debug, PartialEq, Eq, PartialOrd, Ord, Hash)]
#[repr(u8)]
pub enum Parser {
    /// duke::read_class, and duke::write_class on what it returned
    ReadClass = 0,
    /// quill::tiny_v2::read::<N>, N = aux (2..=4)
    TinyV2 = 1,
    /// quill::tiny_v2_diff::read_file (the only public entry; the child writes the input to a scratch file)
    TinyDiff = 2,
    /// quill::enigma_file::read_into on a fresh two-namespace set
    Enigma = 3,
    /// dukenest Nests::read
    Nests = 4,
    /// FieldDescriptor: checked constructor + FieldDescriptorSlice::parse
    FieldDesc = 5,
    MethodDesc = 6,
    ReturnDesc = 7,
    // ---- canaries of the sandbox itself (never a repository call)
    CanaryPanic = 100,
    CanaryAbort = 101,
    CanaryStack = 102,
    CanaryAlloc = 103,
    CanaryHang = 104,
    CanaryOk = 105,
    CanaryAllocFail = 106,
}
impl Parser {
    pub fn from_u8(b: u8) -> Option<Parser> {
        use Parser::*;
        Some(match b { 0 => ReadClass, 1 => TinyV2, 2 => TinyDiff, 3 => Enigma, 4 => Nests, 5 => FieldDesc, 6 => MethodDesc, 7 => ReturnDesc,
            100 => CanaryPanic, 101 => CanaryAbort, 102 => CanaryStack, 103 => CanaryAlloc, 104 => CanaryHang, 105 => CanaryOk, 106 => CanaryAllocFail, _ => return None })
    }
    /// name used in signatures and evidence
    pub fn name(self) -> &'static str {
        use Parser::*;
        match self {
            ReadClass => "read_class", TinyV2 => "tiny_v2::read", TinyDiff => "tiny_v2_diff::read_file", Enigma => "enigma_file::read_into", Nests => "Nests::read",
            FieldDesc => "FieldDescriptor parse", MethodDesc => "MethodDescriptor parse", ReturnDesc => "ReturnDescriptor parse",
            CanaryPanic => "canary panic", CanaryAbort => "canary abort", CanaryStack => "canary stack", CanaryAlloc => "canary alloc", CanaryHang => "canary hang", CanaryOk => "canary ok",
            CanaryAllocFail => "canary allocation failure",
        }
    }
    pub fn from_name(s: &str) -> Option<Parser> { (0u8..=255).filter_map(Parser::from_u8).find(|p| p.name() == s) }
    pub const REAL: [Parser; 8] = [Parser::ReadClass, Parser::TinyV2, Parser::TinyDiff, Parser::Enigma, Parser::Nests, Parser::FieldDesc, Parser::MethodDesc, Parser::ReturnDesc];
}

#[derive(Clone, Debug, PartialEq, Eq)]
pub enum Edit {
    /// big-endian `val` over `buf[off..off+len]` (len 1, 2, 4 or 8)
    Set { off: u32, len: u8, val: u64 },
    /// keep the first `n` bytes
    Trunc { n: u32 },
    /// replace `del` bytes at `off` by `ins`
    Splice { off: u32, del: u32, ins: Vec<u8> },
}

#[derive(Clone, Debug)]
pub struct Input {
    pub parser: Parser,
    /// parser-specific small argument (number of namespaces for tiny v2)
    pub aux: u8,
    pub seed: u32,
    pub edits: Vec<Edit>,
}

#[derive(Default, Debug)]
pub struct Batch { pub seeds: Vec<Vec<u8>>, pub inputs: Vec<Input> }

pub fn apply(seed: &[u8], edits: &[Edit]) -> Vec<u8> {
    let mut b = seed.to_vec();
    for e in edits {
        match e {
            Edit::Set { off, len, val } => {
                let (off, len) = (*off as usize, *len as usize);
                let be = val.to_be_bytes();
                if off + len <= b.len() && len <= 8 { b[off..off + len].copy_from_slice(&be[8 - len..]); }
            }
            Edit::Trunc { n } => b.truncate(*n as usize),
            Edit::Splice { off, del, ins } => {
                let off = (*off as usize).min(b.len());
                let end = (off + *del as usize).min(b.len());
                b.splice(off..end, ins.iter().copied());
            }
        }
    }
    b
}

/// length of `apply(seed, edits)` without building it
pub fn len_after(seed_len: usize, edits: &[Edit]) -> usize {
    let mut n = seed_len;
    for e in edits {
        match e {
            Edit::Set { .. } => {}
            Edit::Trunc { n: t } => n = n.min(*t as usize),
            Edit::Splice { off, del, ins } => { let off = (*off as usize).min(n); let end = (off + *del as usize).min(n); n = n - (end - off) + ins.len(); }
        }
    }
    n
}

fn put32(o: &mut Vec<u8>, v: u32) { o.extend_from_slice(&v.to_le_bytes()); }

impl Batch {
    pub fn encode(&self) -> Vec<u8> {
        let mut o = Vec::with_capacity(64 + self.seeds.iter().map(|s| s.len() + 4).sum::<usize>() + self.inputs.len() * 24);
        o.extend_from_slice(b"C16B");
        put32(&mut o, self.seeds.len() as u32);
        for s in &self.seeds { put32(&mut o, s.len() as u32); o.extend_from_slice(s); }
        put32(&mut o, self.inputs.len() as u32);
        for i in &self.inputs {
            o.push(i.parser as u8); o.push(i.aux); put32(&mut o, i.seed); o.push(i.edits.len() as u8);
            for e in &i.edits {
                match e {
                    Edit::Set { off, len, val } => { o.push(0); put32(&mut o, *off); o.push(*len); o.extend_from_slice(&val.to_le_bytes()); }
                    Edit::Trunc { n } => { o.push(1); put32(&mut o, *n); }
                    Edit::Splice { off, del, ins } => { o.push(2); put32(&mut o, *off); put32(&mut o, *del); put32(&mut o, ins.len() as u32); o.extend_from_slice(ins); }
                }
            }
        }
        o
    }
    pub fn decode(b: &[u8]) -> Option<Batch> {
        struct R<'a> { b: &'a [u8], p: usize }
        impl R<'_> {
            fn u8(&mut self) -> Option<u8> { let v = *self.b.get(self.p)?; self.p += 1; Some(v) }
            fn u32(&mut self) -> Option<u32> { let s = self.b.get(self.p..self.p + 4)?; self.p += 4; Some(u32::from_le_bytes(s.try_into().ok()?)) }
            fn u64(&mut self) -> Option<u64> { let s = self.b.get(self.p..self.p + 8)?; self.p += 8; Some(u64::from_le_bytes(s.try_into().ok()?)) }
            fn bytes(&mut self, n: usize) -> Option<Vec<u8>> { let s = self.b.get(self.p..self.p + n)?; self.p += n; Some(s.to_vec()) }
        }
        let mut r = R { b, p: 0 };
        if r.bytes(4)? != b"C16B" { return None; }
        let mut out = Batch::default();
        let ns = r.u32()?;
        for _ in 0..ns { let l = r.u32()? as usize; out.seeds.push(r.bytes(l)?); }
        let ni = r.u32()?;
        for _ in 0..ni {
            let parser = Parser::from_u8(r.u8()?)?; let aux = r.u8()?; let seed = r.u32()?; let ne = r.u8()?;
            let mut edits = Vec::with_capacity(ne as usize);
            for _ in 0..ne {
                edits.push(match r.u8()? {
                    0 => { let off = r.u32()?; let len = r.u8()?; let val = r.u64()?; Edit::Set { off, len, val } }
                    1 => Edit::Trunc { n: r.u32()? },
                    2 => { let off = r.u32()?; let del = r.u32()?; let l = r.u32()? as usize; Edit::Splice { off, del, ins: r.bytes(l)? } }
                    _ => return None,
                });
            }
            out.inputs.push(Input { parser, aux, seed, edits });
        }
        Some(out)
    }
}

// ------------------------------------------------------------------------------------------------ event log

/// result of one phase (read, or write) as the child saw it
#[derive(Clone, Debug, PartialEq, Eq)]
pub enum Phase {
    Ok,
    /// error message reduced to its root cause (one line)
    Err(String),
    Panic { file: String, line: u32, message: String },
}

#[derive(Clone, Debug)]
pub struct Done {
    pub read: Phase,
    /// peak live heap bytes above the level before the call, during the read/parse phase
    pub peak: u64,
    /// largest single allocation request during the read/parse phase
    pub largest: u64,
    pub dur_us: u64,
    /// write_class on what the reader returned (only for read_class inputs the reader accepted)
    pub write: Option<(Phase, u64)>,
}

fn esc(s: &str) -> String { s.chars().map(|c| if c == '\t' || c == '\n' || c == '\r' { ' ' } else { c }).take(400).collect() }

impl Phase {
    fn fields(&self) -> String {
        match self {
            Phase::Ok => "o\t".into(),
            Phase::Err(m) => format!("e\t{}", esc(m)),
            Phase::Panic { file, line, message } => format!("p\t{}|{}|{}", esc(file).replace('|', "/"), line, esc(message)),
        }
    }
    fn parse(code: &str, text: &str) -> Option<Phase> {
        Some(match code {
            "o" => Phase::Ok,
            "e" => Phase::Err(text.to_string()),
            "p" => { let mut it = text.splitn(3, '|'); Phase::Panic { file: it.next()?.to_string(), line: it.next()?.parse().ok()?, message: it.next()?.to_string() } }
            _ => return None,
        })
    }
}

pub fn end_line(idx: usize, d: &Done) -> String {
    let w = match &d.write { None => "-\t0\t".to_string(), Some((p, peak)) => { let f = p.fields(); let (c, t) = f.split_once('\t').unwrap_or(("o", "")); format!("{c}\t{peak}\t{t}") } };
    format!("E\t{idx}\t{}\t{}\t{}\t{}\t{w}\n", d.peak, d.largest, d.dur_us, d.read.fields())
}

#[derive(Debug)]
pub enum Event { Begin(usize), Write(usize), End(usize, Done) }

pub fn parse_log(text: &str) -> Vec<Event> {
    let mut out = vec![];
    for l in text.lines() {
        let f: Vec<&str> = l.split('\t').collect();
        match f.first().copied() {
            Some("B") if f.len() == 2 => { if let Ok(i) = f[1].parse() { out.push(Event::Begin(i)); } }
            Some("W") if f.len() == 2 => { if let Ok(i) = f[1].parse() { out.push(Event::Write(i)); } }
            Some("E") if f.len() == 10 => {
                let (Ok(i), Ok(peak), Ok(largest), Ok(dur_us)) = (f[1].parse(), f[2].parse(), f[3].parse(), f[4].parse()) else { continue };
                let Some(read) = Phase::parse(f[5], f[6]) else { continue };
                let write = if f[7] == "-" { None } else { match (Phase::parse(f[7], f[9]), f[8].parse()) { (Some(p), Ok(pk)) => Some((p, pk)), _ => continue } };
                out.push(Event::End(i, Done { read, peak, largest, dur_us, write }));
            }
            _ => {} // a torn last line of a killed child
        }
    }
    out
}
