//! The sandboxed child: `c16 --child <batch> <log> <start> <end>`. Runs on the MAIN thread (so `ulimit -s` is the stack the
//! code under test gets), calls the real parsers under `common::guard`, measures peak live heap with `common::alloc_mon`,
//! and appends `B idx` / `W idx` / `E idx ...` lines to the event log, one `write(2)` per line group, unbuffered.
use crate::proto::*;
use common::alloc_mon;
use std::io::{Cursor, Write};

fn root_cause(e: &anyhow::Error) -> String {
    // innermost cause only: the outer contexts carry instance data (names, indices, Debug dumps of whole lines)
    let s = e.root_cause().to_string();
    s.chars().take(200).collect()
}

fn phase_of<T>(r: Result<anyhow::Result<T>, common::PanicInfo>) -> (Phase, Option<T>) {
    match r {
        Ok(Ok(v)) => (Phase::Ok, Some(v)),
        Ok(Err(e)) => (Phase::Err(root_cause(&e)), None),
        Err(p) => (Phase::Panic { file: p.file, line: p.line, message: p.message }, None),
    }
}

fn to_java_string(input: &[u8]) -> Option<java_string::JavaString> {
    match std::str::from_utf8(input) {
        Ok(s) => Some(java_string::JavaString::from(s.to_string())),
        Err(_) => java_string::JavaString::from_modified_utf8(input.to_vec()).ok(),
    }
}

struct Log { f: std::fs::File, pending: String }
impl Log {
    fn emit(&mut self, s: &str) {
        self.pending.push_str(s);
        if self.f.write_all(self.pending.as_bytes()).is_err() { std::process::exit(97); }
        self.pending.clear();
    }
    /// queued, goes out together with the next `emit` (saves a syscall: `E i` + `B i+1` in one write)
    fn queue(&mut self, s: &str) { self.pending.push_str(s); }
}

#[allow(unconditional_recursion)]
#[inline(never)]
fn recurse(n: u64, sink: &mut [u8; 256]) -> u64 { let mut local = [0u8; 256]; local[(n % 256) as usize] = sink[(n % 251) as usize].wrapping_add(1); std::hint::black_box(&mut local); recurse(n + 1, &mut local) + local[7] as u64 }

pub fn child_main(batch_path: &str, log_path: &str, start: usize, end: usize) -> i32 {
    let Ok(raw) = std::fs::read(batch_path) else { eprintln!("c16 child: cannot read batch {batch_path}"); return 98 };
    let Some(batch) = Batch::decode(&raw) else { eprintln!("c16 child: corrupt batch {batch_path}"); return 98 };
    drop(raw);
    let Ok(f) = std::fs::OpenOptions::new().create(true).append(true).open(log_path) else { eprintln!("c16 child: cannot open log {log_path}"); return 98 };
    let mut log = Log { f, pending: String::new() };
    let scratch = format!("{log_path}.in.tinydiff");
    let end = end.min(batch.inputs.len());
    let parent = std::os::unix::process::parent_id();
    for idx in start..end {
        // an orphaned child (the monitor was killed) must not keep running
        if std::os::unix::process::parent_id() != parent { return 95; }
        let inp = &batch.inputs[idx];
        let Some(seed) = batch.seeds.get(inp.seed as usize) else { eprintln!("c16 child: bad seed index"); return 98 };
        let input = apply(seed, &inp.edits);
        log.emit(&format!("B\t{idx}\n"));
        let t0 = std::time::Instant::now();
        alloc_mon::reset_peak();
        let base = alloc_mon::live();
        let mut write: Option<(Phase, u64)> = None;
        let read: Phase;
        let (peak, largest);
        macro_rules! measured { ($e:expr) => {{ let r = $e; peak = alloc_mon::peak().saturating_sub(base) as u64; largest = alloc_mon::largest() as u64; r }}; }
        match inp.parser {
            Parser::ReadClass => {
                let (ph, tree) = measured!(phase_of(common::guard(|| duke::read_class(&mut Cursor::new(&input[..])))));
                read = ph;
                if let Some(tree) = tree {
                    log.emit(&format!("W\t{idx}\n"));
                    alloc_mon::reset_peak();
                    let wbase = alloc_mon::live();
                    // dropping the tree and the output is part of "handling" the class: both happen inside the guard
                    let (wp, _) = phase_of(common::guard(move || { let mut out = Vec::new(); let r = duke::write_class(&mut out, &tree); drop(tree); r }));
                    write = Some((wp, alloc_mon::peak().saturating_sub(wbase) as u64));
                }
            }
            Parser::TinyV2 => {
                struct A; struct B; struct C; struct D;
                read = measured!(match inp.aux {
                    3 => phase_of(common::guard(|| quill::tiny_v2::read::<3, (A, B, C)>(&input[..]).map(drop))).0,
                    4 => phase_of(common::guard(|| quill::tiny_v2::read::<4, (A, B, C, D)>(&input[..]).map(drop))).0,
                    _ => phase_of(common::guard(|| quill::tiny_v2::read::<2, (A, B)>(&input[..]).map(drop))).0,
                });
            }
            Parser::TinyDiff => {
                if std::fs::write(&scratch, &input).is_err() { eprintln!("c16 child: cannot write scratch input"); return 98; }
                read = measured!(phase_of(common::guard(|| quill::tiny_v2_diff::read_file(&scratch).map(drop))).0);
            }
            Parser::Enigma => {
                struct A; struct B;
                read = measured!(phase_of(common::guard(|| {
                    let mut m = quill::tree::mappings::Mappings::<2, (A, B)>::from_namespaces(["a", "b"])?;
                    quill::enigma_file::read_into(&input[..], &mut m)?;
                    drop(m);
                    Ok(())
                })).0);
            }
            Parser::Nests => {
                struct A;
                read = measured!(phase_of(common::guard(|| dukenest::nest::Nests::<A>::read(&input).map(drop))).0);
            }
            Parser::FieldDesc | Parser::MethodDesc | Parser::ReturnDesc => {
                let Some(js) = to_java_string(&input) else {
                    log.queue(&end_line(idx, &Done { read: Phase::Err("(harness) input is not a string".into()), peak: 0, largest: 0, dur_us: 0, write: None }));
                    continue;
                };
                read = measured!(phase_of(common::guard(|| -> anyhow::Result<()> {
                    use duke::tree::descriptor::{ReturnDescriptor, ReturnDescriptorSlice};
                    use duke::tree::field::{FieldDescriptor, FieldDescriptorSlice};
                    use duke::tree::method::{MethodDescriptor, MethodDescriptorSlice};
                    // the checked constructor first (its verdict is an observation, not the result) ...
                    // ... then parse() on the unchecked slice: parse() is the function that has to refuse
                    match inp.parser {
                        Parser::FieldDesc => { let _ = FieldDescriptor::try_from(js.clone()); let s = unsafe { FieldDescriptorSlice::from_inner_unchecked(&js) }; s.parse().map(drop) }
                        Parser::MethodDesc => { let _ = MethodDescriptor::try_from(js.clone()); let s = unsafe { MethodDescriptorSlice::from_inner_unchecked(&js) }; s.parse().map(drop) }
                        _ => { let _ = ReturnDescriptor::try_from(js.clone()); let s = unsafe { ReturnDescriptorSlice::from_inner_unchecked(&js) }; s.parse().map(drop) }
                    }
                })).0);
            }
            // ---- canaries: behaviour of the sandbox itself
            Parser::CanaryOk => { read = measured!(Phase::Ok); }
            Parser::CanaryPanic => { read = measured!(phase_of(common::guard(|| -> anyhow::Result<()> { let v: Vec<u8> = vec![]; let i = std::hint::black_box(3); { std::hint::black_box(v[i]); Ok(()) } })).0); }
            Parser::CanaryAbort => { std::process::abort(); }
            Parser::CanaryStack => { let mut s = [0u8; 256]; let v = recurse(0, &mut s); read = measured!(if v == 1 { Phase::Ok } else { Phase::Err("?".into()) }); }
            Parser::CanaryAlloc => { read = measured!({ let v: Vec<u8> = vec![1; 96 << 20]; std::hint::black_box(&v); Phase::Ok }); }
            Parser::CanaryAllocFail => { read = measured!({ let v: Vec<u8> = vec![0; 3usize << 30]; std::hint::black_box(&v); Phase::Ok }); }
            Parser::CanaryHang => { loop { std::thread::sleep(std::time::Duration::from_secs(3600)); } }
        }
        let dur_us = t0.elapsed().as_micros() as u64;
        log.queue(&end_line(idx, &Done { read, peak, largest, dur_us, write }));
    }
    log.emit("");
    let _ = std::fs::remove_file(&scratch);
    0
}
