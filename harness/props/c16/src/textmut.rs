//! Text seeds (own emitters from the `maps` generators) and token-level mutations for Tiny v2, tiny-diff, Enigma, nests
//! and descriptor strings.
use crate::classmut::{MutInfo, Mutant};
use crate::proto::Edit;
use common::Rng;
use maps::{Act, Maps, MapsDiff};

#[derive(Clone, Copy, Debug, PartialEq, Eq)]
pub enum Fmt { Tiny, TinyDiff, Enigma, Nests }

fn esc(c: &str) -> String { c.replace('\n', "\\n") }
fn row(r: &[Option<String>]) -> String { r.iter().map(|x| format!("\t{}", x.as_deref().unwrap_or(""))).collect() }

pub fn emit_tiny(m: &Maps) -> String {
    let mut s = format!("tiny\t2\t0{}\n", m.namespaces.iter().map(|n| format!("\t{n}")).collect::<String>());
    for c in m.classes.values() {
        s += &format!("c{}\n", row(&c.names));
        if let Some(x) = &c.comment { s += &format!("\tc\t{}\n", esc(x)); }
        for ((_, d), f) in &c.fields { s += &format!("\tf\t{d}{}\n", row(&f.names)); if let Some(x) = &f.comment { s += &format!("\t\tc\t{}\n", esc(x)); } }
        for ((_, d), me) in &c.methods {
            s += &format!("\tm\t{d}{}\n", row(&me.names));
            if let Some(x) = &me.comment { s += &format!("\t\tc\t{}\n", esc(x)); }
            for (i, p) in &me.params { s += &format!("\t\tp\t{i}{}\n", row(&p.names)); if let Some(x) = &p.comment { s += &format!("\t\t\tc\t{}\n", esc(x)); } }
        }
    }
    s
}

fn act(a: &Act<String>) -> String { let (x, y) = a.clone().to_pair(); format!("\t{}\t{}", esc(&x.unwrap_or_default()), esc(&y.unwrap_or_default())) }

pub fn emit_tinydiff(d: &MapsDiff) -> String {
    let mut s = String::from("tiny\t2\t0\n");
    for (k, c) in &d.classes {
        s += &format!("c\t{k}{}\n", act(&c.name));
        if c.comment != Act::None { s += &format!("\tc{}\n", act(&c.comment)); }
        for ((n, de), f) in &c.fields { s += &format!("\tf\t{de}\t{n}{}\n", act(&f.name)); if f.comment != Act::None { s += &format!("\t\tc{}\n", act(&f.comment)); } }
        for ((n, de), me) in &c.methods {
            s += &format!("\tm\t{de}\t{n}{}\n", act(&me.name));
            if me.comment != Act::None { s += &format!("\t\tc{}\n", act(&me.comment)); }
            for (i, p) in &me.params { s += &format!("\t\tp\t{i}\t{}\n", act(&p.name)); if p.comment != Act::None { s += &format!("\t\t\tc{}\n", act(&p.comment)); } }
        }
    }
    s
}

pub fn emit_enigma(m: &Maps) -> String {
    fn class(m: &Maps, key: &str, indent: usize, out: &mut String) {
        let c = &m.classes[key];
        let t = "\t".repeat(indent);
        let simple = |n: &str| if indent > 0 { n.rsplit('$').next().unwrap_or(n).to_string() } else { n.to_string() };
        *out += &format!("{t}CLASS {}", simple(key));
        if let Some(Some(d)) = c.names.get(1) { *out += &format!(" {}", simple(d)); }
        out.push('\n');
        if let Some(x) = &c.comment { for l in x.split('\n') { *out += &format!("{t}\tCOMMENT {l}\n"); } }
        for ((n, d), f) in &c.fields {
            *out += &format!("{t}\tFIELD {n}"); if let Some(Some(x)) = f.names.get(1) { *out += &format!(" {x}"); } *out += &format!(" {d}\n");
            if let Some(x) = &f.comment { for l in x.split('\n') { *out += &format!("{t}\t\tCOMMENT {l}\n"); } }
        }
        for ((n, d), me) in &c.methods {
            *out += &format!("{t}\tMETHOD {n}"); if let Some(Some(x)) = me.names.get(1) { *out += &format!(" {x}"); } *out += &format!(" {d}\n");
            if let Some(x) = &me.comment { for l in x.split('\n') { *out += &format!("{t}\t\tCOMMENT {l}\n"); } }
            for (i, p) in &me.params {
                if let Some(Some(x)) = p.names.get(1) { *out += &format!("{t}\t\tARG {i} {x}\n"); if let Some(cm) = &p.comment { for l in cm.split('\n') { *out += &format!("{t}\t\t\tCOMMENT {l}\n"); } } }
            }
        }
        for k in m.classes.keys() { if let Some((o, _)) = k.rsplit_once('$') { if o == key { class(m, k, indent + 1, out); } } }
    }
    let mut out = String::new();
    for k in m.classes.keys() {
        let nested_in_present = k.rsplit_once('$').is_some_and(|(o, _)| m.classes.contains_key(o));
        if !nested_in_present { class(m, k, 0, &mut out); }
    }
    out
}

pub fn emit_nests(m: &Maps, rng: &mut Rng) -> String {
    let mut s = String::new();
    for (k, c) in &m.classes {
        let (encl, inner) = match k.rsplit_once('$') { Some((o, i)) if !o.is_empty() && !i.is_empty() => (o.to_string(), i.to_string()), _ => (format!("{k}Outer"), rng.pick(&["Inner", "1", "1Local", "23", "a"]).to_string()) };
        let (mn, md) = match c.methods.keys().next() { Some((n, d)) if rng.chance(1, 2) => (n.clone(), d.clone()), _ => (String::new(), String::new()) };
        let acc = match rng.below(4) { 0 => format!("{}", rng.below(65536)), 1 => format!("0x{:x}", rng.below(65536)), 2 => format!("0b{:b}", rng.below(65536)), _ => "8".into() };
        s += &format!("{k}\t{encl}\t{mn}\t{md}\t{inner}\t{acc}\n");
    }
    if s.is_empty() { s.push_str("a/B$C\ta/B\tm\t()V\tC\t0x0008\n"); }
    s
}

// ------------------------------------------------------------------------------------------------- mutations

struct Tok { start: usize, end: usize }
struct Line { start: usize, /// end without the line feed
    end: usize, indent: usize, toks: Vec<Tok> }

fn lines_of(b: &[u8], fmt: Fmt) -> Vec<Line> {
    let mut out = vec![]; let mut p = 0;
    while p < b.len() {
        let e = b[p..].iter().position(|c| *c == b'\n').map(|i| p + i).unwrap_or(b.len());
        let indent = b[p..e].iter().take_while(|c| **c == b'\t').count();
        let sep: &[u8] = if fmt == Fmt::Enigma { b" " } else { b"\t" };
        let mut toks = vec![]; let mut q = p + indent;
        loop {
            let te = b[q..e].iter().position(|c| sep.contains(c)).map(|i| q + i).unwrap_or(e);
            toks.push(Tok { start: q, end: te });
            if te >= e { break; }
            q = te + 1;
        }
        out.push(Line { start: p, end: e, indent, toks });
        p = e + 1;
    }
    out
}

fn splice(off: usize, del: usize, ins: &[u8]) -> Edit { Edit::Splice { off: off as u32, del: del as u32, ins: ins.to_vec() } }

const HUGE_NUMBERS: [&str; 10] = ["-1", "99999999999999999999", "18446744073709551615", "18446744073709551616", "4294967296", "65536", "0x10", "+1", "1e3", ""];
const INJECT: [(&[u8], &str); 8] = [(&[0xff], "byte_ff"), (&[0xc0, 0x80], "overlong_nul"), (&[0], "nul"), (b"\r", "cr"), (b" ", "space"), (b"\t", "tab"), (&[0xed, 0xa0, 0x80], "lone_surrogate"), (b"\\n", "backslash_n")];

const ESCAPES: [(&str, &str); 12] = [("\\", "backslash"), ("\\\\", "two_backslashes"), ("\\\\\\", "three_backslashes"), ("\\\u{e9}", "backslash_2_byte_char"), ("\\\u{2192}", "backslash_3_byte_char"), ("\\\u{1f600}", "backslash_4_byte_char"),
    ("\\0", "backslash_0"), ("\\t", "backslash_t"), ("\\r", "backslash_r"), ("\\q", "backslash_q"), ("\\u00e9", "backslash_u"), ("\\\u{301}", "backslash_combining_mark")];

/// token-level mutations of a text seed (every line x every token x every operation for the first `max_lines` lines)
pub fn text_mutants(seed: &[u8], fmt: Fmt, rng: &mut Rng, max_lines: usize, random_edits: usize) -> Vec<Mutant> {
    let mut out: Vec<Mutant> = vec![];
    let lines = lines_of(seed, fmt);
    let sep: &[u8] = if fmt == Fmt::Enigma { b" " } else { b"\t" };
    let keywords: &[&str] = match fmt { Fmt::Tiny | Fmt::TinyDiff => &["c", "f", "m", "p", "x", "C", "tiny", ""], Fmt::Enigma => &["CLASS", "FIELD", "METHOD", "ARG", "COMMENT", "CLASSX", "class", "#"], Fmt::Nests => &[] };
    for (li, l) in lines.iter().enumerate().take(max_lines) {
        let m = |what: &'static str, v: &str| MutInfo::new("token", what, v.to_string());
        // line-level
        out.push((vec![splice(l.start, (l.end + 1).min(seed.len()) - l.start, b"")], m("delete_line", "")));
        out.push((vec![splice(l.start, 0, &[&seed[l.start..l.end], b"\n"].concat())], m("duplicate_line", "")));
        if let Some(n) = lines.get(li + 1) { out.push((vec![splice(l.start, n.end - l.start, &[&seed[n.start..n.end], b"\n", &seed[l.start..l.end]].concat())], m("swap_lines", ""))); }
        // indentation
        out.push((vec![splice(l.start, 0, b"\t")], m("indent", "+1")));
        out.push((vec![splice(l.start, 0, b"\t\t\t\t\t")], m("indent", "+5")));
        if l.indent > 0 { out.push((vec![splice(l.start, 1, b"")], m("indent", "-1"))); out.push((vec![splice(l.start, l.indent, b"")], m("indent", "0"))); out.push((vec![splice(l.start, l.indent, &b"    ".repeat(l.indent))], m("indent", "spaces"))); }
        out.push((vec![splice(l.start, 0, b" ")], m("indent", "leading_space")));
        out.push((vec![splice(l.start + l.indent, 0, "\u{3000}".as_bytes())], m("indent", "ideographic_space_after_tabs")));
        out.push((vec![splice(l.start + l.indent, 0, "\u{a0}\u{2003}".as_bytes())], m("indent", "nbsp_em_space_after_tabs")));
        // keyword
        if let Some(t0) = l.toks.first() { for k in keywords { if &seed[t0.start..t0.end] != k.as_bytes() { out.push((vec![splice(t0.start, t0.end - t0.start, k.as_bytes())], m("keyword", k))); } } }
        // columns
        for (j, t) in l.toks.iter().enumerate() {
            let tok = &seed[t.start..t.end];
            if j > 0 {
                out.push((vec![splice(t.start - 1, t.end - t.start + 1, b"")], m("drop_column", "")));
                out.push((vec![splice(t.end, 0, &[sep, tok].concat())], m("duplicate_column", "")));
                out.push((vec![splice(t.start, t.end - t.start, b"")], m("empty_column", "")));
                if let Some(n) = l.toks.get(j + 1) { out.push((vec![splice(t.start, n.end - t.start, &[&seed[n.start..n.end], sep, tok].concat())], m("swap_columns", ""))); }
            }
            let numeric = !tok.is_empty() && tok.iter().all(|c| c.is_ascii_digit() || *c == b'x' || *c == b'b');
            let first = &seed[l.toks[0].start..l.toks[0].end];
            if numeric || (j == 1 && (first == b"p" || first == b"ARG")) || (fmt == Fmt::Nests && j == 5) {
                for h in HUGE_NUMBERS { out.push((vec![splice(t.start, t.end - t.start, h.as_bytes())], m("number", h))); }
                if fmt == Fmt::Nests { for h in ["0x", "0b", "0x10000", "0b2", "0xffff", "0b11111111111111111", "0X1"] { out.push((vec![splice(t.start, t.end - t.start, h.as_bytes())], m("number", h))); } }
            }
            let mid = t.start + (t.end - t.start) / 2;
            for (bytes, name) in INJECT { out.push((vec![splice(mid, 0, bytes)], m("inject", name))); }
            // the escape character of the text formats in front of everything an unescaper may meet: defined and undefined escapes, characters
            // of every UTF-8 length (a byte-wise "take the next character" shows only there), the end of the token / of the line
            for (bytes, name) in ESCAPES { for (pos, at) in [(t.start, "start"), (mid, "mid"), (t.end, "end")] { if at == "mid" || j > 0 { out.push((vec![splice(pos, 0, bytes.as_bytes())], MutInfo::new("token", "escape", format!("{name}@{at}")))); } } }
        }
        out.push((vec![splice(l.end, 0, &[sep, b"extra"].concat())], m("extra_column", "")));
        out.push((vec![splice(l.end, 0, b"\r")], m("crlf_line", "")));
    }
    // whole-file
    let w = |what: &'static str, v: &str| MutInfo::new("file", what, v.to_string());
    out.push((vec![Edit::Trunc { n: 0 }], w("empty_file", "")));
    let crlf: Vec<u8> = seed.iter().flat_map(|c| if *c == b'\n' { vec![b'\r', b'\n'] } else { vec![*c] }).collect();
    out.push((vec![splice(0, seed.len(), &crlf)], w("crlf", "")));
    let cr: Vec<u8> = seed.iter().map(|c| if *c == b'\n' { b'\r' } else { *c }).collect();
    out.push((vec![splice(0, seed.len(), &cr)], w("cr_only", "")));
    out.push((vec![splice(0, 0, &[0xef, 0xbb, 0xbf])], w("bom", "")));
    if seed.last() == Some(&b'\n') { out.push((vec![Edit::Trunc { n: seed.len() as u32 - 1 }], w("no_final_newline", ""))); }
    out.push((vec![splice(seed.len(), 0, b"\n\n\n")], w("trailing_blank_lines", "")));
    out.push((vec![splice(seed.len(), 0, &[0xff, 0xfe, 0x00])], w("trailing_garbage", "")));
    if let Some(h) = lines.first() {
        if matches!(fmt, Fmt::Tiny | Fmt::TinyDiff) {
            out.push((vec![splice(0, (h.end + 1).min(seed.len()), b"")], w("missing_header", "")));
            for (k, name) in [(0usize, "0"), (1, "1"), (2, "2"), (3, "3"), (5, "5"), (100, "100")] {
                let hdr = format!("tiny\t2\t0{}", (0..k).map(|i| format!("\tns{i}")).collect::<String>());
                out.push((vec![splice(0, h.end, hdr.as_bytes())], w("header_namespaces", name)));
            }
            for hdr in ["tiny\t2\t1\ta\tb", "tiny\t1\t0\ta\tb", "tiny\t2", "tiny", "TINY\t2\t0\ta\tb", "tiny\t2\t0\ta\ta", "tiny\t2\t0\t\t", "v1\ta\tb", "tiny\t2\t0\ta\tb\t"] { out.push((vec![splice(0, h.end, hdr.as_bytes())], w("header_variant", hdr))); }
        }
    }
    // truncation
    if seed.len() < 512 { for n in 1..seed.len() { out.push((vec![Edit::Trunc { n: n as u32 }], MutInfo::new("truncate", "every_byte", ""))); } }
    else {
        let mut cuts: Vec<usize> = lines.iter().flat_map(|l| l.toks.iter().flat_map(|t| [t.start, t.end]).chain([l.start, l.end])).collect();
        cuts.sort(); cuts.dedup();
        for n in cuts { if n > 0 && n < seed.len() { out.push((vec![Edit::Trunc { n: n as u32 }], MutInfo::new("truncate", "token_boundary", ""))); } }
    }
    // random byte edits
    for k in 0..random_edits {
        if seed.is_empty() { break; }
        let pos = rng.below(seed.len());
        let (e, what) = match k % 4 {
            0 => (Edit::Set { off: pos as u32, len: 1, val: (seed[pos] ^ (1 << rng.below(8))) as u64 }, "bit_flip"),
            1 => (Edit::Set { off: pos as u32, len: 1, val: *rng.pick(&[0u8, 9, 10, 13, 32, b'#', b'$', b'/', b';', b'[', b'(', 0x80, 0xff]) as u64 }, "byte_set"),
            2 => (splice(pos, 0, &(0..1 + rng.below(4)).map(|_| rng.below(256) as u8).collect::<Vec<u8>>()), "insert"),
            _ => (splice(pos, 1 + rng.below(4), b""), "delete"),
        };
        out.push((vec![e], MutInfo::new("random_edit", what, "")));
    }
    out
}

/// hostile whole texts: (family, parameter, format, bytes)
pub fn special_texts(thorough: bool) -> Vec<(&'static str, String, Fmt, Vec<u8>)> {
    let mut out = vec![];
    // Enigma indentation ladders: class k is nested k deep
    let depths: &[usize] = if thorough { &[1, 10, 100, 500, 1000, 2000, 4000, 8000] } else { &[1, 10, 100, 500, 1000, 2000, 4000] };
    for &d in depths {
        let mut s = String::with_capacity(d * d / 2 + d * 12);
        for k in 0..d { for _ in 0..k { s.push('\t'); } s.push_str("CLASS A B\n"); }
        out.push(("ladder.enigma_indentation", d.to_string(), Fmt::Enigma, s.into_bytes()));
    }
    for &d in &[2usize, 50, 1000, 100_000] {
        // a single line indented far deeper than its predecessor
        let s = format!("CLASS A B\n{}FIELD a b I\n", "\t".repeat(d));
        out.push(("ladder.enigma_indentation_jump", d.to_string(), Fmt::Enigma, s.into_bytes()));
        let s = format!("tiny\t2\t0\ta\tb\nc\tA\tB\n{}f\tI\ta\tb\n", "\t".repeat(d));
        out.push(("ladder.tiny_indentation_jump", d.to_string(), Fmt::Tiny, s.clone().into_bytes()));
        out.push(("ladder.tinydiff_indentation_jump", d.to_string(), Fmt::TinyDiff, format!("tiny\t2\t0\nc\tA\t\tB\n{}f\tI\ta\t\tb\n", "\t".repeat(d)).into_bytes()));
    }
    // very long lines / tokens
    for &n in if thorough { &[1usize << 10, 1 << 16, 1 << 20, 1 << 24][..] } else { &[1usize << 10, 1 << 16, 1 << 20][..] } {
        let long = "a".repeat(n);
        out.push(("long_line.tiny_name", n.to_string(), Fmt::Tiny, format!("tiny\t2\t0\ta\tb\nc\t{long}\tB\n\tm\t({})V\tm\tn\n\t\tc\t{long}\n", "I".repeat(n.min(1 << 16))).into_bytes()));
        out.push(("long_line.tiny_many_columns", n.to_string(), Fmt::Tiny, format!("tiny\t2\t0\ta\tb\nc{}\n", "\tx".repeat(n / 2)).into_bytes()));
        out.push(("long_line.tiny_header", n.to_string(), Fmt::Tiny, format!("tiny\t2\t0{}\n", "\tn".repeat(n / 2)).into_bytes()));
        out.push(("long_line.tinydiff_name", n.to_string(), Fmt::TinyDiff, format!("tiny\t2\t0\nc\t{long}\t\tB\n\tc\t{long}\t\n").into_bytes()));
        out.push(("long_line.enigma_name", n.to_string(), Fmt::Enigma, format!("CLASS {long} B\n\tCOMMENT {long}\n\tMETHOD m n ({})V\n", "[".repeat(n.min(1 << 16))).into_bytes()));
        out.push(("long_line.enigma_many_fields", n.to_string(), Fmt::Enigma, format!("CLASS A B{}\n", " x".repeat(n / 2)).into_bytes()));
        out.push(("long_line.nests", n.to_string(), Fmt::Nests, format!("{long}\t{long}\tm\t()V\t{long}\t8\n").into_bytes()));
        out.push(("long_line.nests_many_columns", n.to_string(), Fmt::Nests, format!("a{}\n", "\tx".repeat(n / 2)).into_bytes()));
        out.push(("long_line.no_newline_at_all", n.to_string(), Fmt::Tiny, long.clone().into_bytes()));
    }
    // many lines
    for &n in if thorough { &[1000usize, 100_000, 131_073][..] } else { &[1000usize, 20_000, 16_385][..] } {
        let mut s = String::from("tiny\t2\t0\ta\tb\n"); for k in 0..n { s += &format!("c\tA{k}\tB{k}\n\tf\tI\tf{k}\tg{k}\n"); }
        out.push(("many_lines.tiny", n.to_string(), Fmt::Tiny, s.into_bytes()));
        let mut s = String::new(); for k in 0..n { s += &format!("CLASS A{k} B{k}\n\tCOMMENT c\n\tCOMMENT d\n"); }
        out.push(("many_lines.enigma", n.to_string(), Fmt::Enigma, s.into_bytes()));
        let mut s = String::new(); for k in 0..n { s += &format!("a/B$C{k}\ta/B\t\t\tC{k}\t{k}\n"); }
        out.push(("many_lines.nests", n.to_string(), Fmt::Nests, s.into_bytes()));
        let mut s = String::from("CLASS A B\n"); for _ in 0..n { s += "\tCOMMENT x\n"; }
        out.push(("many_lines.enigma_one_comment", n.to_string(), Fmt::Enigma, s.into_bytes()));
    }
    // non-UTF-8 / binary
    out.push(("binary", "all byte values".into(), Fmt::Tiny, (0u8..=255).collect()));
    out.push(("binary", "all byte values".into(), Fmt::Enigma, (0u8..=255).collect()));
    out.push(("binary", "all byte values".into(), Fmt::Nests, (0u8..=255).collect()));
    out.push(("binary", "all byte values".into(), Fmt::TinyDiff, (0u8..=255).collect()));
    out.push(("binary", "class file magic".into(), Fmt::Tiny, vec![0xca, 0xfe, 0xba, 0xbe, 0, 0, 0, 52]));
    out
}

// ------------------------------------------------------------------------------------------------- descriptors

pub const DESC_SEEDS: [&str; 24] = ["I", "J", "Z", "V", "[I", "[[D", "Ljava/lang/Object;", "[Ljava/lang/String;", "[[[La/b$C;", "()V", "(I)V", "(IJ)D", "(Ljava/lang/Object;)Ljava/lang/String;",
    "([I[[Ljava/lang/String;JD)[La/B;", "(La;Lb;)Lc;", "()[[[I", "(ZBCSIFJD)V", "Lé/名;", "(L𝒳;)V", "L$;", "([Z)Z", "(DJ)J", "La/b/c/d/e/f/G;", "()Ljava/util/Map$Entry;"];
const DESC_ALPHABET: [&[u8]; 22] = [b"[", b"L", b";", b"(", b")", b"V", b"I", b"J", b"D", b"/", b".", b"<", b">", b"$", b" ", &[0], &[0xc0, 0x80], &[0xff], "é".as_bytes(), &[0xed, 0xa0, 0x80], b"[[[[", b"L;"];

pub fn desc_mutants(seed: &[u8]) -> Vec<Mutant> {
    let mut out: Vec<Mutant> = vec![];
    let m = |what: &'static str| MutInfo::new("descriptor", what, "");
    for p in 0..=seed.len() {
        for a in DESC_ALPHABET { out.push((vec![splice(p, 0, a)], m("insert"))); if p < seed.len() { out.push((vec![splice(p, 1, a)], m("replace"))); } }
        if p < seed.len() { out.push((vec![splice(p, 1, b"")], m("delete"))); out.push((vec![Edit::Trunc { n: p as u32 }], m("truncate"))); out.push((vec![splice(p, 0, &seed[p..])], m("duplicate_suffix"))); }
    }
    out
}

pub fn special_descs(thorough: bool) -> Vec<(&'static str, String, Vec<u8>)> {
    let mut out = vec![];
    let sizes: &[usize] = if thorough { &[0, 1, 254, 255, 256, 257, 1000, 65535, 65536, 1 << 20, (1 << 20) + 1, 1 << 24, (1 << 24) + 1] } else { &[0, 1, 254, 255, 256, 257, 1000, 65535, 65536, 1 << 20, (1 << 20) + 1] };
    for &n in sizes {
        out.push(("desc_ladder.array_dimensions", n.to_string(), format!("{}I", "[".repeat(n)).into_bytes()));
        out.push(("desc_ladder.array_dimensions_object", n.to_string(), format!("{}La;", "[".repeat(n)).into_bytes()));
        out.push(("desc_ladder.parameters", n.to_string(), format!("({})V", "I".repeat(n)).into_bytes()));
        out.push(("desc_ladder.parameters_wide", n.to_string(), format!("({})J", "J".repeat(n)).into_bytes()));
        out.push(("desc_ladder.parameters_arrays", n.to_string(), format!("({})V", "[[La;".repeat(n)).into_bytes()));
        out.push(("desc_ladder.class_name", n.to_string(), format!("L{};", "a".repeat(n)).into_bytes()));
        out.push(("desc_ladder.open_parens", n.to_string(), "(".repeat(n).into_bytes()));
        out.push(("desc_ladder.unterminated_class", n.to_string(), format!("L{}", "a/".repeat(n)).into_bytes()));
        out.push(("desc_ladder.only_L", n.to_string(), "L".repeat(n).into_bytes()));
    }
    out
}
