//! Structure-aware mutations of class files, driven by the span map of the harness' independent parser (`cf::parse`),
//! plus hand-assembled hostile classes (self-references, nesting ladders, limit values).
use crate::proto::Edit;
use cf::parse::{Role, SpanMap};
use common::Rng;

/// what a mutation is, for counters / fingerprints / violation details (never part of a signature)
#[derive(Clone, Debug)]
pub struct MutInfo { pub family: &'static str, pub role: &'static str, pub value: String }
impl MutInfo { pub fn new(family: &'static str, role: &'static str, value: impl Into<String>) -> MutInfo { MutInfo { family, role, value: value.into() } } }

pub type Mutant = (Vec<Edit>, MutInfo);

pub fn role_name(r: Role) -> &'static str {
    match r { Role::Count => "count", Role::Length => "length", Role::PoolIndex => "pool_index", Role::CodeOffset => "code_offset", Role::Tag => "tag", Role::Flags => "flags",
        Role::Utf8Len => "utf8_length", Role::Opcode => "opcode", Role::Version => "version", Role::Value => "value" }
}

fn rd(b: &[u8], off: usize, len: usize) -> u64 { let mut v = 0u64; for i in 0..len { v = v << 8 | b[off + i] as u64; } v }

// ------------------------------------------------------------------------------------------- tolerant pool walker

#[derive(Clone, Debug)]
pub struct PoolEnt { pub index: u16, pub tag: u8, pub off: usize }
#[derive(Clone, Debug, Default)]
pub struct PoolWalk { pub entries: Vec<PoolEnt>, pub end: usize }

/// Walks the constant pool without validating anything but the tags (own code; used to aim self-references and to
/// describe inputs that killed the child). `None` when the bytes do not even have a walkable pool.
pub fn walk_pool(b: &[u8]) -> Option<PoolWalk> {
    if b.len() < 10 { return None; }
    let count = rd(b, 8, 2) as u16;
    let mut p = 10usize; let mut i = 1u16; let mut out = PoolWalk::default();
    while i < count {
        let tag = *b.get(p)?;
        let size = match tag { 1 => 3 + rd(b.get(p + 1..p + 3)?, 0, 2) as usize, 3 | 4 => 5, 5 | 6 => 9, 7 | 8 | 16 | 19 | 20 => 3, 9 | 10 | 11 | 12 | 17 | 18 => 5, 15 => 4, _ => return None };
        if p + size > b.len() { return None; }
        out.entries.push(PoolEnt { index: i, tag, off: p });
        p += size; i += if tag == 5 || tag == 6 { 2 } else { 1 };
    }
    out.end = p;
    Some(out)
}

/// Independent description of a class-file input that killed the child by stack exhaustion: does the bootstrap-argument
/// graph have a cycle / how deeply are element values nested? (Own walker; best effort; used only to name the kind of input.)
pub fn describe_recursive_shape(b: &[u8]) -> &'static str {
    let Some(w) = walk_pool(b) else { return "unclassified input" };
    // --- find BootstrapMethods among the class attributes (tolerant walk over interfaces, fields, methods)
    let is_bsm_name = |idx: u16| w.entries.iter().any(|e| e.index == idx && e.tag == 1 && { let l = rd(b, e.off + 1, 2) as usize; &b[e.off + 3..e.off + 3 + l] == b"BootstrapMethods" });
    let mut table: Vec<Vec<u16>> = vec![];
    let walk = || -> Option<Vec<(u16, usize, usize)>> {
        let u16at = |p: usize| -> Option<usize> { if p + 2 <= b.len() { Some(rd(b, p, 2) as usize) } else { None } };
        let mut p = w.end + 6;
        p += 2 + 2 * u16at(p)?;
        for _ in 0..2 {
            let n = u16at(p)?; p += 2;
            for _ in 0..n { p += 6; let na = u16at(p)?; p += 2; for _ in 0..na { if p + 6 > b.len() { return None; } p += 6 + rd(b, p + 2, 4) as usize; } }
        }
        let na = u16at(p)?; p += 2; let mut out = vec![];
        for _ in 0..na { if p + 6 > b.len() { break; } let len = rd(b, p + 2, 4) as usize; out.push((rd(b, p, 2) as u16, p + 6, len)); p = p.checked_add(6 + len)?; }
        Some(out)
    };
    for (name, body, _len) in walk().unwrap_or_default() {
        if !is_bsm_name(name) || body + 2 > b.len() { continue; }
        let n = rd(b, body, 2) as usize; let mut q = body + 2; let mut t = vec![];
        for _ in 0..n {
            if q + 4 > b.len() { break; }
            let argc = rd(b, q + 2, 2) as usize; q += 4;
            if q + 2 * argc > b.len() { break; }
            t.push((0..argc).map(|k| rd(b, q + 2 * k, 2) as u16).collect::<Vec<u16>>()); q += 2 * argc;
        }
        table = t; break;
    }
    if !table.is_empty() {
        // Dynamic entry -> bsm index -> args -> Dynamic entries ...
        let dynamic: std::collections::HashMap<u16, u16> = w.entries.iter().filter(|e| e.tag == 17).map(|e| (e.index, rd(b, e.off + 1, 2) as u16)).collect();
        let mut state: std::collections::HashMap<u16, u8> = Default::default(); // 1 = on stack, 2 = done
        fn dfs(i: u16, dynamic: &std::collections::HashMap<u16, u16>, table: &[Vec<u16>], state: &mut std::collections::HashMap<u16, u8>) -> bool {
            match state.get(&i) { Some(1) => return true, Some(2) => return false, _ => {} }
            state.insert(i, 1);
            if let Some(args) = dynamic.get(&i).and_then(|b| table.get(*b as usize)) { for a in args { if dynamic.contains_key(a) && dfs(*a, dynamic, table, state) { return true; } } }
            state.insert(i, 2);
            false
        }
        let keys: Vec<u16> = dynamic.keys().copied().collect();
        for k in keys { if dfs(k, &dynamic, &table, &mut state) { return "input with a cyclic bootstrap-argument graph"; } }
    }
    // --- element_value nesting: longest run of `[ 00 01` or `@ xx xx 00 01 xx xx` patterns
    let mut best = 0usize; let mut p = w.end;
    while p + 3 <= b.len() {
        let mut q = p; let mut depth = 0usize;
        loop {
            if q + 3 <= b.len() && b[q] == b'[' && rd(b, q + 1, 2) >= 1 { q += 3; depth += 1; }
            else if q + 7 <= b.len() && b[q] == b'@' && rd(b, q + 3, 2) >= 1 { q += 7; depth += 1; }
            else { break; }
        }
        best = best.max(depth);
        p = if depth > 0 { q } else { p + 1 };
    }
    if best >= 256 { return "input with element values nested 256+ deep"; }
    "unclassified input"
}

// ------------------------------------------------------------------------------------------- span-driven enumeration

fn width_max(len: usize) -> u64 { if len >= 8 { u64::MAX } else { (1u64 << (8 * len)) - 1 } }

/// the boundary values of DESIGN C16 for a field of `len` bytes currently holding `v`
fn boundary_values(len: usize, v: u64, code_length: Option<u64>, full: bool) -> Vec<(u64, String)> {
    let max = width_max(len);
    let mut c: Vec<(u64, &str)> = vec![(0, "0"), (1, "1"), (v.wrapping_sub(1) & max, "v-1"), (v.wrapping_add(1) & max, "v+1"), (max, "max")];
    if full {
        c.extend([(0x7f, "0x7f"), (0x80, "0x80"), (0xff, "0xff"), (0x7fff, "0x7fff"), (0x8000, "0x8000"), (0xffff, "0xffff")]);
        if len == 4 { c.extend([(0x7fff_ffff, "0x7fffffff"), (0x8000_0000, "0x80000000"), (0xffff_fffe, "max-1"), (0x1000_0000, "0x10000000")]); }
        if let Some(cl) = code_length { c.extend([(cl, "code_length"), (cl.wrapping_sub(1) & max, "code_length-1"), (cl + 1, "code_length+1")]); }
    }
    let mut out: Vec<(u64, String)> = vec![];
    for (x, n) in c { if x <= max && x != v && !out.iter().any(|(y, _)| *y == x) { out.push((x, n.to_string())); } }
    out
}

const OPCODE_VALUES: [u8; 14] = [0x00, 0x10, 0x11, 0x12, 0x13, 0x84, 0xa7, 0xaa, 0xab, 0xb9, 0xba, 0xc4, 0xc8, 0xfe];

pub struct EnumCfg { pub random_edits: usize }

/// Every mutation of DESIGN C16 for one valid class file. `on_span(role)` is called once per mutated span.
pub fn enumerate(seed: &[u8], spans: &SpanMap, rng: &mut Rng, cfg: &EnumCfg, mut on_span: impl FnMut(&'static str)) -> Vec<Mutant> {
    let mut out: Vec<Mutant> = vec![];
    let pool = walk_pool(seed).unwrap_or_default();
    let code_of = |off: usize| -> Option<u64> {
        // code_length of the Code attribute that contains `off` (header included)
        spans.attrs.iter().filter(|(s, e, n)| n == "Code" && *s <= off && off < *e).map(|(s, _, _)| rd(seed, s + 10, 4)).next()
    };
    // ---- 1. every count / length / pool index / code offset / tag field set to the boundary values
    for sp in &spans.spans {
        if sp.off + sp.len > seed.len() { continue; }
        let v = rd(seed, sp.off, sp.len);
        let in_code_array = spans.code_arrays.iter().any(|(s, l)| *s <= sp.off && sp.off < s + l);
        let (role, full): (&'static str, bool) = match sp.role {
            Role::Count | Role::Length | Role::PoolIndex | Role::CodeOffset | Role::Tag | Role::Utf8Len => (role_name(sp.role), true),
            Role::Value if sp.len == 4 && in_code_array => ("switch_bound", true),
            Role::Value if sp.len == 2 && sp.off < pool.end && sp.off > 10 && matches!(seed[sp.off - 1], 17 | 18) => ("bootstrap_index", true),
            Role::Opcode => ("opcode", false),
            Role::Flags | Role::Version | Role::Value => (role_name(sp.role), false),
        };
        on_span(role);
        if sp.role == Role::Opcode {
            for o in OPCODE_VALUES { if o as u64 != v { out.push((vec![Edit::Set { off: sp.off as u32, len: 1, val: o as u64 }], MutInfo::new("set_field", role, format!("{o:#04x}")))); } }
            continue;
        }
        for (x, name) in boundary_values(sp.len, v, code_of(sp.off), full) {
            out.push((vec![Edit::Set { off: sp.off as u32, len: sp.len as u8, val: x }], MutInfo::new("set_field", role, name)));
        }
    }
    // ---- 2. truncation: every byte for small files, every span boundary otherwise
    if seed.len() < 512 {
        for n in 0..seed.len() { out.push((vec![Edit::Trunc { n: n as u32 }], MutInfo::new("truncate", "every_byte", ""))); }
    } else {
        let mut cuts: Vec<usize> = spans.spans.iter().flat_map(|s| [s.off, s.off + s.len]).chain(spans.attrs.iter().flat_map(|a| [a.0, a.1])).filter(|c| *c < seed.len()).collect();
        cuts.sort(); cuts.dedup();
        for n in cuts { out.push((vec![Edit::Trunc { n: n as u32 }], MutInfo::new("truncate", "span_boundary", ""))); }
    }
    // ---- 3. self-references inside the pool: every index field of an entry set to the entry's own index
    for e in &pool.entries {
        let fields: &[usize] = match e.tag { 7 | 8 | 16 | 19 | 20 => &[1], 9 | 10 | 11 | 12 => &[1, 3], 15 => &[2], 17 | 18 => &[3], _ => &[] };
        for f in fields { out.push((vec![Edit::Set { off: (e.off + f) as u32, len: 2, val: e.index as u64 }], MutInfo::new("self_reference", "pool_entry_own_index", format!("tag{}", e.tag)))); }
    }
    // ---- 4. self-references through BootstrapMethods: every argument slot := every Dynamic / InvokeDynamic entry, and handle := those too
    let dynamics: Vec<u16> = pool.entries.iter().filter(|e| e.tag == 17 || e.tag == 18).map(|e| e.index).collect();
    for (s, e, n) in &spans.attrs {
        if n != "BootstrapMethods" || *e > seed.len() { continue; }
        let body = s + 6; let cnt = rd(seed, body, 2) as usize; let mut q = body + 2;
        for _ in 0..cnt {
            if q + 4 > *e { break; }
            let argc = rd(seed, q + 2, 2) as usize;
            for k in 0..argc {
                let at = q + 4 + 2 * k; if at + 2 > *e { break; }
                for d in dynamics.iter().take(6) { out.push((vec![Edit::Set { off: at as u32, len: 2, val: *d as u64 }], MutInfo::new("self_reference", "bootstrap_argument", "dynamic entry"))); }
            }
            if argc == 0 && !dynamics.is_empty() {
                // give the method one argument that is a dynamic constant: bump the count, insert the slot, grow the attribute length
                let len = rd(seed, s + 2, 4);
                out.push((vec![Edit::Set { off: (q + 2) as u32, len: 2, val: 1 }, Edit::Set { off: (s + 2) as u32, len: 4, val: len + 2 }, Edit::Splice { off: (q + 4) as u32, del: 0, ins: dynamics[0].to_be_bytes().to_vec() }],
                    MutInfo::new("self_reference", "bootstrap_argument", "inserted dynamic entry")));
            }
            q += 4 + 2 * argc;
        }
    }
    // ---- 5. duplicated attributes (count of the owning table and the lengths of enclosing attributes adjusted)
    for (i, (s, e, n)) in spans.attrs.iter().enumerate() {
        if *e > seed.len() { continue; }
        // head of the attribute table this attribute belongs to: walk back over attributes that end where this one starts
        let mut head = *s;
        let parent = enclosing(&spans.attrs, *s);
        while let Some((s2, _, _)) = spans.attrs.iter().find(|(s2, e2, _)| *e2 == head && *s2 < head && enclosing(&spans.attrs, *s2) == parent) { head = *s2; }
        if head < 2 { continue; }
        let count_off = head - 2;
        let cnt = rd(seed, count_off, 2);
        let mut edits = vec![Edit::Set { off: count_off as u32, len: 2, val: (cnt + 1) & 0xffff }];
        for (j, (s2, e2, _)) in spans.attrs.iter().enumerate() { if j != i && *s2 < *s && *e <= *e2 { let l = rd(seed, s2 + 2, 4); edits.push(Edit::Set { off: (*s2 + 2) as u32, len: 4, val: (l + (e - s) as u64) & 0xffff_ffff }); } }
        edits.push(Edit::Splice { off: *e as u32, del: 0, ins: seed[*s..*e].to_vec() });
        out.push((edits, MutInfo::new("duplicate_attribute", "attribute", n.clone())));
    }
    // ---- 6. swapped attribute names: the name index of every attribute := the name index of every other attribute name in the file
    let mut names: Vec<(String, u16)> = vec![];
    for (s, _, n) in &spans.attrs { let idx = rd(seed, *s, 2) as u16; if !names.iter().any(|(m, _)| m == n) { names.push((n.clone(), idx)); } }
    // ... and of every attribute name the pool happens to hold as Utf8 (unused ones included)
    for e in &pool.entries { if e.tag == 1 { let l = rd(seed, e.off + 1, 2) as usize; if let Ok(t) = std::str::from_utf8(&seed[e.off + 3..e.off + 3 + l]) { if ATTR_NAMES.contains(&t) && !names.iter().any(|(m, _)| m == t) { names.push((t.to_string(), e.index)); } } } }
    for (s, _, n) in &spans.attrs {
        for (m, idx) in &names { if m != n { out.push((vec![Edit::Set { off: *s as u32, len: 2, val: *idx as u64 }], MutInfo::new("swap_attribute_name", "attribute", format!("{n}->{m}")))); } }
    }
    // ---- 7. random byte flips / inserts / deletes
    for k in 0..cfg.random_edits {
        if seed.is_empty() { break; }
        let pos = rng.below(seed.len());
        let (e, what) = match k % 4 {
            0 => (Edit::Set { off: pos as u32, len: 1, val: (seed[pos] ^ (1 << rng.below(8))) as u64 }, "bit_flip"),
            1 => (Edit::Set { off: pos as u32, len: 1, val: rng.below(256) as u64 }, "byte_set"),
            2 => (Edit::Splice { off: pos as u32, del: 0, ins: (0..1 + rng.below(4)).map(|_| rng.below(256) as u8).collect() }, "insert"),
            _ => (Edit::Splice { off: pos as u32, del: 1 + rng.below(4) as u32, ins: vec![] }, "delete"),
        };
        out.push((vec![e], MutInfo::new("random_edit", what, "")));
    }
    out
}

fn enclosing(attrs: &[(usize, usize, String)], s: usize) -> Option<usize> { attrs.iter().filter(|(s2, e2, _)| *s2 < s && s < *e2).map(|(s2, _, _)| *s2).max() }

pub const ATTR_NAMES: [&str; 30] = ["ConstantValue", "Code", "StackMapTable", "StackMap", "Exceptions", "InnerClasses", "EnclosingMethod", "Synthetic", "Signature", "SourceFile",
    "SourceDebugExtension", "LineNumberTable", "LocalVariableTable", "LocalVariableTypeTable", "Deprecated", "RuntimeVisibleAnnotations", "RuntimeInvisibleAnnotations",
    "RuntimeVisibleParameterAnnotations", "RuntimeInvisibleParameterAnnotations", "RuntimeVisibleTypeAnnotations", "RuntimeInvisibleTypeAnnotations", "AnnotationDefault",
    "BootstrapMethods", "MethodParameters", "Module", "ModulePackages", "ModuleMainClass", "NestHost", "NestMembers", "Record"];

// ------------------------------------------------------------------------------------------- hand-assembled classes

/// A tiny class-file assembler (own code, no validation at all: it has to be able to produce ill-formed files).
#[derive(Default, Clone)]
pub struct Asm { pool: Vec<u8>, next: u16, utf8: Vec<(Vec<u8>, u16)> }
fn p16(o: &mut Vec<u8>, v: u16) { o.extend_from_slice(&v.to_be_bytes()); }
fn p32(o: &mut Vec<u8>, v: u32) { o.extend_from_slice(&v.to_be_bytes()); }
impl Asm {
    pub fn new() -> Asm { Asm { pool: vec![], next: 1, utf8: vec![] } }
    fn add(&mut self, bytes: &[u8], slots: u16) -> u16 { let i = self.next; self.pool.extend_from_slice(bytes); self.next += slots; i }
    pub fn utf8(&mut self, s: &str) -> u16 {
        if let Some((_, i)) = self.utf8.iter().find(|(b, _)| b == s.as_bytes()) { return *i; }
        let mut e = vec![1]; p16(&mut e, s.len() as u16); e.extend_from_slice(s.as_bytes());
        let i = self.add(&e, 1); self.utf8.push((s.as_bytes().to_vec(), i)); i
    }
    pub fn class(&mut self, name: &str) -> u16 { let n = self.utf8(name); let mut e = vec![7]; p16(&mut e, n); self.add(&e, 1) }
    pub fn int(&mut self, v: i32) -> u16 { let mut e = vec![3]; e.extend_from_slice(&v.to_be_bytes()); self.add(&e, 1) }
    pub fn nat(&mut self, name: &str, desc: &str) -> u16 { let (n, d) = (self.utf8(name), self.utf8(desc)); let mut e = vec![12]; p16(&mut e, n); p16(&mut e, d); self.add(&e, 1) }
    pub fn member(&mut self, tag: u8, owner: &str, name: &str, desc: &str) -> u16 { let c = self.class(owner); let nt = self.nat(name, desc); let mut e = vec![tag]; p16(&mut e, c); p16(&mut e, nt); self.add(&e, 1) }
    pub fn handle(&mut self, kind: u8, reference: u16) -> u16 { let mut e = vec![15, kind]; p16(&mut e, reference); self.add(&e, 1) }
    pub fn dynamic(&mut self, tag: u8, bsm: u16, name: &str, desc: &str) -> u16 { let nt = self.nat(name, desc); let mut e = vec![tag]; p16(&mut e, bsm); p16(&mut e, nt); self.add(&e, 1) }
    pub fn attr(&mut self, name: &str, body: &[u8]) -> Vec<u8> { let n = self.utf8(name); let mut o = vec![]; p16(&mut o, n); p32(&mut o, body.len() as u32); o.extend_from_slice(body); o }
    pub fn attr_with_length(&mut self, name: &str, length: u32, body: &[u8]) -> Vec<u8> { let n = self.utf8(name); let mut o = vec![]; p16(&mut o, n); p32(&mut o, length); o.extend_from_slice(body); o }
    pub fn code_attr(&mut self, code: &[u8], exceptions: &[u8], n_exc: u16, attrs: &[Vec<u8>]) -> Vec<u8> {
        let mut b = vec![]; p16(&mut b, 4); p16(&mut b, 4); p32(&mut b, code.len() as u32); b.extend_from_slice(code); p16(&mut b, n_exc); b.extend_from_slice(exceptions);
        p16(&mut b, attrs.len() as u16); for a in attrs { b.extend_from_slice(a); }
        self.attr("Code", &b)
    }
    pub fn method(&mut self, access: u16, name: &str, desc: &str, attrs: &[Vec<u8>]) -> Vec<u8> {
        let (n, d) = (self.utf8(name), self.utf8(desc)); let mut o = vec![]; p16(&mut o, access); p16(&mut o, n); p16(&mut o, d); p16(&mut o, attrs.len() as u16); for a in attrs { o.extend_from_slice(a); } o
    }
    pub fn finish(mut self, major: u16, access: u16, fields: &[Vec<u8>], methods: &[Vec<u8>], attrs: &[Vec<u8>]) -> Vec<u8> {
        let this = self.class("A"); let sup = self.class("java/lang/Object");
        let mut o = vec![0xca, 0xfe, 0xba, 0xbe]; p16(&mut o, 0); p16(&mut o, major); p16(&mut o, self.next); o.extend_from_slice(&self.pool);
        p16(&mut o, access); p16(&mut o, this); p16(&mut o, sup); p16(&mut o, 0);
        p16(&mut o, fields.len() as u16); for f in fields { o.extend_from_slice(f); }
        p16(&mut o, methods.len() as u16); for m in methods { o.extend_from_slice(m); }
        p16(&mut o, attrs.len() as u16); for a in attrs { o.extend_from_slice(a); }
        o
    }
}

/// (name of the family, parameter, bytes)
pub type Special = (&'static str, String, Vec<u8>);

fn bootstrap_attr(a: &mut Asm, methods: &[(u16, Vec<u16>)]) -> Vec<u8> {
    let mut b = vec![]; p16(&mut b, methods.len() as u16);
    for (h, args) in methods { p16(&mut b, *h); p16(&mut b, args.len() as u16); for x in args { p16(&mut b, *x); } }
    a.attr("BootstrapMethods", &b)
}

/// element_value ladder: `depth` levels of `[`(count 1) or `@`(one pair) around an int constant
fn ladder_value(kind: u8, depth: usize, type_idx: u16, name_idx: u16, int_idx: u16) -> Vec<u8> {
    let mut v = Vec::with_capacity(depth * 7 + 3);
    for _ in 0..depth { if kind == b'[' { v.push(b'['); p16(&mut v, 1); } else { v.push(b'@'); p16(&mut v, type_idx); p16(&mut v, 1); p16(&mut v, name_idx); } }
    v.push(b'I'); p16(&mut v, int_idx);
    v
}

pub fn annotation_ladder(kind: u8, depth: usize, attr: &str) -> Vec<u8> {
    let mut a = Asm::new();
    let (t, n, i) = (a.utf8("LAnn;"), a.utf8("v"), a.int(7));
    let val = ladder_value(kind, depth, t, n, i);
    match attr {
        "AnnotationDefault" => { let ad = a.attr("AnnotationDefault", &val); let m = a.method(0x0401, "v", "()I", &[ad]); a.finish(52, 0x2601, &[], &[m], &[]) }
        _ => {
            let mut body = vec![]; p16(&mut body, 1); p16(&mut body, t); p16(&mut body, 1); p16(&mut body, n); body.extend_from_slice(&val);
            let at = a.attr(attr, &body); a.finish(52, 0x0021, &[], &[], &[at])
        }
    }
}

/// ldc of a dynamic constant whose bootstrap arguments lead back to it through `cycle_len` constants (1 = its own argument)
pub fn condy_cycle(cycle_len: usize, via_indy: bool) -> Vec<u8> {
    let mut a = Asm::new();
    let bsm_ref = a.member(10, "B", "bsm", "(Ljava/lang/invoke/MethodHandles$Lookup;Ljava/lang/String;Ljava/lang/Class;Ljava/lang/Object;)Ljava/lang/Object;");
    let h = a.handle(6, bsm_ref);
    let mut dyns = vec![];
    for k in 0..cycle_len { dyns.push(a.dynamic(17, k as u16, &format!("c{k}"), "Ljava/lang/Object;")); }
    let mut table: Vec<(u16, Vec<u16>)> = (0..cycle_len).map(|k| (h, vec![dyns[(k + 1) % cycle_len]])).collect();
    let code: Vec<u8> = if via_indy {
        let indy = a.dynamic(18, cycle_len as u16, "call", "()V");
        table.push((h, vec![dyns[0]]));
        let mut c = vec![0xba]; p16(&mut c, indy); c.extend_from_slice(&[0, 0, 0xb1]); c
    } else { let mut c = vec![0x13]; p16(&mut c, dyns[0]); c.extend_from_slice(&[0x57, 0xb1]); c };
    let ca = a.code_attr(&code, &[], 0, &[]);
    let m = a.method(0x0009, "m", "()V", &[ca]);
    let bs = bootstrap_attr(&mut a, &table);
    a.finish(55, 0x0021, &[], &[m], &[bs])
}

/// one method whose code is `code`, with extra Code-level attributes built by `f`
fn code_class(major: u16, code: &[u8], f: impl FnOnce(&mut Asm) -> Vec<Vec<u8>>) -> Vec<u8> {
    let mut a = Asm::new();
    let attrs = f(&mut a);
    let ca = a.code_attr(code, &[], 0, &attrs);
    let m = a.method(0x0009, "m", "()V", &[ca]);
    a.finish(major, 0x0021, &[], &[m], &[])
}

fn switch_code(table: bool, a_: i32, b_: i32, entries: usize) -> Vec<u8> {
    // iconst_0, switch at pc 1 (padding 2), default -> the return after it
    let mut c = vec![0x03, if table { 0xaa } else { 0xab }, 0, 0];
    let body_len = 4 + 8 + if table { 4 * entries } else { 8 * entries };
    let ret_pc = (4 + body_len) as i32; let default = ret_pc - 1;
    c.extend_from_slice(&default.to_be_bytes());
    if table { c.extend_from_slice(&a_.to_be_bytes()); c.extend_from_slice(&b_.to_be_bytes()); for _ in 0..entries { c.extend_from_slice(&default.to_be_bytes()); } }
    else { c.extend_from_slice(&a_.to_be_bytes()); for k in 0..entries { c.extend_from_slice(&(k as i32).to_be_bytes()); c.extend_from_slice(&default.to_be_bytes()); } let _ = b_; }
    c.push(0xb1);
    c
}

pub fn specials(thorough: bool) -> Vec<Special> {
    let mut out: Vec<Special> = vec![];
    // ---- nesting ladders (annotation arrays / nested annotations) up to what a 4 MB attribute can hold
    let depths: &[usize] = if thorough { &[1, 16, 256, 1024, 4096, 16384, 65536, 262144, 1 << 20] } else { &[1, 16, 256, 1024, 4096, 16384, 65536, 262144] };
    for &d in depths {
        out.push(("ladder.annotation_array", d.to_string(), annotation_ladder(b'[', d, "RuntimeVisibleAnnotations")));
        out.push(("ladder.annotation_nested", d.to_string(), annotation_ladder(b'@', d, "RuntimeInvisibleAnnotations")));
        out.push(("ladder.annotation_default_array", d.to_string(), annotation_ladder(b'[', d, "AnnotationDefault")));
    }
    // ---- bootstrap self-references
    for n in [1usize, 2, 5] { out.push(("self_reference.condy_cycle_ldc", n.to_string(), condy_cycle(n, false))); out.push(("self_reference.condy_cycle_indy", n.to_string(), condy_cycle(n, true))); }
    // ---- limit values in code
    out.push(("limit.tableswitch_full_int_range", "low=MIN high=MAX".into(), code_class(50, &switch_code(true, i32::MIN, i32::MAX, 1), |_| vec![])));
    out.push(("limit.tableswitch_full_int_range", "low=-1 high=MAX".into(), code_class(50, &switch_code(true, -1, i32::MAX, 1), |_| vec![])));
    out.push(("limit.tableswitch_full_int_range", "low=0 high=MAX".into(), code_class(50, &switch_code(true, 0, i32::MAX, 1), |_| vec![])));
    out.push(("limit.tableswitch_huge", "low=0 high=0x7ffffffe".into(), code_class(50, &switch_code(true, 0, 0x7fff_fffe, 1), |_| vec![])));
    out.push(("limit.tableswitch_huge", "low=0 high=0x0fffffff".into(), code_class(50, &switch_code(true, 0, 0x0fff_ffff, 1), |_| vec![])));
    out.push(("limit.lookupswitch_huge", "npairs=0x7fffffff".into(), code_class(50, &switch_code(false, 0x7fff_ffff, 0, 1), |_| vec![])));
    out.push(("limit.lookupswitch_huge", "npairs=0x08000000".into(), code_class(50, &switch_code(false, 0x0800_0000, 0, 1), |_| vec![])));
    out.push(("limit.tableswitch_valid", "3 entries".into(), code_class(50, &switch_code(true, 5, 7, 3), |_| vec![])));
    // consistent tables at the ends of the int range (javac writes `case Integer.MAX_VALUE`): the reader accepts them, so the writer must cope
    for (low, high) in [(i32::MAX - 2, i32::MAX), (i32::MAX, i32::MAX), (i32::MIN, i32::MIN + 2), (i32::MIN, i32::MIN), (-1, 1), (i32::MAX - 1, i32::MAX)] {
        out.push(("limit.tableswitch_valid_at_int_range_end", format!("low={low} high={high}"), code_class(50, &switch_code(true, low, high, (high as i64 - low as i64 + 1) as usize), |_| vec![])));
    }
    // last instruction cut short: sipush / goto_w / wide iinc / invokeinterface as the last byte(s) of the code array
    for (name, tail) in [("sipush", vec![0x11u8]), ("sipush+1", vec![0x11, 0]), ("ldc", vec![0x12]), ("goto_w", vec![0xc8, 0, 0]), ("wide", vec![0xc4]), ("wide_iinc", vec![0xc4, 0x84, 0, 1]),
        ("invokeinterface", vec![0xb9, 0, 1]), ("multianewarray", vec![0xc5, 0]), ("tableswitch", vec![0xaa]), ("lookupswitch", vec![0xab, 0, 0, 0, 0, 0]), ("ifeq", vec![0x99, 0])] {
        let mut c = vec![0x00, 0x00]; c.extend_from_slice(&tail);
        out.push(("limit.last_instruction_cut_short", name.into(), code_class(50, &c, |_| vec![])));
    }
    // local variable range ending past 65535; at exactly code_length; start == code_length
    for (s, l) in [(1u16, 65535u16), (0, 65535), (65535, 1), (2, 1), (3, 0), (0, 4)] {
        let code = [0x00, 0x00, 0xb1];
        out.push(("limit.local_variable_range", format!("start={s} length={l}"), code_class(50, &code, |a| { let (n, d) = (a.utf8("x"), a.utf8("I")); let mut b = vec![]; p16(&mut b, 1); p16(&mut b, s); p16(&mut b, l); p16(&mut b, n); p16(&mut b, d); p16(&mut b, 0); vec![a.attr("LocalVariableTable", &b)] })));
        out.push(("limit.local_variable_type_range", format!("start={s} length={l}"), code_class(50, &code, |a| { let (n, d) = (a.utf8("x"), a.utf8("TT;")); let mut b = vec![]; p16(&mut b, 1); p16(&mut b, s); p16(&mut b, l); p16(&mut b, n); p16(&mut b, d); p16(&mut b, 0); vec![a.attr("LocalVariableTypeTable", &b)] })));
    }
    // stack map offset sums
    for (d0, d1) in [(0u16, 65535u16), (0, 65534), (1, 65535), (0, 1), (0, 2)] {
        let code = [0x00, 0x00, 0x00, 0xb1];
        out.push(("limit.stack_map_offset_sum", format!("delta0={d0} delta1={d1}"), code_class(52, &code, |a| { let mut b = vec![]; p16(&mut b, 2); b.push(251); p16(&mut b, d0); b.push(251); p16(&mut b, d1); vec![a.attr("StackMapTable", &b)] })));
    }
    out.push(("limit.stack_map_offset_sum", "three same frames 63,63,63".into(), code_class(52, &[0x00; 200], |a| { let mut b = vec![]; p16(&mut b, 3); b.extend_from_slice(&[63, 63, 63]); vec![a.attr("StackMapTable", &b)] })));
    // 65536 labels: 65535 nops/return, a line number at every pc, a local variable ending at code_length
    {
        let mut code = vec![0u8; 65535]; code[65534] = 0xb1;
        out.push(("limit.label_count", "65536 labels".into(), code_class(50, &code, |a| {
            let mut ln = Vec::with_capacity(2 + 4 * 65535); p16(&mut ln, 65535); for pc in 0..65535u32 { p16(&mut ln, pc as u16); p16(&mut ln, 1); }
            let (n, d) = (a.utf8("x"), a.utf8("I")); let mut lv = vec![]; p16(&mut lv, 1); p16(&mut lv, 0); p16(&mut lv, 65535); p16(&mut lv, n); p16(&mut lv, d); p16(&mut lv, 0);
            vec![a.attr("LineNumberTable", &ln), a.attr("LocalVariableTable", &lv)] })));
        out.push(("limit.label_count", "65535 labels".into(), code_class(50, &code, |a| {
            let mut ln = Vec::with_capacity(2 + 4 * 65535); p16(&mut ln, 65535); for pc in 0..65535u32 { p16(&mut ln, pc as u16); p16(&mut ln, 1); }
            vec![a.attr("LineNumberTable", &ln)] })));
    }
    // attribute_length far beyond the input
    for len in [0xffff_ffffu32, 0x7fff_ffff, 0x4000_0000, 0x0400_0000, 0x0010_0000] {
        { let mut a = Asm::new(); let at = a.attr_with_length("Unknown", len, &[1, 2, 3]); out.push(("limit.attribute_length", format!("unknown class attribute {len:#x}"), a.finish(50, 0x21, &[], &[], &[at]))); }
        { let mut a = Asm::new(); let at = a.attr_with_length("SourceDebugExtension", len, b"abc"); out.push(("limit.attribute_length", format!("SourceDebugExtension {len:#x}"), a.finish(50, 0x21, &[], &[], &[at]))); }
        { let mut a = Asm::new(); let at = a.attr_with_length("Unknown", len, &[1, 2, 3]); let m = a.method(1, "m", "()V", &[at]); out.push(("limit.attribute_length", format!("unknown method attribute {len:#x}"), a.finish(50, 0x21, &[], &[m], &[]))); }
        out.push(("limit.attribute_length", format!("unknown code attribute {len:#x}"), code_class(50, &[0xb1], |a| vec![a.attr_with_length("Unknown", len, &[1, 2, 3])])));
    }
    // counts far beyond the input
    { let mut a = Asm::new(); let at = a.attr("InnerClasses", &[0xff, 0xff]); out.push(("limit.count", "InnerClasses 65535 entries, no data".into(), a.finish(50, 0x21, &[], &[], &[at]))); }
    { let mut a = Asm::new(); let at = a.attr("BootstrapMethods", &[0xff, 0xff]); out.push(("limit.count", "BootstrapMethods 65535 entries, no data".into(), a.finish(50, 0x21, &[], &[], &[at]))); }
    // writer: invokeinterface whose descriptor needs more than 255 argument slots
    for (what, desc) in [("255 slots", format!("({})V", "J".repeat(127))), ("257 slots", format!("({})V", "J".repeat(128))), ("256 slots", format!("({}I)V", "J".repeat(127))), ("300 ints", format!("({})V", "I".repeat(300)))] {
        let mut a = Asm::new();
        let r = a.member(11, "I", "call", &desc);
        let mut c = vec![0x01, 0xb9]; p16(&mut c, r); c.extend_from_slice(&[1, 0, 0xb1]);
        let ca = a.code_attr(&c, &[], 0, &[]); let m = a.method(9, "m", "()V", &[ca]);
        out.push(("limit.invokeinterface_argument_slots", what.into(), a.finish(50, 0x21, &[], &[m], &[])));
    }
    out
}
