//! C16 — parsers fail with an error, never crash, on arbitrary input (fault enumeration).
//!
//! Real code: duke::read_class (+ duke::write_class on what it accepts), quill::tiny_v2::read, quill::tiny_v2_diff::read_file,
//! quill::enigma_file::read_into, dukenest Nests::read, the three descriptor parse() functions — all called in a SANDBOXED
//! CHILD PROCESS (same binary, `--child`) with address-space and stack limits.
//! Oracle: process-level only — the child's event log (BEGIN / END outcome peak_alloc per input), its exit status, and the
//! counting allocator. No expectation about *what* a parser returns is involved.
mod child;
mod classmut;
mod proto;
mod sandbox;
mod textmut;

use classmut::{MutInfo, Mutant};
use common::{par::*, report::{finish, Meta}, *};
use proto::*;
use sandbox::{Limits, Outcome, Sandbox, Stats};
use std::collections::{BTreeMap, HashMap};
use std::sync::Mutex;
use textmut::Fmt;

#[global_allocator]
static ALLOC: common::alloc_mon::Counting = common::alloc_mon::Counting;

const PROP: &str = "C16";
/// Peak live heap allowed for one input: 16 MiB + 256 x input length. (DESIGN.md says 64 x; a `Vec` of 32-byte elements built from
/// 1-byte tokens holds old + new buffer = 96 bytes per input byte while it grows, so 64 x would flag a perfectly linear parser.)
fn budget(len: usize) -> u64 { (16u64 << 20) + 256 * len as u64 }

// ------------------------------------------------------------------------------------------------ shared state

#[derive(Clone)]
struct Example { key: (usize, String, u64, usize), detail: Value }

#[derive(Default)]
struct Shared {
    /// smallest input seen per signature (ties: workload, case, index) — becomes the replay file
    examples: Mutex<BTreeMap<String, Example>>,
    src_lines: Mutex<HashMap<(String, u32), String>>,
    stats: Mutex<Stats>,
    repo: String,
}

/// path of a panic location relative to the repository root (the literal is assembled at run time: tools/with_mutant.sh
/// rewrites every occurrence of the repository path in the harness sources)
fn rel_file(file: &str) -> String {
    if let Some(p) = file.find("/registry/src/") { let rest = &file[p + 14..]; return format!("dep:{}", rest.split_once('/').map(|x| x.1).unwrap_or(rest)); }
    if let Some(p) = file.find("/library/") { if file.starts_with("/rustc/") { return format!("std:{}", &file[p + 1..]); } }
    let root = std::env::var("VERIF_REPO").unwrap_or_else(|_| ["/", "repo"].concat());
    if let Some(rest) = file.strip_prefix(&format!("{}/", root.trim_end_matches('/'))) { return rest.to_string(); }
    let marker = ["/", "repo", "/"].concat();
    if let Some(p) = file.rfind(&marker) { return file[p + marker.len()..].to_string(); }
    file.to_string()
}

impl Shared {
    /// the trimmed source line of a panic location inside the repository (identifies the site without its line number)
    fn src_line(&self, file: &str, line: u32) -> String {
        let rel = rel_file(file);
        if rel.starts_with("dep:") || rel.starts_with("std:") || line == 0 { return String::new(); }
        let key = (rel.clone(), line);
        if let Some(s) = self.src_lines.lock().unwrap().get(&key) { return s.clone(); }
        let text = std::fs::read_to_string(format!("{}/{}", self.repo, rel)).unwrap_or_default();
        let s: String = text.lines().nth(line as usize - 1).unwrap_or("").trim().chars().take(90).collect();
        self.src_lines.lock().unwrap().insert(key, s.clone());
        s
    }
    fn panic_site(&self, file: &str, line: u32, message: &str) -> String {
        let p = PanicInfo { file: file.to_string(), line, message: message.to_string() };
        let src = self.src_line(file, line);
        if src.is_empty() { format!("{}: {}", rel_file(file), p.template()) } else { format!("{}: {} @ `{}`", rel_file(file), p.template(), src) }
    }
}

/// Deliberately coarse: the allocation counter cannot name the requesting site, and finer classes would split one defect
/// (a length field trusted for a pre-allocation) over many signatures. The measured numbers are in the violation detail.
fn size_class(len: usize) -> &'static str { if len < 1 << 20 { "under 1 MiB" } else { "of 1 MiB or more" } }
fn alloc_class(_bytes: u64) -> &'static str { "over the linear budget" }

fn template(msg: &str) -> String {
    let mut out = String::new(); let mut in_q = false; let mut in_num = false;
    for c in msg.chars() {
        if c == '"' { in_q = !in_q; if in_q { out.push_str("\"..\""); } continue; }
        if in_q { continue; }
        if c.is_ascii_digit() { if !in_num { out.push('#'); in_num = true; } continue; }
        in_num = false; out.push(c);
    }
    out.chars().take(44).collect()
}

// ------------------------------------------------------------------------------------------------ the oracle

struct Item<'a> { parser: Parser, aux: u8, seed: &'a [u8], edits: &'a [Edit], info: &'a MutInfo, source: &'a str, index: usize, recipe: Option<Value> }

/// Decides one observed outcome. Everything here is process-level: outcome code, exit status, allocation counter.
fn judge(rep: &mut Report, sh: &Shared, it: &Item, out: &Outcome) {
    let len = len_after(it.seed.len(), it.edits);
    let p = it.parser.name();
    let mut sigs: Vec<(String, Value)> = vec![];
    let phase_code = |rep: &mut Report, who: &str, ph: &Phase, sigs: &mut Vec<(String, Value)>| -> &'static str {
        match ph {
            Phase::Ok => "ok",
            Phase::Err(m) => { if rep.seen_n(&format!("error_templates.{who}")) < 300 { rep.seen(&format!("error_templates.{who}"), &template(m)); } "err" }
            Phase::Panic { file, line, message } => {
                let site = sh.panic_site(file, *line, message);
                rep.seen("panic_sites", &format!("{who}: {site}"));
                sigs.push((format!("{PROP} {who}: panic {site}"), json!({"panic_message": message, "at": format!("{}:{}", rel_file(file), line)})));
                "panic"
            }
        }
    };
    let code: String;
    match out {
        Outcome::Done(d) => {
            let c = phase_code(rep, p, &d.read, &mut sigs);
            rep.count(&format!("outcome.{p}.{c}"));
            let mut cs = c.to_string();
            if let Phase::Err(m) = &d.read { cs.push(':'); cs.push_str(&template(m)); }
            if d.peak > budget(len) {
                rep.count(&format!("outcome.{p}.over_allocation_budget"));
                sigs.push((format!("{PROP} {p}: allocation {} for input {}", alloc_class(d.peak), size_class(len)), json!({"peak_live_bytes": d.peak, "largest_request": d.largest, "budget": budget(len)})));
            }
            rep.max(&format!("max.peak_bytes.{p}"), d.peak);
            rep.max(&format!("max.peak_permille_of_budget.{p}"), d.peak * 1000 / budget(len));
            rep.max(&format!("max.duration_us.{p}"), d.dur_us);
            if let Some((w, wpeak)) = &d.write {
                let wc = phase_code(rep, "write_class", w, &mut sigs);
                rep.count(&format!("outcome.write_class.{wc}"));
                rep.count("inputs.write_class");
                rep.max("max.peak_bytes.write_class", *wpeak);
                cs.push_str("/w:"); cs.push_str(wc);
            }
            code = cs;
        }
        Outcome::Died { signal, exit, what, in_write, stderr } => {
            let who = if *in_write { "write_class" } else { p };
            rep.count(&format!("outcome.{who}.signal"));
            let mut what = what.clone();
            if what == "stack overflow" {
                let bytes = apply(it.seed, it.edits);
                let shape = match it.parser {
                    Parser::ReadClass => classmut::describe_recursive_shape(&bytes),
                    Parser::Enigma | Parser::TinyV2 | Parser::TinyDiff => { let deep = bytes.split(|c| *c == b'\n').map(|l| l.iter().take_while(|c| **c == b'\t').count()).max().unwrap_or(0); if deep >= 256 { "input indented 256+ deep" } else { "unclassified input" } }
                    _ => "unclassified input",
                };
                what = format!("stack overflow; {shape}");
            }
            if what == "allocation failure" {
                let n: u64 = stderr.split("memory allocation of ").nth(1).and_then(|s| s.split(' ').next()).and_then(|s| s.parse().ok()).unwrap_or(0);
                what = format!("allocation failure; request of {} for input {}", if n >= 1 << 30 { "1 GiB or more" } else { "less than 1 GiB" }, size_class(len));
            }
            let sig = match (signal, exit) { (Some(s), _) => format!("{PROP} {who}: killed by signal {s} ({what})"), (None, Some(c)) => format!("{PROP} {who}: process exit status {c} ({what})"), _ => format!("{PROP} {who}: died ({what})") };
            sigs.push((sig, json!({"stderr": stderr.chars().take(300).collect::<String>()})));
            code = format!("signal:{what}");
        }
        Outcome::Hang { in_write } => {
            let who = if *in_write { "write_class" } else { p };
            rep.count(&format!("outcome.{who}.timeout"));
            sigs.push((format!("{PROP} {who}: hang"), json!({"rule": "no progress within the stall budget in the batch and in three isolated re-runs with 10x the budget"})));
            code = "hang".into();
        }
        Outcome::HangUnclear { in_write } => {
            let who = if *in_write { "write_class" } else { p };
            rep.count(&format!("outcome.{who}.timeout_unresolved"));
            rep.count("unresolved_suspected_hangs");
            rep.note(format!("suspected hang of {who} not confirmed by the isolated re-runs (input of {len} bytes from {})", it.source));
            code = "hang?".into();
        }
    }
    if it.info.family == "special" && ["ladder.", "self_reference.", "limit."].iter().any(|x| it.info.role.starts_with(x)) { rep.seen("special_outcomes", &format!("{} [{}] {p}: {}", it.info.role, it.info.value, code.chars().take(90).collect::<String>())); }
    rep.eval();
    rep.count(&format!("inputs.{p}"));
    rep.count(&format!("mutations.{}.{}", it.info.family, it.info.role));
    // non-trivial: a mutated input (not the seed as is); distinct by parser x mutation family/role/value x outcome (+ error template)
    if !it.edits.is_empty() || it.recipe.is_some() {
        rep.nontrivial(common::rng::fnv_str(&format!("{p}|{}|{}|{}|{code}", it.info.family, it.info.role, if it.info.family == "set_field" { it.info.value.as_str() } else { "" })));
    }
    for (sig, extra) in sigs {
        let key = (len, rep.cur.0.clone(), rep.cur.1, it.index);
        let mut ex = sh.examples.lock().unwrap();
        let better = match ex.get(&sig) { None => true, Some(e) => key < e.key };
        if better {
            let mut d = json!({"parser": p, "aux": it.aux, "input_len": len, "seed": it.source, "mutation": {"family": it.info.family, "role": it.info.role, "value": it.info.value}, "observed": extra});
            if len <= 128 << 10 { d["input_hex"] = json!(cf::model::hex(&apply(it.seed, it.edits))); }
            if let Some(r) = &it.recipe { d["input_recipe"] = r.clone(); }
            if it.parser != Parser::ReadClass && len <= 4096 { d["input_text"] = json!(String::from_utf8_lossy(&apply(it.seed, it.edits))); }
            ex.insert(sig.clone(), Example { key, detail: d });
        }
        drop(ex);
        rep.violation(sig, Value::Null);
    }
    if rep.want_sample() && !it.edits.is_empty() && len < 400 && (it.index % 97 == 13) {
        rep.sample(|| json!({"parser": p, "seed": it.source, "mutation": {"family": it.info.family, "role": it.info.role, "value": it.info.value}, "input_hex": cf::model::hex(&apply(it.seed, it.edits)), "outcome": code}));
    }
}

fn harness_error(msg: &str) -> ! { println!("HARNESS-ERROR {msg}"); eprintln!("HARNESS-ERROR {msg}"); std::process::exit(3) }

struct Job { parser: Parser, aux: u8, seed: u32, edits: Vec<Edit>, info: MutInfo, recipe: Option<Value> }

/// runs the jobs through the sandbox (in chunks) and judges every outcome
fn run_jobs(sb: &Sandbox, rep: &mut Report, sh: &Shared, seeds: Vec<Vec<u8>>, jobs: Vec<Job>, source: &str) {
    const CHUNK: usize = 25_000;
    let mut base = 0usize;
    let mut jobs = jobs;
    while !jobs.is_empty() {
        let rest = if jobs.len() > CHUNK { jobs.split_off(CHUNK) } else { vec![] };
        let batch = Batch { seeds: seeds.clone(), inputs: jobs.iter().map(|j| Input { parser: j.parser, aux: j.aux, seed: j.seed, edits: j.edits.clone() }).collect() };
        let mut st = Stats::default();
        let outs = match sb.run(&batch, &mut st) { Ok(o) => o, Err(e) => harness_error(&format!("sandbox: {e} (workload {} case {})", rep.cur.0, rep.cur.1)) };
        { let mut g = sh.stats.lock().unwrap(); g.spawns += st.spawns; g.restarts_after_death += st.restarts_after_death; g.stalls += st.stalls; g.isolated_reruns += st.isolated_reruns; g.startup_stalls += st.startup_stalls; }
        for (k, (j, o)) in jobs.iter().zip(&outs).enumerate() {
            judge(rep, sh, &Item { parser: j.parser, aux: j.aux, seed: &seeds[j.seed as usize], edits: &j.edits, info: &j.info, source, index: base + k, recipe: j.recipe.clone() }, o);
        }
        base += jobs.len();
        jobs = rest;
    }
}

fn jobs_from(parser: Parser, aux: u8, seed: u32, muts: Vec<Mutant>) -> Vec<Job> {
    let mut v = vec![Job { parser, aux, seed, edits: vec![], info: MutInfo::new("seed", "unchanged", ""), recipe: None }];
    v.extend(muts.into_iter().map(|(edits, info)| Job { parser, aux, seed, edits, info, recipe: None }));
    v
}

// ------------------------------------------------------------------------------------------------ specials (grouped by family)

enum SpecialInput { Class(Vec<u8>), Text(Fmt, Vec<u8>), Desc(Vec<u8>) }
fn all_specials(thorough: bool) -> Vec<(String, Vec<(String, SpecialInput)>)> {
    let mut groups: Vec<(String, Vec<(String, SpecialInput)>)> = vec![];
    let mut push = |fam: &str, param: String, inp: SpecialInput| { match groups.iter_mut().find(|g| g.0 == fam) { Some(g) => g.1.push((param, inp)), None => groups.push((fam.to_string(), vec![(param, inp)])) } };
    for (f, p, b) in classmut::specials(thorough) { push(f, p, SpecialInput::Class(b)); }
    for (f, p, fmt, b) in textmut::special_texts(thorough) { push(f, format!("{p} {fmt:?}"), SpecialInput::Text(fmt, b)); }
    for (f, p, b) in textmut::special_descs(thorough) { push(f, p, SpecialInput::Desc(b)); }
    groups
}
fn fmt_parser(f: Fmt) -> Parser { match f { Fmt::Tiny => Parser::TinyV2, Fmt::TinyDiff => Parser::TinyDiff, Fmt::Enigma => Parser::Enigma, Fmt::Nests => Parser::Nests } }

fn special_jobs(family: &str, items: Vec<(String, SpecialInput)>) -> (Vec<Vec<u8>>, Vec<Job>) {
    let mut seeds = vec![]; let mut jobs = vec![];
    for (param, inp) in items {
        let recipe = Some(json!({"special": family, "param": param}));
        let info = MutInfo::new("special", Box::leak(family.to_string().into_boxed_str()), param.clone());
        let k = seeds.len() as u32;
        match inp {
            SpecialInput::Class(b) => { seeds.push(b); jobs.push(Job { parser: Parser::ReadClass, aux: 0, seed: k, edits: vec![], info, recipe }); }
            SpecialInput::Text(f, b) => { seeds.push(b); jobs.push(Job { parser: fmt_parser(f), aux: 2, seed: k, edits: vec![], info, recipe }); }
            SpecialInput::Desc(b) => { seeds.push(b); for p in [Parser::FieldDesc, Parser::MethodDesc, Parser::ReturnDesc] { jobs.push(Job { parser: p, aux: 0, seed: k, edits: vec![], info: info.clone(), recipe: recipe.clone() }); } }
        }
    }
    (seeds, jobs)
}

// ------------------------------------------------------------------------------------------------ self checks

fn canaries(sb: &Sandbox, sh: &Shared) {
    use Parser::*;
    let order = [CanaryOk, CanaryPanic, CanaryOk, CanaryAbort, CanaryOk, CanaryStack, CanaryAlloc, CanaryAllocFail, CanaryOk];
    let batch = Batch { seeds: vec![b"canary".to_vec()], inputs: order.iter().map(|p| Input { parser: *p, aux: 0, seed: 0, edits: vec![] }).collect() };
    let mut st = Stats::default();
    let outs = sb.run(&batch, &mut st).unwrap_or_else(|e| harness_error(&format!("canary batch: {e}")));
    let ok = |o: &Outcome| matches!(o, Outcome::Done(d) if d.read == Phase::Ok && d.peak < (1 << 20));
    let checks: [(&str, bool); 9] = [
        ("plain input reported ok", ok(&outs[0])),
        ("panic inside the child reported as panic with its location", matches!(&outs[1], Outcome::Done(d) if matches!(&d.read, Phase::Panic { file, message, .. } if file.ends_with("child.rs") && message.contains("index out of bounds")))),
        ("input after a panic still runs", ok(&outs[2])),
        ("abort attributed to the input that was open", matches!(&outs[3], Outcome::Died { signal: Some(6), what, .. } if what == "abort")),
        ("child restarted on the remaining inputs", ok(&outs[4]) && st.restarts_after_death == 3 && st.spawns == 4),
        ("stack exhaustion recognised", matches!(&outs[5], Outcome::Died { what, .. } if what == "stack overflow")),
        ("96 MiB allocation measured", matches!(&outs[6], Outcome::Done(d) if d.peak >= 96 << 20 && d.largest >= 96 << 20)),
        ("allocation failure under the address-space limit recognised", matches!(&outs[7], Outcome::Died { what, .. } if what == "allocation failure")),
        ("last input ran", ok(&outs[8])),
    ];
    for (what, good) in checks { if !good { harness_error(&format!("sandbox canary failed: {what}; outcomes: {outs:?}")); } }
    // the oracle must flag exactly the bad ones
    let mut probe = Report::new();
    let info = MutInfo::new("canary", "canary", "");
    for (k, o) in outs.iter().enumerate() { judge(&mut probe, sh, &Item { parser: order[k], aux: 0, seed: b"canary", edits: &[], info: &info, source: "canary", index: k, recipe: None }, o); }
    let sigs: Vec<&String> = probe.violations.keys().collect();
    let want = ["canary panic: panic", "canary abort: killed by signal 6 (abort)", "canary stack: killed by signal", "canary alloc: allocation over the linear budget for input under 1 MiB", "canary allocation failure: killed by signal 6 (allocation failure; request of 1 GiB or more"];
    for w in want { if !sigs.iter().any(|s| s.contains(w)) { harness_error(&format!("oracle canary failed: no signature containing {w:?} among {sigs:?}")); } }
    if sigs.len() != want.len() { harness_error(&format!("oracle canary failed: unexpected signatures {sigs:?}")); }
    sh.examples.lock().unwrap().retain(|k, _| !k.contains("canary"));
}

fn hang_canary(out_dir: &str) -> Result<(), String> {
    let sb = Sandbox::new(out_dir, Limits { stall: std::time::Duration::from_millis(300), ..Limits::default() })?;
    let order = [Parser::CanaryOk, Parser::CanaryHang, Parser::CanaryOk];
    let batch = Batch { seeds: vec![vec![]], inputs: order.iter().map(|p| Input { parser: *p, aux: 0, seed: 0, edits: vec![] }).collect() };
    let mut st = Stats::default();
    let outs = sb.run(&batch, &mut st)?;
    if !matches!(outs[1], Outcome::Hang { .. }) || !matches!(outs[0], Outcome::Done(_)) || !matches!(outs[2], Outcome::Done(_)) || st.isolated_reruns != 3 { return Err(format!("hang canary: {outs:?} {st:?}")); }
    Ok(())
}

// ------------------------------------------------------------------------------------------------ replay

fn replay_one(ctx: &Ctx, sb: &Sandbox, sh: &Shared, path: &str) -> ! {
    let text = std::fs::read_to_string(path).unwrap_or_else(|e| harness_error(&format!("cannot read replay {path}: {e}")));
    let v: Value = serde_json::from_str(&text).unwrap_or_else(|e| harness_error(&format!("bad replay {path}: {e}")));
    let d = &v["detail"];
    let parser = d["parser"].as_str().and_then(Parser::from_name).unwrap_or_else(|| harness_error("replay file has no parser"));
    let aux = d["aux"].as_u64().unwrap_or(0) as u8;
    let bytes: Vec<u8> = if let Some(h) = d["input_hex"].as_str() { cf::model::unhex(h).unwrap_or_else(|| harness_error("bad input_hex")) }
        else if let Some(r) = d.get("input_recipe") {
            let (fam, param) = (r["special"].as_str().unwrap_or(""), r["param"].as_str().unwrap_or(""));
            let found = all_specials(true).into_iter().filter(|g| g.0 == fam).flat_map(|g| g.1).find(|(p, _)| p == param);
            match found { Some((_, SpecialInput::Class(b))) | Some((_, SpecialInput::Text(_, b))) | Some((_, SpecialInput::Desc(b))) => b, None => harness_error("replay recipe not found") }
        } else { harness_error("replay file has neither input_hex nor input_recipe") };
    let mut rep = Report::new();
    rep.cur = (v["workload"].as_str().unwrap_or("replay").to_string(), v["case"].as_u64().unwrap_or(0));
    let info = MutInfo::new("replay", "replay", "");
    let jobs = vec![Job { parser, aux, seed: 0, edits: vec![], info, recipe: Some(json!({"replay_of": path})) }];
    run_jobs(sb, &mut rep, sh, vec![bytes], jobs, "replay");
    fill_examples(&mut rep, sh);
    let meta = Meta::new("fault_enumeration", "replay of one recorded input");
    std::process::exit(finish(ctx, rep, meta));
}

fn fill_examples(rep: &mut Report, sh: &Shared) {
    let ex = sh.examples.lock().unwrap();
    for (sig, v) in rep.violations.iter_mut() { if let Some(e) = ex.get(sig) { v.detail = e.detail.clone(); v.workload = e.key.1.clone(); v.case = e.key.2; } }
}

// ------------------------------------------------------------------------------------------------ main

/// A workload may run until `until` (a fraction of the whole budget) has elapsed: slack left by earlier workloads is inherited.
/// (The wall-clock budget only ends generation; the obligations below say whether enough was covered.)
fn sub_ctx(ctx: &Ctx, until: f64) -> Ctx {
    let left = (ctx.budget.as_secs_f64() * until - ctx.elapsed_s()).max(1.0);
    let mut c = ctx.clone(); c.start = std::time::Instant::now(); c.budget = std::time::Duration::from_secs_f64(left); c
}

fn main() {
    let args: Vec<String> = std::env::args().collect();
    if args.get(1).map(|s| s.as_str()) == Some("--child") {
        let g = |i: usize| args.get(i).cloned().unwrap_or_default();
        std::process::exit(child::child_main(&g(2), &g(3), g(4).parse().unwrap_or(0), g(5).parse().unwrap_or(usize::MAX)));
    }
    let mut ctx = Ctx::from_args(PROP, 36, 520);
    let thorough = ctx.tier == Tier::Thorough;
    let sh = Shared { repo: std::env::var("VERIF_REPO").unwrap_or_else(|_| ["/", "repo"].concat()), ..Default::default() };
    let sb = Sandbox::new(&ctx.out_dir, Limits::default()).unwrap_or_else(|e| harness_error(&e));
    if let Some(path) = ctx.replay.clone() { let _ = load_replay(&mut ctx); replay_one(&ctx, &sb, &sh, &path); }
    let replay: Option<ReplaySpec> = None;
    let mut rep = Report::new();

    // ---- self checks: sandbox + oracle canaries (hang canary in the background: it needs ~8 s of waiting)
    canaries(&sb, &sh);
    let out_dir = ctx.out_dir.clone();
    let hang = std::thread::spawn(move || hang_canary(&out_dir));
    if let Err(e) = maps::self_test(ctx.seed, 30) { harness_error(&format!("maps self test: {e}")); }
    // ---- 1. hostile hand-built inputs: ladders, self-references, limit values (one case per family)
    let t_gen = std::time::Instant::now();
    let groups = all_specials(thorough);
    rep.add("special_generation_ms", t_gen.elapsed().as_millis() as u64);
    let families: Vec<String> = groups.iter().map(|g| g.0.clone()).collect();
    let groups = Mutex::new(groups.into_iter().map(Some).collect::<Vec<_>>());
    run_cases(&sub_ctx(&ctx, 0.30), &replay, &mut rep, "special", families.len() as u64, |_rng, rep, case| {
        let Some((family, items)) = groups.lock().unwrap()[case as usize].take() else { return };
        let (seeds, jobs) = special_jobs(&family, items);
        rep.count(&format!("special_families.{}", family.split('.').next().unwrap_or("")));
        rep.seen("special_families", &family);
        run_jobs(&sb, rep, &sh, seeds, jobs, &format!("special {family}"));
    });

    // ---- 2. descriptor strings
    let n_desc = ctx.tier.pick(60, 600);
    run_cases(&sub_ctx(&ctx, 0.45), &replay, &mut rep, "descriptor", n_desc, |rng, rep, case| {
        let cfg = maps::GenCfg::default();
        let seed: String = if (case as usize) < textmut::DESC_SEEDS.len() { textmut::DESC_SEEDS[case as usize].to_string() }
            else if rng.bool() { maps::gen::method_desc(rng, &cfg, &["a/B".to_string(), "C$D".to_string()]) } else { maps::gen::field_desc(rng, &cfg, &["a/B".to_string()]) };
        let muts = textmut::desc_mutants(seed.as_bytes());
        let mut jobs = vec![];
        for p in [Parser::FieldDesc, Parser::MethodDesc, Parser::ReturnDesc] { jobs.extend(jobs_from(p, 0, 0, muts.clone())); }
        run_jobs(&sb, rep, &sh, vec![seed.clone().into_bytes()], jobs, &format!("descriptor {seed}"));
    });

    // ---- 3. text formats: seeds from the mapping generators through the harness' own emitters, token-level mutations
    let n_text = ctx.tier.pick(48, 1600);
    run_cases(&sub_ctx(&ctx, 0.65), &replay, &mut rep, "text", n_text, |rng, rep, case| {
        let fmt = [Fmt::Tiny, Fmt::TinyDiff, Fmt::Enigma, Fmt::Nests][(case % 4) as usize];
        let mut cfg = if rng.chance(1, 3) { maps::GenCfg::tame() } else { maps::GenCfg::default() };
        cfg.max_classes = 3; cfg.big = (0, 1);
        let (text, aux): (String, u8) = match fmt {
            Fmt::Tiny => { let m = maps::gen::gen_maps(rng, &cfg); let n = m.n() as u8; (textmut::emit_tiny(&m), n) }
            Fmt::TinyDiff => (textmut::emit_tinydiff(&maps::gen::gen_diff(rng, &cfg)), 2),
            Fmt::Enigma => (textmut::emit_enigma(&maps::gen::gen_maps(rng, &cfg.clone().with_n(2))), 2),
            Fmt::Nests => { let m = maps::gen::gen_maps(rng, &cfg.clone().with_n(2)); (textmut::emit_nests(&m, rng), 2) }
        };
        let seed = text.into_bytes();
        let muts = textmut::text_mutants(&seed, fmt, rng, 40, 64);
        let mut jobs = jobs_from(fmt_parser(fmt), aux, 0, muts);
        if fmt == Fmt::Tiny { for n in [2u8, 3, 4] { if n != aux { jobs.push(Job { parser: Parser::TinyV2, aux: n, seed: 0, edits: vec![], info: MutInfo::new("file", "namespace_count_mismatch", format!("{aux} read as {n}")), recipe: Some(json!("seed read with another N")) }); } } }
        rep.count(&format!("text_seeds.{fmt:?}"));
        run_jobs(&sb, rep, &sh, vec![seed], jobs, &format!("{fmt:?} text from maps::gen"));
    });

    // ---- 4. class files: generated (cf::gen + cf::emit) and the javac corpus; span-driven enumeration
    let class_case = |rep: &mut Report, rng: &mut Rng, bytes: Vec<u8>, source: &str| {
        let parsed = match cf::parse::parse_with_spans(&bytes) { Ok(p) => p, Err(e) => { rep.count("class_seeds.not_accepted_by_the_independent_parser"); rep.note(format!("seed skipped: {}", template(&e))); return; } };
        let mut roles: BTreeMap<&'static str, u64> = BTreeMap::new();
        let muts = classmut::enumerate(&bytes, &parsed.spans, rng, &classmut::EnumCfg { random_edits: 192 }, |r| *roles.entry(r).or_default() += 1);
        for (r, n) in roles { rep.add(&format!("spans_mutated.{r}"), n); }
        // a seed whose complete enumeration exceeds the cap (the three 76 kB `Big` classes of the corpus: ~10^6 mutants of a file
        // that takes milliseconds to read) is enumerated with a stride instead; recorded, never silent
        let cap = if thorough { 60_000 } else { 20_000 };
        let muts = if muts.len() > cap {
            let stride = muts.len().div_ceil(cap); let off = rng.below(stride);
            rep.count("class_seeds.enumerated_with_a_stride"); rep.add("class_mutants_skipped_by_the_stride", (muts.len() - muts.len() / stride) as u64);
            rep.note(format!("{source}: {} mutants, every {stride}th one run", muts.len()));
            muts.into_iter().enumerate().filter(|(i, _)| i % stride == off).map(|(_, m)| m).collect()
        } else { muts };
        rep.count("class_seeds"); if bytes.len() < 512 { rep.count("class_seeds.truncated_at_every_byte"); }
        rep.add("class_seed_bytes", bytes.len() as u64);
        run_jobs(&sb, rep, &sh, vec![bytes], jobs_from(Parser::ReadClass, 0, 0, muts), source);
    };
    let n_gen = ctx.tier.pick(48, 1400);
    run_cases(&sub_ctx(&ctx, 0.85), &replay, &mut rep, "class.generated", n_gen, |rng, rep, case| {
        let cfg = cf::gen::GenCfg { max_fields: 2, max_methods: 3, max_insns: if case % 4 == 0 { 6 } else { 24 }, ..Default::default() };
        let mut m = cf::gen::gen_class(rng, &cfg);
        // Names that cannot be PRINTED (an unpaired surrogate is legal in a class file and for duke's name types, but `Display` of
        // those types refuses it): every fourth seed carries one in the class name and in every ordinary method / field name, so
        // that each error path of the reader and - for what the reader accepts - of the writer is walked with a name whose
        // formatting inside an error message can itself fail. Every other fourth seed gets cf::hostile names at a third of its sites.
        match case % 4 {
            1 => {
                let sur = |n: &cf::model::JS, rng: &mut Rng| { let mut b = n.0.clone(); b.extend_from_slice(if rng.bool() { &[0xED, 0xA0, 0x80] } else { &[0xED, 0xB0, 0x80, b'x'] }); cf::model::JS(b) };
                m.this_class = sur(&m.this_class, rng);
                for me in m.methods.iter_mut() { if me.name.0.first() != Some(&b'<') { me.name = sur(&me.name, rng); } }
                for f in m.fields.iter_mut() { f.name = sur(&f.name, rng); }
                rep.count("class_seeds.with_unprintable_names(unpaired surrogate in class, method and field names)");
            }
            3 => { for t in cf::hostile::hostilise(rng, &mut m, (1, 3), 40) { rep.seen("hostile_names", t); } rep.count("class_seeds.with_hostile_names"); }
            _ => {}
        }
        let layout = if case % 3 == 0 { cf::emit::Layout::canonical() } else { cf::emit::Layout::random(rng.next_u64()) };
        let Ok(bytes) = cf::emit::emit(&m, &layout) else { rep.count("class_seeds.emit_skipped"); return };
        class_case(rep, rng, bytes, "generated class (cf::gen)");
    });
    let corpus = cf::corpus::load(&ctx.verif_dir);
    let mut order: Vec<usize> = (0..corpus.len()).collect();
    Rng::new(common::rng::case_seed(ctx.seed, "C16/corpus-order", 0)).shuffle(&mut order);
    if !thorough { order.sort_by_key(|i| corpus[*i].1.len() > 3000); } // quick: small classes first (complete enumeration of each one that is started)
    let n_corpus = ctx.tier.pick(10.min(corpus.len()), corpus.len()) as u64;
    run_cases(&sub_ctx(&ctx, 1.0), &replay, &mut rep, "class.corpus", n_corpus, |rng, rep, case| {
        let (name, bytes) = &corpus[order[case as usize]];
        rep.seen("corpus_classes", name);
        class_case(rep, rng, bytes.clone(), &format!("corpus {name}"));
    });

    match hang.join() { Ok(Ok(())) => {} Ok(Err(e)) => harness_error(&format!("hang canary failed: {e}")), Err(_) => harness_error("hang canary thread panicked") }
    let _ = std::fs::remove_dir(format!("{}/scratch/c16", ctx.out_dir));

    // ---- evidence + obligations
    fill_examples(&mut rep, &sh);
    let st = sh.stats.lock().unwrap();
    rep.add("sandbox.child_processes_started", st.spawns);
    rep.add("sandbox.child_restarts_after_a_death", st.restarts_after_death);
    rep.add("sandbox.stalls", st.stalls);
    rep.add("sandbox.isolated_reruns", st.isolated_reruns);
    rep.add("sandbox.stalls_without_an_open_input (machine-level; retried)", st.startup_stalls);
    drop(st);
    let mut meta = Meta::new("fault_enumeration",
        "an input = one seed (generated class via cf::gen+cf::emit, javac corpus class, Tiny v2 / tiny-diff / Enigma / nests text emitted from maps::gen models, descriptor string) with ONE mutation, \
         enumerated systematically per seed: every count/length/pool-index/code-offset/tag/utf8-length/switch-bound span of the independent parser's span map set to each of {0,1,v-1,v+1,0x7f,0x80,0xff,0x7fff,0x8000,0xffff,max,(4-byte: 0x7fffffff,0x80000000,max-1,0x10000000),code_length,code_length+-1}, \
         every opcode set to 14 operand-shape-changing opcodes, truncation at every byte (<512 B) or every span boundary, every pool entry pointing at itself, every bootstrap argument pointing at every dynamic constant, every attribute duplicated, every attribute renamed to every other attribute name, 192 random byte edits; \
         texts: per line x token: drop/duplicate/empty/swap column, indentation +1/+5/-1/0/spaces, unknown keywords, huge/negative/hex numbers, injected 0xff/NUL/CR/lone surrogate/overlong NUL, CRLF, BOM, empty file, missing header, header with 0/1/2/3/5/100 namespaces, truncation, random edits; \
         plus hand-built hostile inputs (nesting ladders up to 2^18..2^20 levels, cyclic bootstrap arguments, limit values). non-trivial = mutated (not the unchanged seed); distinct = parser x mutation family x role x boundary value x outcome (ok / error message template / panic / signal)")
        .assume(format!("child limits: address space {} MiB (ulimit -v), main-thread stack {} KiB (ulimit -s), stall budget {} s per input (x10 in three isolated re-runs before `hang`)", sb.limits.vmem_kb >> 10, sb.limits.stack_kb, sb.limits.stall.as_secs()))
        .assume("allocation budget per input: peak live heap above the level before the call <= 16 MiB + 256 x input length (counting global allocator)")
        .assume("instrumented profile: overflow checks and debug assertions on (the repository's test profile)")
        .assume("the writer is judged only on classes the reader accepted; descriptor parse() is called on unchecked slices and after the checked constructor");
    for p in Parser::REAL { let n = rep.get(&format!("inputs.{}", p.name())); meta.oblige(format!("{} received at least 300 inputs (got {n})", p.name()), n >= 300); }
    for p in Parser::REAL { let (o, e) = (rep.get(&format!("outcome.{}.ok", p.name())), rep.get(&format!("outcome.{}.err", p.name()))); meta.oblige(format!("{}: both accepted and refused inputs observed", p.name()), o > 0 && e > 0); }
    meta.oblige("write_class ran on classes the reader accepted (mutated ones included)", rep.get("inputs.write_class") >= 50);
    for r in ["count", "length", "pool_index", "code_offset", "tag", "utf8_length", "opcode", "bootstrap_index"] { meta.oblige(format!("class spans of role {r} mutated"), rep.get(&format!("spans_mutated.{r}")) > 0); }
    meta.oblige("class seeds whose class / method / field names cannot be printed (unpaired surrogates): at least 8, and the writer refused (returned Err for) at least one class the reader accepted", rep.get("class_seeds.with_unprintable_names(unpaired surrogate in class, method and field names)") >= 8 && rep.get("outcome.write_class.err") > 0);
    meta.oblige("at least 3 class files under 512 bytes truncated at every byte", rep.get("class_seeds.truncated_at_every_byte") >= 3);
    meta.oblige("at least 8 class seeds enumerated completely", rep.get("class_seeds") >= 8);
    for f in ["self_reference.pool_entry_own_index", "self_reference.bootstrap_argument", "duplicate_attribute.attribute", "swap_attribute_name.attribute", "truncate.every_byte", "random_edit.bit_flip"] { meta.oblige(format!("class mutation family {f} applied"), rep.get(&format!("mutations.{f}")) > 0); }
    for f in ["token.drop_column", "token.duplicate_column", "token.swap_columns", "token.indent", "token.keyword", "token.number", "token.inject", "file.crlf", "file.empty_file", "file.missing_header", "file.header_namespaces"] { meta.oblige(format!("text mutation family {f} applied"), rep.get(&format!("mutations.{f}")) > 0); }
    meta.oblige(format!("every hand-built family ran ({} of {})", rep.seen_n("special_families"), families.len()), rep.seen_n("special_families") == families.len());
    meta.oblige("text seeds of all four formats", ["Tiny", "TinyDiff", "Enigma", "Nests"].iter().all(|f| rep.get(&format!("text_seeds.{f}")) >= 2));
    meta.oblige("no suspected hang left unresolved", rep.get("unresolved_suspected_hangs") == 0);
    meta.extra.insert("sandbox".into(), json!({"address_space_kb": sb.limits.vmem_kb, "stack_kb": sb.limits.stack_kb, "stall_s": sb.limits.stall.as_secs(), "canaries": "ok/panic/abort/stack/alloc/allocation-failure/hang all recognised at start-up"}));
    std::process::exit(finish(&ctx, rep, meta));
}
