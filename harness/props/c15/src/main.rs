//! C15 — bridge targets inherit the bridge's mapped name, nothing else changes.
//!
//! Code under observation: `/repo/src/specialized_methods/mod.rs`, compiled UNCHANGED into this binary
//! (`add_specialized_methods_to_mappings`, `Jar::get_specialized_methods`).
//! Oracle: scenarios are generated from a DESCRIPTION (scen.rs / gen.rs); the statement's predicate is evaluated on
//! the description (oracle.rs), names come from a reference remapper over the two generated mapping sets (R-remap of
//! DESIGN.md 9a); the produced mappings are compared entry by entry with input + expected inserts / overwrites.
#![allow(dead_code)]
pub struct Official;
pub struct Intermediary;
pub struct Named;

#[path = "/repo/src/specialized_methods/mod.rs"]
#[allow(warnings, clippy::all)]
mod specialized_methods;

mod emitc;
mod gen;
mod oracle;
mod scen;

use common::{par::*, report::{finish, Meta}, *};
use dukebox::storage::{BasicFileAttributes, ClassRepr, Jar, JarEntryEnum, ParsedJar, ParsedJarEntry, UnnamedMemJar};
use maps::{Ins, Maps};
use oracle::{Candidate, Effect};
use quill::tree::mappings::Mappings;
use scen::*;
use specialized_methods::GetSpecializedMethods;
use std::collections::{BTreeMap, BTreeSet};
use std::io::Write;

type PJ = ParsedJar<ClassRepr, Vec<u8>>;
type Pair = ((String, String, String), (String, String, String));

const SIG_C06_NAMED: &str = "C15 named name of the bridge through inheritance is lost: result equals a super-type walk of the intermediary->named remapper that stops at a class without mapping entry (C06 defect pattern)";
const SIG_C06_CAL: &str = "C15 intermediary name through inheritance is lost: result equals a super-type walk of the official->intermediary remapper that stops at a class without mapping entry (C06 defect pattern)";
const SIG_C06_BOTH: &str = "C15 names through inheritance are lost in both remappers: result equals super-type walks that stop at a class without mapping entry (C06 defect pattern)";

fn parsed_jar(entries: &[(String, Vec<u8>)], rng: &mut Rng) -> PJ {
    let mut jar = PJ { entries: indexmap::IndexMap::new() };
    let mut order: Vec<usize> = (0..entries.len()).collect();
    rng.shuffle(&mut order);
    if rng.bool() { jar.entries.insert("META-INF/".into(), ParsedJarEntry { attr: BasicFileAttributes::default(), content: JarEntryEnum::Dir }); }
    if rng.bool() { jar.entries.insert("META-INF/MANIFEST.MF".into(), ParsedJarEntry { attr: BasicFileAttributes::default(), content: JarEntryEnum::Other(b"Manifest-Version: 1.0\n".to_vec()) }); }
    for i in order { let (n, b) = &entries[i]; jar.entries.insert(n.clone(), ParsedJarEntry { attr: BasicFileAttributes::default(), content: JarEntryEnum::Class(ClassRepr::Vec { data: b.clone() }) }); }
    jar
}
fn zip_jar(entries: &[(String, Vec<u8>)], rng: &mut Rng) -> Result<UnnamedMemJar, String> {
    let mut order: Vec<usize> = (0..entries.len()).collect();
    rng.shuffle(&mut order);
    let mut z = zip::ZipWriter::new(std::io::Cursor::new(Vec::new()));
    let opt = || zip::write::FileOptions::<()>::default().last_modified_time(zip::DateTime::default());
    z.start_file("META-INF/MANIFEST.MF", opt()).map_err(|e| e.to_string())?;
    z.write_all(b"Manifest-Version: 1.0\n").map_err(|e| e.to_string())?;
    for i in order { let (n, b) = &entries[i]; z.start_file(n.as_str(), opt()).map_err(|e| e.to_string())?; z.write_all(b).map_err(|e| e.to_string())?; }
    Ok(UnnamedMemJar { data: z.finish().map_err(|e| e.to_string())?.into_inner() })
}

struct Real { out: Result<Mappings<2, (Intermediary, Named)>, String>, pairs: Result<Vec<Pair>, String> }

fn run_real<J: Jar>(main: &J, libs: &[PJ], cal: &Mappings<2, (Official, Intermediary)>, map: &Mappings<2, (Intermediary, Named)>) -> Result<Real, PanicInfo> {
    guard(|| {
        let out = specialized_methods::add_specialized_methods_to_mappings(main, cal, libs, map).map_err(|e| format!("{e:#}"));
        let s = |x: &java_string::JavaStr| maps::model::jstr(x);
        let pairs = main.get_specialized_methods().map_err(|e| format!("{e:#}")).map(|sm| sm.bridge_to_specialized.iter().map(|(b, sp)|
            ((s(b.class.as_inner()), s(b.name.as_inner()), s(b.desc.as_inner())), (s(sp.class.as_inner()), s(sp.name.as_inner()), s(sp.desc.as_inner())))).collect());
        Real { out, pairs }
    })
}

fn template(msg: &str) -> String {
    let mut out = String::new(); let mut in_q = false;
    for c in msg.chars() { if c == '"' { in_q = !in_q; if in_q { out.push_str("\"..\""); } continue; } if in_q { continue; } if c.is_ascii_digit() { if !out.ends_with('#') { out.push('#'); } continue; } out.push(c); }
    out.chars().take(120).collect()
}

fn effect_view(effs: &[Effect]) -> Vec<(String, (String, String), String)> { effs.iter().map(|e| (e.class.clone(), e.key.clone(), e.named.clone())).collect() }

/// state of the entry an effect concerns, in the INPUT mappings
fn target_state(input: &Maps, e: &Effect) -> &'static str {
    let Some(c) = input.classes.get(&e.class) else { return "class_lacks" };
    match c.methods.get(&e.key) {
        None => "inserted",
        Some(m) if m.names[1].is_none() => "had_no_named_name",
        Some(m) if m.names[1].as_deref() == Some(e.named.as_str()) => "already_same",
        Some(m) if m.comment.is_some() || !m.params.is_empty() => "overwritten_with_children",
        Some(_) => "overwritten",
    }
}

/// Everything between "scenario + class bytes" and the verdict. `check_intents` is off for the corpus.
fn judge(rep: &mut Report, sc: &Scenario, main_bytes: &[(String, Vec<u8>)], lib_bytes: &[Vec<(String, Vec<u8>)>], rng: &mut Rng, source: &str) {
    let bad = |s: String| -> ! { eprintln!("HARNESS-ERROR C15: {s}"); std::process::exit(3) };
    let cands: Vec<Candidate> = oracle::classify(&sc.main);
    for it in &sc.intents {
        let Some(c) = cands.iter().find(|c| c.class == it.class && c.name == it.name && c.desc == it.desc) else { bad(format!("intent without method: {it:?}")) };
        if c.expect != it.expect { bad(format!("generator intent and oracle predicate disagree (case {:?}): intent {:?}, oracle {:?} ({})\n{}", rep.cur, it, c.expect, c.why, sc.main.render())); }
    }
    let effs = oracle::effects(sc, &cands, false, false);
    // open: the expected effects depend on whether the members of a class without named name still map (the statements do not say)
    {
        oracle::HALF_NAMED.with(|h| h.set(true));
        let alt = oracle::effects(sc, &cands, false, false);
        oracle::HALF_NAMED.with(|h| h.set(false));
        if alt != effs { rep.count("open.scenario_depends_on_members_of_a_class_without_named_name (not judged)"); return; }
    }
    let cal_q = maps::to_quill::<2, (Official, Intermediary)>(&sc.calamus, &mut Ins::Shuffle(&mut rng.fork())).unwrap_or_else(|e| bad(format!("calamus not expressible: {e:#}")));
    let map_q = maps::to_quill::<2, (Intermediary, Named)>(&sc.mappings, &mut Ins::Shuffle(&mut rng.fork())).unwrap_or_else(|e| bad(format!("mappings not expressible: {e:#}\n{}", sc.mappings.render())));
    let libs: Vec<PJ> = lib_bytes.iter().map(|b| parsed_jar(b, rng)).collect();
    let input = || json!({"source": source, "main_jar": sc.main.render(), "library_jars": sc.libs.iter().map(|l| l.render()).collect::<Vec<_>>(),
        "calamus": sc.calamus.render(), "mappings": sc.mappings.render(), "jar_kind": if sc.zip { "zip (UnnamedMemJar)" } else { "ParsedJar" },
        "class_files_hex": main_bytes.iter().map(|(n, b)| json!({"name": n, "hex": cf::model::hex(b)})).collect::<Vec<_>>() });
    let real = if sc.zip { rep.count("jar.zip"); let z = zip_jar(main_bytes, rng).unwrap_or_else(|e| bad(format!("zip: {e}"))); run_real(&z, &libs, &cal_q, &map_q) }
        else { rep.count("jar.parsed"); let p = parsed_jar(main_bytes, rng); run_real(&p, &libs, &cal_q, &map_q) };
    if !libs.is_empty() { rep.count("jar.with_library"); }
    rep.eval();
    let real = match real { Ok(r) => r, Err(p) => { rep.violation(format!("C15 panic {}", p.site()), json!({"panic": p.message, "at": format!("{}:{}", p.file, p.line), "input": input()})); return; } };

    // ---- observation point 1: the detected pairs (official names)
    let mut detection_ok = true;
    match &real.pairs {
        Err(e) => { detection_ok = false; rep.violation(format!("C15 get_specialized_methods refuses a well-formed jar: {}", template(e)), json!({"error": e, "input": input()})); }
        Ok(pairs) => {
            let by_bridge: BTreeMap<&(String, String, String), &(String, String, String)> = pairs.iter().map(|(b, s)| (b, s)).collect();
            // several qualifying bridges of ONE class for ONE delegate are outside the quantifier ("at most one bridge per delegate and class"):
            // which of them is recorded is open (the output side lets any one of them win, see oracle::allowed); at least one must be
            let mut rivals: BTreeMap<(&str, &(String, String, String)), Vec<&oracle::Candidate>> = BTreeMap::new();
            for c in &cands { if c.expect != Expect::MustNot { if let Some(s) = &c.spec { rivals.entry((c.class.as_str(), s)).or_default().push(c); } } }
            rivals.retain(|_, v| v.len() >= 2);
            for ((class, spec), v) in &rivals {
                rep.count("open.detection.several_bridges_one_delegate_one_class");
                if v.iter().any(|c| c.expect == Expect::Must) && !v.iter().any(|c| by_bridge.contains_key(&(c.class.clone(), c.name.clone(), c.desc.clone()))) {
                    detection_ok = false;
                    rep.violation("C15 detection: none of several bridges of one class for one delegate detected", json!({"class": class, "delegate": spec, "bridges": v.iter().map(|c| format!("{}{}", c.name, c.desc)).collect::<Vec<_>>(), "input": input()}));
                }
            }
            for c in &cands {
                let key = (c.class.clone(), c.name.clone(), c.desc.clone());
                let obs = by_bridge.get(&key);
                if c.expect == Expect::Must && obs.is_none() && c.spec.as_ref().is_some_and(|s| rivals.contains_key(&(c.class.as_str(), s))) { rep.count("open.not_detected"); continue; }
                let detail = |what: &str| json!({"what": what, "method": format!("{}.{}{}", c.class, c.name, c.desc), "oracle": c.why, "expected_delegate": c.spec, "observed_delegate": obs, "input": input()});
                match (c.expect, obs) {
                    (Expect::Must, None) => { detection_ok = false; rep.violation(format!("C15 detection: bridge not detected ({})", c.why), detail("missing pair")); }
                    (Expect::MustNot, Some(_)) => { detection_ok = false; rep.violation(format!("C15 detection: method detected as bridge although {}", c.why), detail("unexpected pair")); }
                    (_, Some(s)) if Some(*s) != c.spec.as_ref() => { detection_ok = false; rep.violation("C15 detection: wrong delegate recorded for a bridge", detail("delegate differs")); }
                    (Expect::May, o) => rep.count(if o.is_some() { "open.detected" } else { "open.not_detected" }),
                    _ => {}
                }
            }
            for (b, _) in pairs { if !cands.iter().any(|c| c.class == b.0 && c.name == b.1 && c.desc == b.2) { detection_ok = false; rep.violation("C15 detection: pair for a method the jar does not contain", json!({"bridge": b, "input": input()})); } }
        }
    }

    // ---- observation point 2: the produced mappings
    let mut output_ok = false;
    match &real.out {
        Err(e) => rep.violation(format!("C15 add_specialized_methods_to_mappings refuses well-formed input: {}", template(e)), json!({"error": e, "input": input()})),
        Ok(out_q) => {
            maps::watch(rep, "C15", "add_specialized_methods_to_mappings", out_q, input);
            let observed = maps::from_quill(out_q);
            match oracle::allowed(&sc.mappings, &effs) {
                None => rep.count("skipped.too_many_alternatives"),
                Some(allowed) => {
                    if allowed.iter().any(|a| *a == observed) { output_ok = true; }
                    else {
                        // classification only: does the observation equal what the C06 known defect (walk stops at a class
                        // without table) would produce? Reported as a violation either way, under its own signature.
                        let mut classified = false;
                        for (cs, ns, sig) in [(false, true, SIG_C06_NAMED), (true, false, SIG_C06_CAL), (true, true, SIG_C06_BOTH)] {
                            let d = oracle::effects(sc, &cands, cs, ns);
                            if effect_view(&d) == effect_view(&effs) { continue; }
                            if oracle::allowed(&sc.mappings, &d).is_some_and(|al| al.iter().any(|a| *a == observed)) {
                                let lost: Vec<_> = effs.iter().zip(&d).filter(|(a, b)| a.named != b.named || a.key != b.key).map(|(a, b)| json!({"bridge": a.bridge, "class": a.class, "expected_key": a.key, "expected_named": a.named, "observed_key": b.key, "observed_named": b.named})).collect();
                                rep.violation(sig, json!({"lost": lost, "input": input(), "observed": observed.render()}));
                                classified = true; break;
                            }
                        }
                        if !classified {
                            let targets: BTreeSet<(String, (String, String))> = effs.iter().map(|e| (e.class.clone(), e.key.clone())).collect();
                            let best = allowed.iter().map(|a| oracle::compare(a, &observed, &targets)).min_by_key(|d| d.len()).unwrap_or_default();
                            let mut seen = BTreeSet::new();
                            for (kind, at) in &best {
                                if !seen.insert(kind.clone()) { continue; }
                                rep.violation(format!("C15 output: {kind}"), json!({"where": at, "all_differences": best.iter().take(12).collect::<Vec<_>>(), "expected_effects": effs.iter().map(|e| json!({"bridge": e.bridge, "class": e.class, "key": e.key, "named": e.named, "mode": format!("{:?}", e.expect)})).collect::<Vec<_>>(),
                                    "input": input(), "observed": observed.render()}));
                            }
                        }
                    }
                }
            }
        }
    }

    // ---- coverage (facts from the reference computation, not from the generator's wishes)
    let confirmed = detection_ok && output_ok;
    for it in &sc.intents { rep.count(&format!("kind.{}", it.kind)); if confirmed { rep.count(&format!("kind.{}.confirmed", it.kind)); } }
    if oracle::has_collision(&effs) { rep.count("open.two_bridges_same_delegate_same_class"); }
    let mut fp = String::new();
    let mut kinds: Vec<String> = sc.intents.iter().map(|i| format!("{}:{:?}", i.kind, i.expect)).collect(); kinds.sort(); fp += &kinds.join(",");
    for c in &cands {
        rep.count(&format!("methods.{}", match c.expect { Expect::Must => "must_bridge", Expect::May => "open", Expect::MustNot => "must_not" }));
        if c.expect == Expect::MustNot && c.why != "not synthetic" { rep.seen("near_miss_reasons", c.why); }
        for v in &c.early_stop_traps { rep.count(&format!("hierarchy.unflagged_bridge_deciding_super_type_behind_already_visited_parent.{v}")); }
        if c.redundant_hierarchy { rep.count("hierarchy.unflagged_bridge_decided_in_hierarchy_with_redundant_parent"); }
        if c.expect == Expect::Must { rep.seen("must_reasons", c.why); for o in &c.ops { rep.seen("invoke_opcodes_in_must_bridges", &o.to_string()); } }
    }
    if source.starts_with("corpus") { rep.add("corpus.must_bridges", cands.iter().filter(|c| c.expect == Expect::Must).count() as u64); }
    let mut changes = 0;
    for e in effs.iter().filter(|e| e.expect == Expect::Must) {
        let ts = target_state(&sc.mappings, e);
        rep.count(&format!("target.{ts}"));
        if ts != "class_lacks" && ts != "already_same" { changes += 1; }
        let nsrc = match e.named_hit { None => "unchanged_intermediary_name", Some((0, _)) => "own_class_entry", Some((1, _)) => "super_type_depth1", Some(_) => "super_type_depth2plus" };
        rep.count(&format!("name.{nsrc}"));
        if e.named_hit.is_some_and(|h| h.1) { rep.count("name.walk_passes_class_without_entry"); }
        if e.cal_via_tableless { rep.count("calamus.walk_passes_class_without_entry"); }
        if e.named_in_library { rep.count("name.from_entry_of_a_library_class"); }
        if e.naming_type_behind_visited { rep.count("name.naming_super_type_behind_already_visited_super_type"); }
        if e.named_hit.is_some_and(|h| h.0 >= 4) { rep.count("name.super_type_depth4plus"); }
        if ts == "inserted" && e.delegate_inherited_name.is_some() { rep.count(if e.delegate_inherited_name.as_deref() == Some(e.named.as_str()) { "target.inserted_although_an_ancestor_entry_gives_the_delegate_the_same_name" } else { "target.inserted_while_an_ancestor_entry_names_the_delegate_differently" }); }
        fp += &format!("|{ts}/{nsrc}/{}", e.named_hit.is_some_and(|h| h.1));
    }
    // effects that touch each other (bridge chains, chains split over class and subclass, shared names): facts computed by the
    // oracle from the jar and the INPUT mappings; the stale-read variant is the modelled defect class, it never judges
    let cf = oracle::chain_facts(sc, &effs);
    for (k, v) in [("chain.in_one_class.b1_before_b2_in_the_class_file", cf.b1_before_b2), ("chain.in_one_class.b2_before_b1_in_the_class_file", cf.b2_before_b1),
        ("chain.in_one_class.differing_named_names.b1_first", cf.differing_b1_first), ("chain.in_one_class.differing_named_names.b2_first", cf.differing_b2_first),
        ("chain.in_one_class.entry_of_b2_created_by_the_effect_of_b1", cf.bridge_entry_created), ("chain.in_one_class.entry_of_b2_overwritten_by_the_effect_of_b1", cf.bridge_entry_overwritten),
        ("chain.in_one_class.length3", cf.length3), ("chain.in_one_class.cycle", cf.cycles),
        ("chain.across_class_and_subclass.bridge_named_through_an_entry_another_bridge_rewrites", cf.across_named_through_rewritten_entry),
        ("chain.across_class_and_subclass.unnamed_bridge_and_another_bridge_creates_the_entry_above", cf.across_unnamed_bridge_entry_created_above),
        ("chain.two_classes.same_official_names_and_descriptors", cf.shared_official_names), ("chain.two_classes.same_intermediary_keys_differing_named_names", cf.shared_intermediary_keys_differing_names)] {
        if v > 0 { rep.add(k, v as u64); }
    }
    if cf.any_link() && !oracle::has_collision(&effs) {
        let must: Vec<&Effect> = effs.iter().filter(|e| e.expect == Expect::Must).collect();
        let reference = oracle::apply(&sc.mappings, &must);
        let (fwd, rev) = (oracle::stale_read_variant(sc, &effs, false) != reference, oracle::stale_read_variant(sc, &effs, true) != reference);
        if fwd { rep.count("chain.reading_the_mappings_being_produced_would_differ.bridges_in_description_order"); }
        if rev { rep.count("chain.reading_the_mappings_being_produced_would_differ.bridges_in_reverse_order"); }
        if fwd && rev { rep.count("chain.reading_the_mappings_being_produced_would_differ.in_both_orders"); }
        if confirmed && (fwd || rev) { rep.count("chain.reading_the_mappings_being_produced_would_differ.confirmed_reference_output"); }
        fp += &format!("|chain {}{}{}{}{}{}/{fwd}{rev}", cf.b1_before_b2.min(2), cf.b2_before_b1.min(2), cf.length3.min(1), cf.cycles.min(1), cf.across_named_through_rewritten_entry.min(1), cf.bridge_entry_created.min(1));
    }
    if changes > 0 { rep.count("scenarios.with_expected_change"); } else { rep.count("scenarios.expected_unchanged"); }
    if changes > 0 || cands.iter().any(|c| c.expect == Expect::MustNot && c.why != "not synthetic") { rep.nontrivial(common::rng::fnv_str(&fp) ^ sc.main.classes.len() as u64); }
    if confirmed && changes > 0 && rep.want_sample() && (if source == "generated" { sc.main.classes.len() <= 40 } else { rep.cur.1 == 4 }) { rep.sample(|| json!({"source": source, "main_jar (classes with methods)": JarD { classes: sc.main.classes.iter().filter(|c| if source == "generated" { !c.methods.is_empty() } else { c.methods.iter().any(|m| m.access & SYNTHETIC != 0) }).cloned().collect() }.render(), "main_jar_hierarchy": sc.main.classes.iter().map(|c| format!("{} : {} {:?}", c.name, c.super_name, c.interfaces)).collect::<Vec<_>>(), "calamus": sc.calamus.render(), "mappings_in": sc.mappings.render(),
        "expected_effects": effs.iter().map(|e| json!({"bridge": e.bridge, "class": e.class, "key": e.key, "named": e.named, "mode": format!("{:?}", e.expect)})).collect::<Vec<_>>(),
        "mappings_out": real.out.as_ref().ok().map(|o| maps::from_quill(o).render())})); }
}

include!("selfcheck.rs");

/// cases of the Miri slice the thorough tier asks for (measured: see NOTES.md)
const MIRI_CASES: usize = 6;

/// `c15 --miri-slice <seed> <cases> <max seconds>`: single-threaded, no files: generated scenarios (primary motif kind = case index,
/// as in the `generated` workload) with the main jar always as an in-memory `ParsedJar` (the zip variant would interpret the
/// deflate / crc code of the zip crate for minutes), judged exactly like the ordinary workload: duke's class reader on every
/// class of the jar (names come out of modified UTF-8 into the punned name types), the super-type walks of both remappers,
/// `get_specialized_methods`, `add_specialized_methods_to_mappings`, key invariant, entry-by-entry comparison. The javac corpus
/// workload reads files and is not part of the slice. A scenario has 15-40 classes: one case costs the interpreter about a minute.
fn miri_slice(seed: u64, cases: usize, max_s: u64) -> i32 {
    let mut rep = Report::new();
    let deadline = std::time::Instant::now() + std::time::Duration::from_secs(max_s);
    let timing = std::env::args().any(|a| a == "--slice-timing");
    let mut i = 0u64;
    while (i as usize) < cases && std::time::Instant::now() < deadline {
        let t0 = std::time::Instant::now();
        let mut rng = Rng::new(common::rng::case_seed(seed, "C15/miri", i));
        rep.cur = ("miri".into(), i);
        // spread the few cases over the motif kinds: the seed moves the window
        let kind_index = (seed.wrapping_mul(7) + i * 5) % gen::KINDS.len() as u64 + gen::KINDS.len() as u64 * (i % 7);
        let mut sc = gen::gen_scenario(&mut rng, kind_index);
        sc.zip = false;
        let bad = |s: String| -> ! { eprintln!("HARNESS-ERROR C15 (slice case {i}): {s}"); std::process::exit(3) };
        let main_bytes = emitc::emit_jar(&sc.main, sc.layout_seed).unwrap_or_else(|e| bad(e));
        let lib_bytes: Vec<_> = sc.libs.iter().map(|l| emitc::emit_jar(l, sc.layout_seed ^ 0x55).unwrap_or_else(|e| bad(e))).collect();
        rep.add("miri.classes_in_jars", (main_bytes.len() + lib_bytes.iter().map(|l| l.len()).sum::<usize>()) as u64);
        judge(&mut rep, &sc, &main_bytes, &lib_bytes, &mut rng, "generated");
        if timing { println!("SLICE-TIME case {i} {:.4}s classes {}", t0.elapsed().as_secs_f64(), sc.main.classes.len()); }
        i += 1;
    }
    for v in rep.violations.values() { println!("SLICE-OBSERVATION {} ({}x)", v.signature, v.count); }
    println!("MIRI-SLICE done cases={} (asked for {}) evaluations={} observations={} classes_read={} bridges_expected={}", i, cases, rep.evaluations, rep.violations.len(), rep.get("miri.classes_in_jars"), rep.get("methods.must_bridge"));
    0
}

fn main() {
    if let Some((seed, n, max_s)) = common::miri::slice_args() { std::process::exit(miri_slice(seed, n, max_s)); }
    let mut ctx = Ctx::from_args("C15", 40, 540);
    let replay = load_replay(&mut ctx);
    selfcheck();
    let mut rep = Report::new();

    // ---- workload 1 (small, first so that a tight budget cannot starve it): javac corpus (bridges javac really emits), generated mapping sets
    let corpus = cf::corpus::load(&ctx.verif_dir);
    let mut groups: BTreeMap<String, Vec<(String, Vec<u8>)>> = BTreeMap::new();
    for (name, bytes) in corpus { let g = name.split('/').next().unwrap_or("").to_string(); groups.entry(g).or_default().push((name, bytes)); }
    let groups: Vec<(String, Vec<(String, Vec<u8>)>)> = groups.into_iter().collect();
    let per = ctx.tier.pick(40u64, 1000);
    run_cases(&ctx, &replay, &mut rep, "corpus", groups.len() as u64 * per, |rng, rep, i| {
        let (g, files) = &groups[(i % groups.len() as u64) as usize];
        let mut classes = vec![];
        for (n, b) in files { match cf::parse::parse(b) { Ok(m) => classes.push(emitc::from_model(&m)), Err(e) => { eprintln!("HARNESS-ERROR independent parser rejects corpus class {n}: {e}"); std::process::exit(3) } } }
        let sc = corpus_scenario(rng, classes);
        rep.count("corpus.jars");
        judge(rep, &sc, files, &[], rng, &format!("corpus {g}"));
    });

    // ---- workload 2: generated scenarios
    let n = ctx.tier.pick(60_000, 400_000);
    run_cases(&ctx, &replay, &mut rep, "generated", n, |rng, rep, i| {
        let sc = gen::gen_scenario(rng, i);
        let bad = |s: String| -> ! { eprintln!("HARNESS-ERROR C15 (case {i}): {s}"); std::process::exit(3) };
        let main_bytes = emitc::emit_jar(&sc.main, sc.layout_seed).unwrap_or_else(|e| bad(e));
        let lib_bytes: Vec<_> = sc.libs.iter().map(|l| emitc::emit_jar(l, sc.layout_seed ^ 0x55).unwrap_or_else(|e| bad(e))).collect();
        rep.count(&format!("requested.name_source.{}", sc.requested.0));
        rep.count(&format!("requested.target.{}", sc.requested.1));
        judge(rep, &sc, &main_bytes, &lib_bytes, rng, "generated");
    });

    let mut meta = Meta::new("exploration",
        "scenarios generated from a description (value-type universe, 1-3 motifs = one synthetic method each with holder chain, delegate, overridden declaration, noise methods), classes emitted by cf::emit from the description and read back by the independent parser, \
         jar as ParsedJar or zip, optional library jar, two generated mapping sets; primary motif kind x name source x target-entry state cycle with the case index; every second case additionally carries a motif in which the effects of several bridges touch each other (bridge chains of length 2-3 in one class with the methods in random order, chains split over a class and its subclass, two classes sharing official names, cycles, chains with a non-bridge in the middle); plus jars of the javac corpus with generated mapping sets. \
         evaluations = calls of add_specialized_methods_to_mappings judged; non-trivial = the expected output differs from the input or the jar contains a synthetic near miss; distinct = (motif kinds, per expected effect: target-entry state, name source, walk through unmapped class) fingerprint")
        .assume("names are injective per namespace; the class hierarchy is acyclic; calamus entries have both names")
        .assume("R-remap of DESIGN.md 9a is the meaning of 'through inheritance' (depth-first over super class then interfaces in class-file order, providers in order main jar, libraries; the walk does not stop at classes without entry)")
        .assume("a mismatch of one position is judged only when both types and every super type of the delegate's type are classes of the main jar (or the bridge's type is java/lang/Object); everything else is 'open': both outcomes accepted, counted")
        .assume("array types are bridge-compatible only with themselves (JVMS 4.3.2: an array type is not an object type)");
    if replay.is_none() {
        for k in gen::KINDS { meta.oblige(format!("motif {k}: generated >= 20 times"), rep.get(&format!("kind.{k}")) >= 20); }
        for k in ["target.inserted", "target.overwritten", "target.overwritten_with_children", "target.already_same", "target.had_no_named_name", "target.class_lacks", "target.inserted_although_an_ancestor_entry_gives_the_delegate_the_same_name", "target.inserted_while_an_ancestor_entry_names_the_delegate_differently",
            "name.unchanged_intermediary_name", "name.own_class_entry", "name.super_type_depth1", "name.super_type_depth2plus", "name.walk_passes_class_without_entry", "name.from_entry_of_a_library_class", "name.naming_super_type_behind_already_visited_super_type", "name.super_type_depth4plus", "calamus.walk_passes_class_without_entry",
            "hierarchy.unflagged_bridge_deciding_super_type_behind_already_visited_parent.stack_order", "hierarchy.unflagged_bridge_deciding_super_type_behind_already_visited_parent.queue_order",
            "hierarchy.unflagged_bridge_deciding_super_type_behind_already_visited_parent.recursive_preorder", "hierarchy.unflagged_bridge_decided_in_hierarchy_with_redundant_parent",
            "jar.zip", "jar.parsed", "jar.with_library", "open.detected", "scenarios.expected_unchanged"] {
            meta.oblige(format!("at least 10 cases with {k}"), rep.get(k) >= 10);
        }
        for k in gen::CHAIN_KINDS { meta.oblige(format!("motif {k}: generated >= 20 times"), rep.get(&format!("kind.{k}")) >= 20); }
        for k in ["chain.in_one_class.b1_before_b2_in_the_class_file", "chain.in_one_class.b2_before_b1_in_the_class_file", "chain.in_one_class.differing_named_names.b1_first", "chain.in_one_class.differing_named_names.b2_first",
            "chain.in_one_class.entry_of_b2_created_by_the_effect_of_b1", "chain.in_one_class.entry_of_b2_overwritten_by_the_effect_of_b1", "chain.in_one_class.length3", "chain.in_one_class.cycle",
            "chain.across_class_and_subclass.bridge_named_through_an_entry_another_bridge_rewrites", "chain.across_class_and_subclass.unnamed_bridge_and_another_bridge_creates_the_entry_above",
            "chain.two_classes.same_official_names_and_descriptors", "chain.two_classes.same_intermediary_keys_differing_named_names",
            "chain.reading_the_mappings_being_produced_would_differ.bridges_in_description_order", "chain.reading_the_mappings_being_produced_would_differ.bridges_in_reverse_order"] {
            meta.oblige(format!("at least 20 of {k}"), rep.get(k) >= 20);
        }
        meta.oblige("all four invoke opcodes occur in expected bridges", rep.seen_n("invoke_opcodes_in_must_bridges") == 4);
        meta.oblige("near misses of every reason (zero / several callees, private, static, final, arity, incompatible types)", rep.seen_n("near_miss_reasons") >= 7);
        meta.oblige("corpus jars with javac bridges were judged", rep.get("corpus.jars") >= 4 && rep.get("corpus.must_bridges") > 0);
        if ctx.tier == Tier::Thorough {
            let r = common::miri::run_slice(&ctx, "c15", env!("CARGO_MANIFEST_DIR"), MIRI_CASES, 170, 285);
            if let Some(line) = r.ub { rep.cur = ("miri".into(), 0); rep.violation(format!("miri: {line}"), json!({"how": format!("cargo +nightly miri run --offline -p c15 -- --miri-slice <seed> {MIRI_CASES} 170"), "seed": ctx.seed as i64, "status": r.status})); }
            meta.extra.insert("miri_slice".into(), json!(r.status));
        } else { meta.extra.insert("miri_slice".into(), json!("not run in the quick tier")); }
    }
    std::process::exit(finish(&ctx, rep, meta));
}
