#![allow(dead_code)]
pub struct Official;
pub struct Intermediary;
pub struct Named;
#[path = "/repo/src/specialized_methods/mod.rs"]
#[allow(warnings)]
mod specialized_methods;
fn main() {}
