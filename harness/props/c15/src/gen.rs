//! Seeded generator of C15 scenarios: a universe of value types, 1-3 motifs (one synthetic method each, with its
//! holder chain, delegate, overridden declaration), noise, and the two mapping sets with names the generator controls.
use crate::scen::*;
use common::Rng;
use maps::model::{Class as MClass, Field as MField, Maps, Method as MMethod, Param};
use std::collections::{BTreeMap, BTreeSet};

pub const KINDS: &[&str] = &[
    "pos.covariant_return", "pos.erased_to_object", "pos.erased_to_bound", "pos.interface_bridge",
    "pos.unflagged_compatible", "pos.unflagged_object_erasure", "pos.unflagged_identical_signature",
    "pos.flagged_private", "pos.flagged_static", "pos.flagged_final", "pos.flagged_incompatible",
    "pos.same_callee_twice", "pos.delegate_in_super", "pos.inherited_delegate_ref", "pos.two_classes_same_delegate",
    "neg.unflagged_private", "neg.unflagged_static", "neg.unflagged_final", "neg.unflagged_arity",
    "neg.unflagged_prim_vs_obj", "neg.unflagged_unrelated", "neg.unflagged_void_mismatch", "neg.unflagged_array",
    "neg.zero_callees", "neg.two_callees", "neg.lambda", "neg.accessor", "neg.bridge_flag_without_synthetic", "neg.ordinary_method",
    "open.bridge_type_outside_jar", "open.delegate_type_outside_jar", "open.ancestor_outside_jar", "open.indy_plus_one",
    "open.array_call_plus_one", "open.synthetic_attribute_only",
];
pub const NAME_SOURCES: &[&str] = &["direct", "super1", "super2_mapped_mid", "super2_unmapped_mid", "interface", "none", "direct_and_super"];
pub const TARGETS: &[&str] = &["absent", "same", "different_with_children", "no_named_name", "only_in_super", "class_lacks"];

#[derive(Clone, Copy, Debug, PartialEq, Eq)]
pub enum Rel {
    EqPrim, EqObj, EqOut, EqArr, ObjIn, ObjOut, Super1, Super2, SuperItf, SuperRich,
    Unrelated, UnrelRich, Reversed, DelegateObject, PrimObj, ObjPrim, PrimPrim, ArrObject, ArrArr, ObjArr,
    BridgeOut, DelegateOut, AncestorOut,
    VoidVoid, VoidNon, NonVoid,
}
use Rel::*;
const YES_EQ: &[Rel] = &[EqPrim, EqObj, EqOut, EqArr];
const YES_WIDE_IN: &[Rel] = &[Super1, Super2, SuperItf, SuperRich, SuperRich, SuperRich];
const YES_OBJ: &[Rel] = &[ObjIn, ObjOut];
const NO_PRIM: &[Rel] = &[PrimObj, ObjPrim, PrimPrim];
const NO_UNREL: &[Rel] = &[Unrelated, Reversed, DelegateObject, UnrelRich, UnrelRich];
const NO_ARR: &[Rel] = &[ArrObject, ArrArr, ObjArr];

#[derive(Clone, Copy, Debug, PartialEq, Eq)]
pub enum Calls { One, Twice, ZeroNoCode, ZeroEmpty, ZeroField, ZeroIndy, ZeroArray, Two, IndyPlusOne, ArrayPlusOne }
#[derive(Clone, Copy, Debug, PartialEq, Eq)]
pub enum Place { Same, SuperRefSuper, SuperRefSelf }

#[derive(Clone, Debug)]
pub struct Spec {
    pub access: u16,
    pub synthetic_attr: bool,
    pub params: Vec<Rel>,
    pub ret: Rel,
    /// delegate has this many extra (+) / fewer (-) parameters
    pub arity_delta: i32,
    pub calls: Calls,
    pub place: Place,
    pub holder_itf: bool,
    pub two_classes: bool,
    pub name_style: u8, // 0 normal, 1 lambda$.., 2 access$..
    pub expect: Expect,
}

fn pick<T: Copy>(r: &mut Rng, xs: &[T]) -> T { *r.pick(xs) }

/// parameter relations: `k` positions from `base`, then one position replaced by one of `special` (if given)
fn rels(r: &mut Rng, base: &[Rel], special: Option<&[Rel]>, min: usize) -> Vec<Rel> {
    let k = r.usize_in(min, 3);
    let mut v: Vec<Rel> = (0..k).map(|_| pick(r, base)).collect();
    if let Some(s) = special { if k > 0 { let i = r.below(k); v[i] = pick(r, s); } }
    v
}
fn yes_ret(r: &mut Rng) -> Rel { match r.below(6) { 0 => VoidVoid, 1 => EqPrim, 2 => EqObj, 3 => pick(r, YES_WIDE_IN), 4 => pick(r, YES_OBJ), _ => EqOut } }
fn yes_any(r: &mut Rng) -> Vec<Rel> { let mut all = vec![]; all.extend_from_slice(YES_EQ); all.extend_from_slice(YES_WIDE_IN); all.extend_from_slice(YES_OBJ); rels(r, &all, None, 0) }

pub fn spec_for(kind: &str, r: &mut Rng) -> Spec {
    let vis = *r.pick(&[PUBLIC, PUBLIC, PROTECTED, 0]);
    let mut s = Spec { access: vis | SYNTHETIC | BRIDGE, synthetic_attr: false, params: vec![], ret: VoidVoid, arity_delta: 0, calls: Calls::One, place: Place::Same,
        holder_itf: false, two_classes: false, name_style: 0, expect: Expect::Must };
    let unflag = |s: &mut Spec| s.access &= !BRIDGE;
    // a compatible signature with every deciding type inside the jar, and at least one position that is not "equal"
    let compat_in = |r: &mut Rng, s: &mut Spec| {
        s.params = rels(r, &[EqPrim, EqObj, EqOut, EqArr, ObjIn, Super1], None, 0);
        s.ret = match r.below(4) { 0 => VoidVoid, 1 => EqObj, 2 => EqPrim, _ => pick(r, YES_WIDE_IN) };
        if s.params.is_empty() || r.bool() { if matches!(s.ret, VoidVoid | EqObj | EqPrim) && s.params.is_empty() { s.ret = pick(r, YES_WIDE_IN); } else if !s.params.is_empty() { let i = r.below(s.params.len()); s.params[i] = pick(r, YES_WIDE_IN); } }
    };
    match kind {
        "pos.covariant_return" => { s.params = rels(r, YES_EQ, None, 0); s.ret = if r.chance(3, 4) { pick(r, YES_WIDE_IN) } else { pick(r, YES_OBJ) }; }
        "pos.erased_to_object" => { s.params = rels(r, YES_EQ, Some(YES_OBJ), 1); s.ret = pick(r, &[VoidVoid, EqPrim, EqObj, ObjIn]); }
        "pos.erased_to_bound" => { s.params = rels(r, YES_EQ, Some(YES_WIDE_IN), 1); s.ret = yes_ret(r); }
        "pos.interface_bridge" => { s.holder_itf = true; s.access = PUBLIC | SYNTHETIC | BRIDGE; s.params = rels(r, YES_EQ, None, 0); s.ret = pick(r, &[Super1, Super2, ObjIn, SuperItf]); }
        "pos.unflagged_compatible" => { unflag(&mut s); compat_in(r, &mut s); }
        "pos.unflagged_object_erasure" => { unflag(&mut s); s.params = rels(r, YES_EQ, Some(YES_OBJ), 1); s.ret = pick(r, &[VoidVoid, EqPrim, EqObj, ObjIn, ObjOut]); }
        "pos.unflagged_identical_signature" => { unflag(&mut s); s.params = rels(r, YES_EQ, None, 0); s.ret = pick(r, &[VoidVoid, EqPrim, EqObj, EqOut, EqArr]); }
        "pos.flagged_private" => { s.access = PRIVATE | SYNTHETIC | BRIDGE; s.params = yes_any(r); s.ret = yes_ret(r); }
        "pos.flagged_static" => { s.access |= STATIC; s.params = yes_any(r); s.ret = yes_ret(r); }
        "pos.flagged_final" => { s.access |= FINAL; s.params = yes_any(r); s.ret = yes_ret(r); }
        "pos.flagged_incompatible" => {
            match r.below(4) {
                0 => { s.params = yes_any(r); s.ret = yes_ret(r); s.arity_delta = if r.bool() { 1 } else { -1 }; }
                1 => { s.params = rels(r, YES_EQ, Some(NO_PRIM), 1); s.ret = yes_ret(r); }
                2 => { s.params = rels(r, YES_EQ, Some(NO_UNREL), 1); s.ret = yes_ret(r); }
                _ => { s.params = yes_any(r); s.ret = pick(r, &[VoidNon, NonVoid, Unrelated, PrimObj]); }
            }
        }
        "pos.same_callee_twice" => { if r.bool() { unflag(&mut s); compat_in(r, &mut s); } else { s.params = yes_any(r); s.ret = yes_ret(r); } s.calls = Calls::Twice; }
        "pos.delegate_in_super" => { s.params = rels(r, YES_EQ, None, 0); s.ret = pick(r, &[VoidVoid, EqPrim, EqObj]); s.place = Place::SuperRefSuper; }
        "pos.inherited_delegate_ref" => { s.params = rels(r, YES_EQ, Some(YES_OBJ), 1); s.ret = yes_ret(r); s.place = Place::SuperRefSelf; }
        "pos.two_classes_same_delegate" => { s.params = rels(r, YES_EQ, Some(YES_OBJ), 1); s.ret = pick(r, &[VoidVoid, EqPrim, EqObj]); s.two_classes = true; }
        "neg.unflagged_private" => { unflag(&mut s); compat_in(r, &mut s); s.access = PRIVATE | SYNTHETIC; s.expect = Expect::MustNot; }
        "neg.unflagged_static" => { unflag(&mut s); compat_in(r, &mut s); s.access |= STATIC; s.expect = Expect::MustNot; }
        "neg.unflagged_final" => { unflag(&mut s); compat_in(r, &mut s); s.access |= FINAL; s.expect = Expect::MustNot; }
        "neg.unflagged_arity" => { unflag(&mut s); compat_in(r, &mut s); s.arity_delta = if s.params.is_empty() || r.bool() { 1 } else { -1 }; s.expect = Expect::MustNot; }
        "neg.unflagged_prim_vs_obj" => { unflag(&mut s); compat_in(r, &mut s); if s.params.is_empty() || r.chance(1, 3) { s.ret = pick(r, NO_PRIM); } else { let i = r.below(s.params.len()); s.params[i] = pick(r, NO_PRIM); } s.expect = Expect::MustNot; }
        "neg.unflagged_unrelated" => { unflag(&mut s); compat_in(r, &mut s); if s.params.is_empty() || r.chance(1, 3) { s.ret = pick(r, NO_UNREL); } else { let i = r.below(s.params.len()); s.params[i] = pick(r, NO_UNREL); } s.expect = Expect::MustNot; }
        "neg.unflagged_void_mismatch" => { unflag(&mut s); compat_in(r, &mut s); s.ret = pick(r, &[VoidNon, NonVoid]); s.expect = Expect::MustNot; }
        "neg.unflagged_array" => { unflag(&mut s); compat_in(r, &mut s); if s.params.is_empty() || r.chance(1, 3) { s.ret = pick(r, NO_ARR); } else { let i = r.below(s.params.len()); s.params[i] = pick(r, NO_ARR); } s.expect = Expect::MustNot; }
        "neg.zero_callees" => { s.params = yes_any(r); s.ret = yes_ret(r); s.calls = pick(r, &[Calls::ZeroNoCode, Calls::ZeroEmpty, Calls::ZeroField, Calls::ZeroIndy, Calls::ZeroArray]); if r.bool() { unflag(&mut s); } s.expect = Expect::MustNot; }
        "neg.two_callees" => { if r.bool() { unflag(&mut s); compat_in(r, &mut s); } else { s.params = yes_any(r); s.ret = yes_ret(r); } s.calls = Calls::Two; s.expect = Expect::MustNot; }
        "neg.lambda" => { unflag(&mut s); compat_in(r, &mut s); s.access = SYNTHETIC | PRIVATE | if r.chance(3, 4) { STATIC } else { 0 }; s.name_style = 1; s.expect = Expect::MustNot; }
        "neg.accessor" => { unflag(&mut s); compat_in(r, &mut s); s.access = SYNTHETIC | STATIC; s.name_style = 2; s.expect = Expect::MustNot; }
        "neg.bridge_flag_without_synthetic" => { compat_in(r, &mut s); s.access = vis | BRIDGE; s.expect = Expect::MustNot; }
        "neg.ordinary_method" => { compat_in(r, &mut s); s.access = vis; s.expect = Expect::MustNot; }
        "open.bridge_type_outside_jar" => { unflag(&mut s); s.params = rels(r, &[EqPrim, EqObj, ObjIn, Super1], Some(&[BridgeOut]), 1); s.ret = pick(r, &[VoidVoid, EqObj, Super1]); s.expect = Expect::May; }
        "open.delegate_type_outside_jar" => { unflag(&mut s); s.params = rels(r, &[EqPrim, EqObj, ObjIn, Super1], Some(&[DelegateOut]), 1); s.ret = pick(r, &[VoidVoid, EqObj, Super1]); s.expect = Expect::May; }
        "open.ancestor_outside_jar" => { unflag(&mut s); s.params = rels(r, &[EqPrim, EqObj, ObjIn, Super1], Some(&[AncestorOut]), 1); s.ret = pick(r, &[VoidVoid, EqObj, Super1]); s.expect = Expect::May; }
        "open.indy_plus_one" => { s.params = yes_any(r); s.ret = yes_ret(r); s.calls = Calls::IndyPlusOne; s.expect = Expect::May; }
        "open.array_call_plus_one" => { s.params = yes_any(r); s.ret = yes_ret(r); s.calls = Calls::ArrayPlusOne; s.expect = Expect::May; }
        "open.synthetic_attribute_only" => { s.params = yes_any(r); s.ret = yes_ret(r); s.access = vis | BRIDGE; s.synthetic_attr = true; s.expect = Expect::May; }
        other => panic!("harness: unknown kind {other}"),
    }
    s
}

include!("gen_build.rs");
include!("gen_chain.rs");
