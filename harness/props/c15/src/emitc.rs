//! Description -> cf::model classes -> bytes (cf::emit), and back: bytes -> (independent parser) -> description.
use crate::scen::*;
use cf::model::{self as m, Insn, JS};
use maps::desc::{parse_method, Ty};

fn slots(t: &Ty) -> u16 { match t { Ty::Prim('J') | Ty::Prim('D') => 2, _ => 1 } }
fn load_op(t: &Ty) -> u8 { match t { Ty::Prim('J') => 22, Ty::Prim('F') => 23, Ty::Prim('D') => 24, Ty::Prim(_) => 21, _ => 25 } }
fn default_op(t: &Ty) -> u8 { match t { Ty::Prim('J') => 9, Ty::Prim('F') => 11, Ty::Prim('D') => 14, Ty::Prim(_) => 3, _ => 1 } }
fn return_op(t: &Option<Ty>) -> u8 { match t { None => 177, Some(Ty::Prim('J')) => 173, Some(Ty::Prim('F')) => 174, Some(Ty::Prim('D')) => 175, Some(Ty::Prim(_)) => 172, Some(_) => 176 } }
fn cat(t: &Ty) -> u8 { match t { Ty::Prim('J') => 1, Ty::Prim('F') => 2, Ty::Prim('D') => 3, Ty::Prim(_) => 0, _ => 4 } }
fn cast_name(t: &Ty) -> Option<String> { match t { Ty::Obj(n) => Some(n.clone()), Ty::Arr(..) => Some(t.print()), _ => None } }

/// A plausible straight-line body: for every call push receiver and arguments (own parameters where the category
/// fits, with a checkcast where the types differ, constants otherwise), invoke, drop or return the result.
fn body(me: &MethodD) -> m::Code {
    let own = parse_method(&me.desc).expect("own descriptor");
    let is_static = me.access & STATIC != 0;
    let mut own_slots: Vec<(u16, &Ty)> = vec![];
    let mut next = if is_static { 0 } else { 1 };
    for p in &own.params { own_slots.push((next, p)); next += slots(p); }
    let max_locals = next + 1;
    let mut insns = vec![];
    let mut max_params = 0usize;
    if me.reads_field {
        insns.push(Insn::Field(178, m::MemberRef { owner: JS::new("java/lang/System"), name: JS::new("out"), desc: JS::new("Ljava/io/PrintStream;") }));
        insns.push(Insn::Op(87));
    }
    let n = me.calls.len();
    let mut returned = false;
    for (ci, k) in me.calls.iter().enumerate() {
        let last = ci + 1 == n;
        if k.op == 186 {
            insns.push(Insn::InvokeDynamic(Box::new(m::Dynamic {
                bsm: m::Handle { kind: 6, member: m::MemberRef { owner: JS::new("java/lang/invoke/LambdaMetafactory"), name: JS::new("metafactory"),
                    desc: JS::new("(Ljava/lang/invoke/MethodHandles$Lookup;Ljava/lang/String;Ljava/lang/invoke/MethodType;Ljava/lang/invoke/MethodType;Ljava/lang/invoke/MethodHandle;Ljava/lang/invoke/MethodType;)Ljava/lang/invoke/CallSite;") }, itf: false },
                args: vec![], name: JS::new(&k.name), desc: JS::new(&k.desc) })));
            insns.push(Insn::Op(87));
            continue;
        }
        let cd = parse_method(&k.desc).expect("callee descriptor");
        max_params = max_params.max(cd.params.len());
        if k.op != 184 { if is_static { insns.push(Insn::Op(1)); } else { insns.push(Insn::Local(25, 0)); } if k.owner.starts_with('[') { insns.push(Insn::Type(192, JS::new(&k.owner))); } }
        for (i, p) in cd.params.iter().enumerate() {
            match own_slots.get(i) {
                Some((slot, t)) if cat(t) == cat(p) => {
                    insns.push(Insn::Local(load_op(t), *slot));
                    if *t != p { if let Some(cn) = cast_name(p) { insns.push(Insn::Type(192, JS::new(&cn))); } }
                }
                _ => insns.push(Insn::Op(default_op(p))),
            }
        }
        insns.push(Insn::Invoke(k.op, m::MemberRef { owner: JS::new(&k.owner), name: JS::new(&k.name), desc: JS::new(&k.desc) }, k.itf));
        if last && own.ret.is_some() && cd.ret.as_ref().map(cat) == own.ret.as_ref().map(cat) {
            insns.push(Insn::Op(return_op(&own.ret))); returned = true;
        } else if let Some(r) = &cd.ret { insns.push(Insn::Op(if slots(r) == 2 { 88 } else { 87 })); }
    }
    if !returned {
        if let Some(r) = &own.ret { insns.push(Insn::Op(default_op(r))); }
        insns.push(Insn::Op(return_op(&own.ret)));
    }
    m::Code { max_stack: (4 + 2 * max_params) as u16, max_locals, insns, ..Default::default() }
}

pub fn to_model(c: &ClassD) -> m::Class {
    m::Class {
        major: c.major, minor: 0, access: c.access, this_class: JS::new(&c.name), super_class: Some(JS::new(&c.super_name)),
        interfaces: c.interfaces.iter().map(|i| JS::new(i)).collect(),
        methods: c.methods.iter().map(|me| m::Method {
            access: me.access, name: JS::new(&me.name), desc: JS::new(&me.desc), synthetic: me.synthetic_attr,
            code: if me.has_code { Some(body(me)) } else { None }, ..Default::default()
        }).collect(),
        ..Default::default()
    }
}

/// description of a parsed class (independent parser's model): the inverse of `to_model` on what the oracle uses
pub fn from_model(c: &m::Class) -> ClassD {
    ClassD {
        name: c.this_class.show(), access: c.access, super_name: c.super_class.as_ref().map(|s| s.show()).unwrap_or_default(),
        interfaces: c.interfaces.iter().map(|i| i.show()).collect(), major: c.major,
        methods: c.methods.iter().map(|me| {
            let mut calls = vec![]; let mut reads_field = false;
            if let Some(code) = &me.code { for i in &code.insns { match i {
                Insn::Invoke(op, r, itf) => calls.push(CallD { op: *op, owner: r.owner.show(), name: r.name.show(), desc: r.desc.show(), itf: *itf }),
                Insn::InvokeDynamic(d) => calls.push(CallD { op: 186, owner: String::new(), name: d.name.show(), desc: d.desc.show(), itf: false }),
                Insn::Field(..) => reads_field = true,
                _ => {}
            } } }
            MethodD { name: me.name.show(), desc: me.desc.show(), access: me.access, synthetic_attr: me.synthetic, has_code: me.code.is_some(), calls, reads_field }
        }).collect(),
    }
}

/// bytes of every class of a jar description; self-check: the independent parser reads the description back
pub fn emit_jar(j: &JarD, layout_seed: u64) -> Result<Vec<(String, Vec<u8>)>, String> {
    let mut out = vec![];
    for (i, c) in j.classes.iter().enumerate() {
        let layout = if (layout_seed.wrapping_add(i as u64)) % 3 == 0 { cf::emit::Layout::canonical() } else { cf::emit::Layout::random(layout_seed.wrapping_mul(31).wrapping_add(i as u64)) };
        let bytes = cf::emit::emit(&to_model(c), &layout).map_err(|e| format!("emit {}: {e}", c.name))?;
        let back = cf::parse::parse(&bytes).map_err(|e| format!("independent parser rejects emitted class {}: {e}", c.name))?;
        let d = from_model(&back);
        if &d != c { return Err(format!("emitted class does not say what the description says:\n{:?}\nvs\n{:?}", d, c)); }
        out.push((format!("{}.class", c.name), bytes));
    }
    Ok(out)
}
