//! Oracle of C15, written from the property statement and DESIGN.md (C15 entry, 9a R-remap). Works on the scenario
//! DESCRIPTION and on the harness' mapping model only; never calls the code under test.
use crate::scen::*;
use maps::desc::{parse_method, Ty};
use maps::model::{Maps, Method as MMethod};
use std::collections::{BTreeMap, BTreeSet, HashMap};

// ------------------------------------------------------------------------------------------------ predicate

#[derive(Clone, Copy, Debug, PartialEq, Eq)]
pub enum Compat { Yes, No, Open }

/// What is known about the main jar's types (only the main jar counts as "known": the statement speaks of the main jar).
pub struct TypeIndex<'a> { pub parents: HashMap<&'a str, Vec<&'a str>>, pub known: BTreeSet<&'a str> }
impl<'a> TypeIndex<'a> {
    pub fn new(main: &'a JarD) -> TypeIndex<'a> {
        let mut parents = HashMap::new();
        let mut known = BTreeSet::new();
        for c in &main.classes {
            known.insert(c.name.as_str());
            let mut p: Vec<&str> = vec![];
            if c.super_name != OBJECT { p.push(c.super_name.as_str()); }
            for i in &c.interfaces { p.push(i.as_str()); }
            parents.insert(c.name.as_str(), p);
        }
        TypeIndex { parents, known }
    }
    /// all proper super types reachable through main-jar edges (names; may include types outside the jar as leaves)
    pub fn ancestors(&self, c: &str) -> BTreeSet<&'a str> {
        let mut out = BTreeSet::new();
        let mut todo: Vec<&str> = vec![c];
        while let Some(x) = todo.pop() {
            if let Some(ps) = self.parents.get(x) { for p in ps { if out.insert(*p) { todo.push(p); } } }
        }
        out
    }
    /// COVERAGE ONLY (never judges): which plausible-but-wrong ancestor walks would fail to reach `b` from `s` — walks that
    /// stop working on a parent list at the first already collected type ("don't walk a diamond twice" done with `break`):
    /// stack order, queue order, recursive pre-order. Empty when `b` is reached by all of them.
    pub fn missed_by_early_stop(&self, b: &str, s: &str) -> Vec<&'static str> {
        let mut out = vec![];
        for (name, fifo) in [("stack_order", false), ("queue_order", true)] {
            let mut seen: Vec<&str> = vec![]; let mut todo: std::collections::VecDeque<&str> = [s].into();
            while let Some(x) = if fifo { todo.pop_front() } else { todo.pop_back() } {
                for p in self.parents.get(x).into_iter().flatten() { if seen.contains(p) { break; } seen.push(p); todo.push_back(p); }
            }
            if !seen.contains(&b) { out.push(name); }
        }
        fn rec<'x>(ix: &TypeIndex<'x>, x: &str, seen: &mut Vec<&'x str>) { for p in ix.parents.get(x).into_iter().flatten() { if seen.contains(p) { break; } seen.push(p); rec(ix, p, seen); } }
        let mut seen = vec![]; rec(self, s, &mut seen);
        if !seen.contains(&b) { out.push("recursive_preorder"); }
        out
    }
    /// bridge-compatibility of one position (bridge's type, delegate's type)
    pub fn compat(&self, b: &Ty, s: &Ty) -> Compat {
        if b == s { return Compat::Yes; }
        match (b, s) {
            (Ty::Obj(b), Ty::Obj(s)) => {
                if b == OBJECT { return Compat::Yes; }
                let anc = self.ancestors(s);
                if anc.contains(b.as_str()) { return Compat::Yes; }
                // not a known super type: a verdict needs the complete hierarchy of both types inside the jar
                if !self.known.contains(b.as_str()) { return Compat::Open; }
                if s == OBJECT { return Compat::No; }
                if !self.known.contains(s.as_str()) { return Compat::Open; }
                if anc.iter().any(|a| !self.known.contains(a)) { return Compat::Open; }
                Compat::No
            }
            _ => Compat::No,
        }
    }
}

#[derive(Clone, Debug, PartialEq, Eq)]
pub struct Candidate {
    pub class: String, pub name: String, pub desc: String,
    /// the one invoked method (owner, name, desc) if there is exactly one distinct one
    pub spec: Option<(String, String, String)>,
    pub expect: Expect,
    /// instance-free reason (used in signatures)
    pub why: &'static str,
    pub flagged: bool,
    pub ops: Vec<u8>,
    /// coverage fact: an unflagged compatible bridge whose deciding super type an early-stopping ancestor walk would miss
    pub early_stop_traps: Vec<&'static str>,
    /// coverage fact: longest chain of super-type edges between a deciding bridge type and the delegate's type is >= 3,
    /// and the delegate's type has a redundantly declared parent
    pub redundant_hierarchy: bool,
}

/// The statement's predicate, evaluated for EVERY method of the main jar.
pub fn classify(main: &JarD) -> Vec<Candidate> {
    let ix = TypeIndex::new(main);
    let mut out = vec![];
    for c in &main.classes {
        for m in &c.methods {
            let mut cand = Candidate { class: c.name.clone(), name: m.name.clone(), desc: m.desc.clone(), spec: None, expect: Expect::MustNot, why: "", flagged: m.access & BRIDGE != 0, ops: vec![], early_stop_traps: vec![], redundant_hierarchy: false };
            let regular: Vec<&CallD> = m.calls.iter().filter(|k| (182..=185).contains(&k.op) && !k.owner.starts_with('[')).collect();
            let irregular = m.calls.len() != regular.len();
            let distinct: BTreeSet<(&str, &str, &str)> = regular.iter().map(|k| (k.owner.as_str(), k.name.as_str(), k.desc.as_str())).collect();
            cand.ops = regular.iter().map(|k| k.op).collect();
            if m.access & SYNTHETIC == 0 {
                // a Synthetic ATTRIBUTE without the flag: the statement says "synthetic" - left open, never judged
                if m.synthetic_attr && distinct.len() == 1 && m.access & BRIDGE != 0 {
                    let s = distinct.iter().next().unwrap();
                    cand.spec = Some((s.0.into(), s.1.into(), s.2.into())); cand.expect = Expect::May; cand.why = "synthetic by attribute only";
                } else { cand.why = "not synthetic"; }
                out.push(cand); continue;
            }
            if !m.has_code || distinct.is_empty() { cand.why = "zero callees"; out.push(cand); continue; }
            if distinct.len() > 1 { cand.why = "several callees"; out.push(cand); continue; }
            let s = distinct.iter().next().unwrap();
            cand.spec = Some((s.0.into(), s.1.into(), s.2.into()));
            let (e, why) = if m.access & BRIDGE != 0 { (Expect::Must, "flagged bridge") }
                else if m.access & PRIVATE != 0 { (Expect::MustNot, "private") }
                else if m.access & STATIC != 0 { (Expect::MustNot, "static") }
                else if m.access & FINAL != 0 { (Expect::MustNot, "final") }
                else {
                    let (Some(bd), Some(sd)) = (parse_method(&m.desc), parse_method(s.2)) else { panic!("harness: descriptor of the description does not parse") };
                    if bd.params.len() != sd.params.len() { (Expect::MustNot, "arity differs") }
                    else {
                        let mut all: Vec<Compat> = bd.params.iter().zip(&sd.params).map(|(b, s)| ix.compat(b, s)).collect();
                        all.push(match (&bd.ret, &sd.ret) { (None, None) => Compat::Yes, (Some(b), Some(s)) => ix.compat(b, s), _ => Compat::No });
                        if all.contains(&Compat::No) { (Expect::MustNot, "incompatible types") }
                        else if all.contains(&Compat::Open) { (Expect::May, "compatibility decided by a type outside the jar") }
                        else {
                            let mut pos: Vec<(&Ty, &Ty)> = bd.params.iter().zip(&sd.params).collect();
                            if let (Some(b), Some(s)) = (&bd.ret, &sd.ret) { pos.push((b, s)); }
                            for (b, s) in pos { if let (Ty::Obj(b), Ty::Obj(s)) = (b, s) {
                                if b != s && b != OBJECT && ix.ancestors(s).iter().all(|a| ix.known.contains(a)) {
                                    for v in ix.missed_by_early_stop(b, s) { if !cand.early_stop_traps.contains(&v) { cand.early_stop_traps.push(v); } }
                                    // a parent list of s (or of an ancestor) names a type that is also inherited through another entry of the same list
                                    let redundant = std::iter::once(s.as_str()).chain(ix.ancestors(s)).any(|t| { let ps = ix.parents.get(t).cloned().unwrap_or_default(); ps.iter().any(|p| ps.iter().any(|q| q != p && ix.ancestors(q).contains(p))) });
                                    if redundant { cand.redundant_hierarchy = true; }
                                }
                            } }
                            (Expect::Must, "unflagged, inheritable and compatible")
                        }
                    }
                };
            cand.expect = e; cand.why = why;
            if irregular && e != Expect::MustNot { cand.expect = Expect::May; cand.why = "invokedynamic or array-class invocation next to the one callee"; }
            out.push(cand);
        }
    }
    out
}

// ------------------------------------------------------------------------------------------------ reference remapper

/// super types per class, several providers, first provider that knows the class answers (R-remap)
#[derive(Clone, Debug, Default)]
pub struct Graph { pub providers: Vec<Vec<(String, Vec<String>)>> }
impl Graph {
    pub fn from_jars(main: &JarD, libs: &[JarD]) -> Graph {
        let one = |j: &JarD| j.classes.iter().map(|c| {
            let mut s = vec![c.super_name.clone()];
            for i in &c.interfaces { if !s.contains(i) { s.push(i.clone()); } }
            (c.name.clone(), s)
        }).collect::<Vec<_>>();
        let mut providers = vec![one(main)];
        for l in libs { providers.push(one(l)); }
        Graph { providers }
    }
    pub fn supers(&self, c: &str) -> Option<&Vec<String>> {
        for p in &self.providers { for (k, s) in p { if k == c { return Some(s); } } }
        None
    }
    /// COVERAGE ONLY: would a walk that leaves a super-type list at the first already visited type (java/lang/Object
    /// not counted) fail to reach `target` from `start`? (stack order or recursive pre-order)
    pub fn missed_by_early_stop(&self, start: &str, target: &str) -> bool {
        let sup = |c: &str| -> Vec<&str> { self.supers(c).map(|v| v.iter().map(|s| s.as_str()).filter(|s| *s != OBJECT).collect()).unwrap_or_default() };
        let mut seen: Vec<&str> = vec![]; let mut todo = vec![start];
        while let Some(x) = todo.pop() { for p in sup(x) { if seen.contains(&p) { break; } seen.push(p); todo.push(p); } }
        let a = !seen.contains(&target);
        fn rec<'x>(sup: &dyn Fn(&str) -> Vec<&'x str>, x: &str, seen: &mut Vec<&'x str>, d: usize) { if d > 64 { return; } for p in sup(x) { if seen.contains(&p) { break; } seen.push(p); rec(sup, p, seen, d + 1); } }
        let mut seen2: Vec<&str> = vec![]; rec(&sup, start, &mut seen2, 0);
        a || !seen2.contains(&target)
    }
    pub fn map_names(&self, f: &dyn Fn(&str) -> String) -> Graph {
        Graph { providers: self.providers.iter().map(|p| p.iter().map(|(c, s)| {
            let mut t: Vec<String> = vec![];
            for x in s { let y = f(x); if !t.contains(&y) { t.push(y); } }
            (f(c), t)
        }).collect()).collect() }
    }
}

/// Reference remapper first namespace -> second namespace of a two-namespace set (methods and classes only).
thread_local! { pub static HALF_NAMED: std::cell::Cell<bool> = const { std::cell::Cell::new(false) }; }
pub struct RefRemap { class: HashMap<String, String>, tables: HashMap<String, HashMap<(String, String), String>> }
#[derive(Clone, Debug, PartialEq, Eq)]
pub struct Hit { pub name: String, pub depth: usize, pub via_tableless: bool, pub declaring: String }
impl RefRemap {
    pub fn new(m: &Maps) -> RefRemap {
        let mut class = HashMap::new();
        let mut tables = HashMap::new();
        for c in m.classes.values() {
            // a class without a name in the second namespace is unmapped as a class; whether its members - which may have names in both -
            // still map is open. With HALF_NAMED set their tables are included (used only to find the scenarios in which that matters).
            if let (Some(a), None, true) = (&c.names[0], &c.names[1], HALF_NAMED.with(|h| h.get())) {
                let mut t = HashMap::new();
                for ((n, d), me) in &c.methods { if let (Some(_), Some(to)) = (&me.names[0], &me.names[1]) { t.insert((n.clone(), d.clone()), to.clone()); } }
                tables.insert(a.clone(), t);
                continue;
            }
            let (Some(a), Some(b)) = (&c.names[0], &c.names[1]) else { continue };
            class.insert(a.clone(), b.clone());
            let mut t = HashMap::new();
            for ((n, d), me) in &c.methods { if let (Some(_), Some(to)) = (&me.names[0], &me.names[1]) { t.insert((n.clone(), d.clone()), to.clone()); } }
            tables.insert(a.clone(), t);
        }
        RefRemap { class, tables }
    }
    pub fn class(&self, c: &str) -> String { self.class.get(c).cloned().unwrap_or_else(|| c.to_string()) }
    pub fn desc(&self, d: &str) -> String { maps::desc::map_desc(d, |c| self.class(c)) }
    /// `stop` = false: reference semantics (the walk does not stop at a class without table). `stop` = true reproduces
    /// the C06 known defect and is used ONLY to classify a mismatch, never to judge.
    pub fn method(&self, g: &Graph, owner: &str, name: &str, desc: &str, stop: bool) -> Option<Hit> { self.walk(g, owner, name, desc, stop, 0, false) }
    fn walk(&self, g: &Graph, owner: &str, name: &str, desc: &str, stop: bool, depth: usize, via: bool) -> Option<Hit> {
        assert!(depth < 64, "harness: cyclic hierarchy generated");
        let t = self.tables.get(owner);
        if let Some(t) = t {
            if let Some(n) = t.get(&(name.to_string(), desc.to_string())) { return Some(Hit { name: n.clone(), depth, via_tableless: via, declaring: owner.to_string() }); }
        } else if stop { return None; }
        let via = via || t.is_none();
        for s in g.supers(owner)? { if let Some(h) = self.walk(g, s, name, desc, stop, depth + 1, via) { return Some(h); } }
        None
    }
}

// ------------------------------------------------------------------------------------------------ expected effect

#[derive(Clone, Debug, PartialEq, Eq)]
pub struct Effect {
    /// intermediary name of the bridge's class
    pub class: String,
    /// (intermediary name, intermediary descriptor) of the invoked method
    pub key: (String, String),
    /// named name of the bridge through inheritance (the bridge's intermediary name when nothing names it)
    pub named: String,
    pub expect: Expect,
    // --- facts for coverage
    pub named_hit: Option<(usize, bool)>,
    pub cal_via_tableless: bool,
    /// the naming entry belongs to a class that only a LIBRARY jar declares
    pub named_in_library: bool,
    /// named name an ANCESTOR's entry (same intermediary name + descriptor) gives the delegate, seen from the bridge's class
    pub delegate_inherited_name: Option<String>,
    /// coverage fact: the naming super type sits behind an already visited super type (redundant interface / diamond)
    pub naming_type_behind_visited: bool,
    pub bridge: (String, String, String),
    /// (intermediary name, intermediary descriptor) of the BRIDGE: the key under which an entry of the bridge's class names it
    pub bridge_key: (String, String),
    /// intermediary name of the class whose entry names the bridge (reference walk); None when nothing names it
    pub named_declaring: Option<String>,
    /// the invoked method in official names
    pub delegate: (String, String, String),
}

/// `cal_stop` / `nam_stop`: see RefRemap::method (both false = reference).
pub fn effects(sc: &Scenario, cands: &[Candidate], cal_stop: bool, nam_stop: bool) -> Vec<Effect> {
    let cal = RefRemap::new(&sc.calamus);
    let nam = RefRemap::new(&sc.mappings);
    let g_off = Graph::from_jars(&sc.main, &sc.libs);
    let g_int = g_off.map_names(&|c| cal.class(c));
    let mut out = vec![];
    for c in cands {
        if c.expect == Expect::MustNot { continue; }
        let Some(spec) = &c.spec else { continue };
        let bh = cal.method(&g_off, &c.class, &c.name, &c.desc, cal_stop);
        let sh = cal.method(&g_off, &spec.0, &spec.1, &spec.2, cal_stop);
        // facts always from the reference walk
        let via = cal.method(&g_off, &c.class, &c.name, &c.desc, false).is_some_and(|h| h.via_tableless) || cal.method(&g_off, &spec.0, &spec.1, &spec.2, false).is_some_and(|h| h.via_tableless);
        let b_name = bh.map(|h| h.name).unwrap_or_else(|| c.name.clone());
        let s_name = sh.map(|h| h.name).unwrap_or_else(|| spec.1.clone());
        let (b_class, b_desc, s_desc) = (cal.class(&c.class), cal.desc(&c.desc), cal.desc(&spec.2));
        let nh = nam.method(&g_int, &b_class, &b_name, &b_desc, nam_stop);
        let full = nam.method(&g_int, &b_class, &b_name, &b_desc, false);
        let named_in_library = full.as_ref().is_some_and(|h| g_int.providers.iter().skip(1).any(|p| p.iter().any(|(c, _)| *c == h.declaring)) && !g_int.providers[0].iter().any(|(c, _)| *c == h.declaring));
        let naming_type_behind_visited = full.as_ref().is_some_and(|h| h.depth >= 1 && g_int.missed_by_early_stop(&b_class, &h.declaring));
        let named_declaring = full.as_ref().map(|h| h.declaring.clone());
        let named_hit = full.map(|h| (h.depth, h.via_tableless));
        let named = nh.map(|h| h.name).unwrap_or_else(|| b_name.clone());
        let delegate_inherited_name = nam.method(&g_int, &b_class, &s_name, &s_desc, false).filter(|h| h.depth >= 1).map(|h| h.name);
        out.push(Effect { class: b_class, key: (s_name, s_desc), named, expect: c.expect, named_hit, cal_via_tableless: via, named_in_library, delegate_inherited_name, naming_type_behind_visited, bridge: (c.class.clone(), c.name.clone(), c.desc.clone()),
            bridge_key: (b_name, b_desc), named_declaring, delegate: spec.clone() });
    }
    out
}

/// input mappings + the given effects (entry created if absent, otherwise only its names replaced)
pub fn apply(input: &Maps, effs: &[&Effect]) -> Maps {
    let mut out = input.clone();
    for e in effs {
        let Some(c) = out.classes.get_mut(&e.class) else { continue };
        let names = vec![Some(e.key.0.clone()), Some(e.named.clone())];
        match c.methods.get_mut(&e.key) {
            Some(m) => m.names = names,
            None => { c.methods.insert(e.key.clone(), MMethod { names, comment: None, params: BTreeMap::new() }); }
        }
    }
    out
}

/// effects grouped by the entry they concern; a group with several different names is outside the quantifier
/// ("at most one bridge per delegate and class"): any one of them may win
pub fn groups(effs: &[Effect]) -> Vec<Vec<&Effect>> {
    let mut g: BTreeMap<(&str, &(String, String)), Vec<&Effect>> = BTreeMap::new();
    for e in effs { g.entry((e.class.as_str(), &e.key)).or_default().push(e); }
    g.into_values().collect()
}
pub fn has_collision(effs: &[Effect]) -> bool { groups(effs).iter().any(|g| g.iter().any(|e| e.named != g[0].named)) }

/// All outputs the statement allows: per concerned entry one of its effects (or none if all of them are May).
/// None when there are too many alternatives to enumerate (never on generated scenarios).
pub fn allowed(input: &Maps, effs: &[Effect]) -> Option<Vec<Maps>> {
    let gs = groups(effs);
    let mut options: Vec<Vec<Option<&Effect>>> = vec![];
    let mut total = 1usize;
    for g in &gs {
        let mut o: Vec<Option<&Effect>> = vec![];
        if g.iter().all(|e| e.expect == Expect::May) { o.push(None); }
        for e in g { if !o.iter().any(|x| x.is_some_and(|x| x.named == e.named)) { o.push(Some(e)); } }
        total = total.saturating_mul(o.len());
        options.push(o);
    }
    if total > 512 { return None; }
    let mut out = vec![];
    for mut k in 0..total {
        let mut sel = vec![];
        for o in &options { if let Some(e) = o[k % o.len()] { sel.push(e); } k /= o.len(); }
        out.push(apply(input, &sel));
    }
    Some(out)
}

/// Differences between an expected and an observed set as (instance-free kind, where). Method entries whose
/// (class, key) is in `targets` are reported as "bridge target entry", everything else as "entry not concerned".
pub fn compare(e: &Maps, o: &Maps, targets: &BTreeSet<(String, (String, String))>) -> Vec<(String, String)> {
    let mut out = vec![];
    if e.namespaces != o.namespaces { out.push(("namespaces differ".to_string(), format!("{:?} vs {:?}", e.namespaces, o.namespaces))); }
    for k in e.classes.keys() { if !o.classes.contains_key(k) { out.push(("class entry missing".into(), k.clone())); } }
    for k in o.classes.keys() { if !e.classes.contains_key(k) { out.push(("unexpected class entry".into(), k.clone())); } }
    for (ck, ec) in &e.classes {
        let Some(oc) = o.classes.get(ck) else { continue };
        if ec.names != oc.names { out.push(("entry not concerned: class names differ".into(), ck.clone())); }
        if ec.comment != oc.comment { out.push(("entry not concerned: class comment differs".into(), ck.clone())); }
        if ec.fields != oc.fields { out.push(("entry not concerned: fields differ".into(), ck.clone())); }
        let keys: BTreeSet<&(String, String)> = ec.methods.keys().chain(oc.methods.keys()).collect();
        for mk in keys {
            let is_t = targets.contains(&(ck.clone(), mk.clone()));
            let pre = if is_t { "bridge target entry" } else { "entry not concerned" };
            let at = format!("class {ck} method {}{}", mk.0, mk.1);
            match (ec.methods.get(mk), oc.methods.get(mk)) {
                (Some(_), None) => out.push((format!("{pre}: method entry missing"), at)),
                (None, Some(om)) => out.push((format!("{pre}: unexpected method entry"), format!("{at} observed {:?}", om.names))),
                (Some(em), Some(om)) => {
                    if em.names != om.names { out.push((format!("{pre}: names differ"), format!("{at} expected {:?} observed {:?}", em.names, om.names))); }
                    if em.comment != om.comment { out.push((format!("{pre}: comment differs"), at.clone())); }
                    if em.params != om.params { out.push((format!("{pre}: parameters differ"), at)); }
                }
                (None, None) => {}
            }
        }
    }
    out
}

// ------------------------------------------------------------------------------------------------ effects that touch each other (coverage facts)

impl Graph {
    /// all proper super types (names of this graph), any provider
    pub fn ancestors(&self, c: &str) -> BTreeSet<String> {
        let mut out = BTreeSet::new();
        let mut todo = vec![c.to_string()];
        while let Some(x) = todo.pop() { if let Some(ss) = self.supers(&x) { for s in ss { if out.insert(s.clone()) { todo.push(s.clone()); } } } }
        out
    }
}

/// COVERAGE ONLY (never judges): how the expected Must effects of one scenario touch each other. A *link* is an ordered
/// pair (e1, e2): the entry e1 rewrites or creates is keyed like e2's BRIDGE and lies on the walk that names e2's bridge —
/// in e2's own class (e1's delegate IS e2's bridge: a bridge chain) or in a proper super type of e2's class.
/// The expectation itself never looks at this: every effect takes its name from the INPUT mappings (`effects`).
#[derive(Clone, Debug, Default, PartialEq, Eq)]
pub struct ChainFacts {
    /// links inside one class (bridge chains of length 2), by class-file order of the two bridges
    pub b1_before_b2: usize,
    pub b2_before_b1: usize,
    /// ... whose two bridges have different named names in the input, by order
    pub differing_b1_first: usize,
    pub differing_b2_first: usize,
    /// ... where the class has no entry for b2 in the input (b1's effect creates the entry that would name b2) / has one
    pub bridge_entry_created: usize,
    pub bridge_entry_overwritten: usize,
    /// e1 -> e2 -> e3 inside one class, three different bridges
    pub length3: usize,
    /// e1 -> e2 and e2 -> e1
    pub cycles: usize,
    /// e1 rewrites the entry of a proper super type through which e2's bridge is named
    pub across_named_through_rewritten_entry: usize,
    /// e1 creates, in a proper super type, an entry keyed like e2's bridge, which nothing names in the input
    pub across_unnamed_bridge_entry_created_above: usize,
    /// two bridges of different classes with equal official name + descriptor, their delegates too
    pub shared_official_names: usize,
    /// ... that also have equal intermediary keys but different named names
    pub shared_intermediary_keys_differing_names: usize,
}
impl ChainFacts {
    pub fn any_link(&self) -> bool { self.b1_before_b2 + self.b2_before_b1 + self.across_named_through_rewritten_entry + self.across_unnamed_bridge_entry_created_above > 0 }
}

pub fn chain_facts(sc: &Scenario, effs: &[Effect]) -> ChainFacts {
    let mut f = ChainFacts::default();
    let must: Vec<&Effect> = effs.iter().filter(|e| e.expect == Expect::Must && sc.mappings.classes.contains_key(&e.class)).collect();
    if must.len() < 2 { return f; }
    let pos = |b: &(String, String, String)| -> usize { sc.main.classes.iter().find(|c| c.name == b.0).and_then(|c| c.methods.iter().position(|m| m.name == b.1 && m.desc == b.2)).expect("harness: bridge of an effect is not in the jar") };
    let mut same: Vec<(usize, usize)> = vec![];
    let mut g_int: Option<Graph> = None;
    for (i, e1) in must.iter().enumerate() {
        for (j, e2) in must.iter().enumerate() {
            if i == j || e1.key != e2.bridge_key { continue; }
            if e1.class == e2.class {
                same.push((i, j));
                let first = pos(&e1.bridge) < pos(&e2.bridge);
                if first { f.b1_before_b2 += 1; } else { f.b2_before_b1 += 1; }
                if e1.named != e2.named { if first { f.differing_b1_first += 1; } else { f.differing_b2_first += 1; } }
                if sc.mappings.classes[&e1.class].methods.contains_key(&e2.bridge_key) { f.bridge_entry_overwritten += 1; } else { f.bridge_entry_created += 1; }
            } else {
                let g = g_int.get_or_insert_with(|| { let cal = RefRemap::new(&sc.calamus); Graph::from_jars(&sc.main, &sc.libs).map_names(&|c| cal.class(c)) });
                if !g.ancestors(&e2.class).contains(&e1.class) { continue; }
                if e2.named_declaring.as_deref() == Some(e1.class.as_str()) { f.across_named_through_rewritten_entry += 1; }
                else if e2.named_declaring.is_none() && !sc.mappings.classes[&e1.class].methods.contains_key(&e1.key) { f.across_unnamed_bridge_entry_created_above += 1; }
            }
        }
    }
    for &(i, j) in &same { for &(j2, k) in &same { if j == j2 && k != i { f.length3 += 1; } if j == j2 && k == i && i < j { f.cycles += 1; } } }
    for (i, e1) in must.iter().enumerate() { for e2 in must.iter().skip(i + 1) {
        if e1.bridge.0 != e2.bridge.0 && (&e1.bridge.1, &e1.bridge.2) == (&e2.bridge.1, &e2.bridge.2) && (&e1.delegate.1, &e1.delegate.2) == (&e2.delegate.1, &e2.delegate.2) {
            f.shared_official_names += 1;
            if e1.bridge_key == e2.bridge_key && e1.named != e2.named { f.shared_intermediary_keys_differing_names += 1; }
        }
    } }
    f
}

/// COVERAGE ONLY, and the model of the defect class the chain motifs exist for: what an implementation produces that
/// handles the bridges one after the other (description order, or reversed) and takes each bridge's named name from the
/// mappings AS UPDATED SO FAR instead of from the given ones. Never used as an expectation; the monitor counts the
/// scenarios on which it differs from the reference, and the start-up canary checks that it is told apart.
pub fn stale_read_variant(sc: &Scenario, effs: &[Effect], reverse: bool) -> Maps {
    let cal = RefRemap::new(&sc.calamus);
    let g_int = Graph::from_jars(&sc.main, &sc.libs).map_names(&|c| cal.class(c));
    let mut order: Vec<&Effect> = effs.iter().filter(|e| e.expect == Expect::Must).collect();
    if reverse { order.reverse(); }
    let mut cur = sc.mappings.clone();
    for e in order {
        let nam = RefRemap::new(&cur);
        let named = nam.method(&g_int, &e.class, &e.bridge_key.0, &e.bridge_key.1, false).map(|h| h.name).unwrap_or_else(|| e.bridge_key.0.clone());
        let e2 = Effect { named, ..e.clone() };
        cur = apply(&cur, &[&e2]);
    }
    cur
}
