// included by gen.rs — the builder that turns kinds / situations into a Scenario

struct Uni { rich: Vec<String>, rich_anc: BTreeMap<String, BTreeSet<String>>, traps: Vec<(String, String)>, v0: String, v1: String, v2: String, iv: String, iv2: String, u: String, iu: String, vx: String, lib: Option<(String, String, String)>, vl: Option<String> }

struct B<'r> {
    r: &'r mut Rng,
    main: Vec<ClassD>,
    lib: Vec<ClassD>,
    n: usize,
    cal_class: BTreeMap<String, String>,
    cal_methods: BTreeMap<String, BTreeMap<(String, String), String>>,
    map: Maps,
    map_absent: BTreeSet<String>,
    intents: Vec<Intent>,
    major: u16,
    uni: Option<Uni>,
    /// (owner, name, desc, static, owner is interface) of methods noise bodies may call
    callable: Vec<(String, String, String, bool, bool)>,
}

fn b26(mut n: usize) -> String { let mut s = String::new(); loop { s.insert(0, (b'a' + (n % 26) as u8) as char); n /= 26; if n == 0 { break; } n -= 1; } s }
fn l(c: &str) -> String { format!("L{c};") }
fn mdesc(p: &[String], r: &Option<String>) -> String { format!("({}){}", p.concat(), r.clone().unwrap_or_else(|| "V".into())) }
fn named_row(a: &str, b: Option<String>) -> Vec<Option<String>> { vec![Some(a.to_string()), b] }

impl<'r> B<'r> {
    fn fresh(&mut self) -> usize { self.n += 1; self.n }
    fn int_class(&self, off: &str) -> String { self.cal_class.get(off).cloned().unwrap_or_else(|| off.to_string()) }
    fn int_desc(&self, d: &str) -> String { maps::desc::map_desc(d, |c| self.int_class(c)) }
    fn class_mut(&mut self, name: &str) -> &mut ClassD { self.main.iter_mut().find(|c| c.name == name).expect("harness: class exists") }
    fn is_itf(&self, name: &str) -> bool { self.main.iter().find(|c| c.name == name).is_some_and(|c| c.is_interface()) }

    fn new_class(&mut self, itf: bool, super_name: &str, interfaces: Vec<String>, in_cal: bool) -> String {
        let n = self.fresh();
        let off = match self.r.below(10) { 0..=5 => b26(n + 30), 6 | 7 => format!("x/{}", b26(n + 30)), _ => format!("com/example/Thing{n}") };
        if in_cal {
            let int = match self.r.below(4) { 0 => format!("C_{n}"), 1 => format!("net/minecraft/world/C_{n}"), _ => format!("net/minecraft/unmapped/C_{n}") };
            self.cal_class.insert(off.clone(), int);
        }
        let access = if itf { 0x0601 } else { 0x0021 | if self.r.chance(1, 6) { ABSTRACT } else { 0 } };
        self.main.push(ClassD { name: off.clone(), access, super_name: super_name.to_string(), interfaces, methods: vec![], major: self.major });
        off
    }
    /// adds a method; a clash of (name, desc) inside the class is resolved by renaming. Returns the final name.
    fn add_method(&mut self, class: &str, mut m: MethodD) -> String {
        let n = self.fresh();
        let c = self.class_mut(class);
        if c.methods.iter().any(|x| x.name == m.name && x.desc == m.desc) { m.name = format!("{}_{n}", m.name.replace(['<', '>'], "")); }
        let name = m.name.clone();
        c.methods.push(m);
        name
    }
    fn cal_method(&mut self, class: &str, name: &str, desc: &str, int: &str) {
        if !self.cal_class.contains_key(class) { return; }
        self.cal_methods.entry(class.to_string()).or_default().insert((name.to_string(), desc.to_string()), int.to_string());
    }
    /// class entry of the intermediary->named set for an official class (created on demand); None when deliberately absent
    fn map_class(&mut self, off: &str) -> Option<&mut MClass> {
        if self.map_absent.contains(off) { return None; }
        let int = self.int_class(off);
        if !self.map.classes.contains_key(&int) {
            let n = self.fresh();
            let named = match self.r.below(3) { 0 => format!("Named{n}"), 1 => format!("net/example/world/Named{n}"), _ => format!("net/example/Named{n}") };
            self.map.classes.insert(int.clone(), MClass { names: named_row(&int, Some(named)), comment: None, fields: BTreeMap::new(), methods: BTreeMap::new() });
        }
        self.map.classes.get_mut(&int)
    }
    fn map_method(&mut self, off_class: &str, int_name: &str, int_desc: &str, named: Option<String>) -> Option<&mut MMethod> {
        let c = self.map_class(off_class)?;
        let e = c.methods.entry((int_name.to_string(), int_desc.to_string())).or_insert_with(|| MMethod { names: vec![], comment: None, params: BTreeMap::new() });
        e.names = named_row(int_name, named);
        Some(e)
    }

    /// Value types with a hostile hierarchy: interface lists of length 0-4 in every order, redundantly declared
    /// interfaces (also inherited through the super class or an earlier interface), diamonds, class depth up to 4,
    /// plus planted shapes where a bound is reachable only after an already visited parent. Returns the types,
    /// their proper ancestors and the planted (bound, sub type) pairs.
    fn rich(&mut self) -> (Vec<String>, BTreeMap<String, BTreeSet<String>>, Vec<(String, String)>) {
        let mut all: Vec<String> = vec![];
        let mut parents: BTreeMap<String, Vec<String>> = BTreeMap::new();
        let anc_of = |parents: &BTreeMap<String, Vec<String>>, t: &str| -> BTreeSet<String> {
            let mut out = BTreeSet::new(); let mut todo = vec![t.to_string()];
            while let Some(x) = todo.pop() { for p in parents.get(&x).into_iter().flatten() { if out.insert(p.clone()) { todo.push(p.clone()); } } }
            out
        };
        // redundancy: sometimes list, at a random position, a type that is already inherited through the others
        let redundant = |r: &mut Rng, parents: &BTreeMap<String, Vec<String>>, list: &mut Vec<String>, from: usize| {
            let mut inh: Vec<String> = vec![]; for p in list.iter() { for a in anc_of(parents, p) { if !list.contains(&a) && !inh.contains(&a) { inh.push(a); } } }
            if !inh.is_empty() && r.chance(3, 5) { let x = r.pick(&inh).clone(); let at = r.usize_in(from, list.len()); list.insert(at, x); }
        };
        let mut itfs: Vec<String> = vec![];
        for k in 0..self.r.usize_in(3, 6) {
            let mut pool = itfs.clone(); self.r.shuffle(&mut pool);
            let mut ps: Vec<String> = pool.into_iter().take(self.r.below(k.min(4) + 1)).collect();
            redundant(self.r, &parents, &mut ps, 0);
            let n = self.new_class(true, OBJECT, ps.clone(), true);
            parents.insert(n.clone(), ps); itfs.push(n.clone()); all.push(n);
        }
        let mut sup: Option<String> = None;
        for _ in 0..self.r.usize_in(1, 4) {
            let mut pool = itfs.clone(); self.r.shuffle(&mut pool);
            let mut ps: Vec<String> = pool.into_iter().take(self.r.below(5)).collect();
            let mut full: Vec<String> = sup.iter().cloned().chain(ps.iter().cloned()).collect();
            redundant(self.r, &parents, &mut full, sup.iter().count());
            ps = full[sup.iter().count()..].to_vec();
            let n = self.new_class(false, sup.as_deref().unwrap_or(OBJECT), ps.clone(), true);
            parents.insert(n.clone(), full); sup = Some(n.clone()); all.push(n);
        }
        // planted shapes
        let mut traps = vec![];
        for _ in 0..self.r.usize_in(1, 2) {
            let i = self.new_class(true, OBJECT, vec![], true);
            let j = self.new_class(true, OBJECT, vec![], true);
            parents.insert(i.clone(), vec![]); parents.insert(j.clone(), vec![]);
            let (sub, extra): (String, Vec<String>) = match self.r.below(4) {
                0 => { // class A implements I, J; class S extends A implements I
                    let a = self.new_class(false, OBJECT, vec![i.clone(), j.clone()], true); parents.insert(a.clone(), vec![i.clone(), j.clone()]);
                    let s = self.new_class(false, &a, vec![i.clone()], true); parents.insert(s.clone(), vec![a.clone(), i.clone()]); (s, vec![a])
                }
                1 => { // interface K extends I, J; class C implements I, K
                    let k = self.new_class(true, OBJECT, vec![i.clone(), j.clone()], true); parents.insert(k.clone(), vec![i.clone(), j.clone()]);
                    let c = self.new_class(false, OBJECT, vec![i.clone(), k.clone()], true); parents.insert(c.clone(), vec![i.clone(), k.clone()]); (c, vec![k])
                }
                2 => { // interface Q extends I; interface R extends I, J; class D implements R, Q  (diamond, bound behind the revisited I)
                    let q = self.new_class(true, OBJECT, vec![i.clone()], true); parents.insert(q.clone(), vec![i.clone()]);
                    let rr = self.new_class(true, OBJECT, vec![i.clone(), j.clone()], true); parents.insert(rr.clone(), vec![i.clone(), j.clone()]);
                    let ps = if self.r.bool() { vec![rr.clone(), q.clone()] } else { vec![q.clone(), rr.clone()] };
                    let d = self.new_class(false, OBJECT, ps.clone(), true); parents.insert(d.clone(), ps); (d, vec![q, rr])
                }
                _ => { // class A implements I; class S extends A implements I, J  (the own list re-declares I before J)
                    let a = self.new_class(false, OBJECT, vec![i.clone()], true); parents.insert(a.clone(), vec![i.clone()]);
                    let s = self.new_class(false, &a, vec![i.clone(), j.clone()], true); parents.insert(s.clone(), vec![a.clone(), i.clone(), j.clone()]); (s, vec![a])
                }
            };
            traps.push((j.clone(), sub.clone()));
            all.push(i); all.push(j); all.push(sub); all.extend(extra);
        }
        let anc: BTreeMap<String, BTreeSet<String>> = all.iter().map(|t| (t.clone(), anc_of(&parents, t))).collect();
        (all, anc, traps)
    }

    fn universe(&mut self, with_lib: bool) {
        let lib = if with_lib {
            let (l0, l1, li) = ("lib/L0".to_string(), "lib/L1".to_string(), "lib/LI".to_string());
            self.lib.push(ClassD { name: l0.clone(), access: 0x0021, super_name: OBJECT.into(), interfaces: vec![], methods: vec![], major: 52 });
            self.lib.push(ClassD { name: li.clone(), access: 0x0601, super_name: OBJECT.into(), interfaces: vec![], methods: vec![], major: 52 });
            self.lib.push(ClassD { name: l1.clone(), access: 0x0021, super_name: l0.clone(), interfaces: vec![li.clone()], methods: vec![], major: 52 });
            Some((l0, l1, li))
        } else { None };
        let iv = self.new_class(true, OBJECT, vec![], true);
        let iv2 = self.new_class(true, OBJECT, vec![iv.clone()], true);
        let v0 = self.new_class(false, OBJECT, vec![], true);
        let v1 = self.new_class(false, &v0, vec![iv2.clone()], true);
        let v2 = self.new_class(false, &v1, vec![], true);
        let u = self.new_class(false, OBJECT, vec![], true);
        let iu = self.new_class(true, OBJECT, vec![], true);
        let vx = self.new_class(false, "java/util/AbstractList", vec![], true);
        let vl = lib.as_ref().map(|(_, l1, _)| { let l1 = l1.clone(); self.new_class(false, &l1, vec![], true) });
        let (rich, rich_anc, traps) = self.rich();
        self.uni = Some(Uni { rich, rich_anc, traps, v0, v1, v2, iv, iv2, u, iu, vx, lib, vl });
    }

    /// (bridge's type, delegate's type) for one position; None = void
    fn types(&mut self, rel: Rel) -> (Option<String>, Option<String>) {
        let u = self.uni.as_ref().expect("universe");
        let r = &mut *self.r;
        let prim = |r: &mut Rng| r.pick(&["I", "J", "Z", "F", "D", "B", "C", "S"]).to_string();
        let inj = |r: &mut Rng| { let c: &String = *r.pick(&[&u.v0, &u.v1, &u.v2, &u.iv, &u.u, &u.iu]); l(c) };
        let out = |r: &mut Rng| { let c: &str = *r.pick(&["java/lang/String", "java/lang/Integer", "java/util/List"]); l(c) };
        let obj = l(OBJECT);
        let s = |a: String, b: String| (Some(a), Some(b));
        match rel {
            EqPrim => { let p = prim(r); s(p.clone(), p) }
            EqObj => { let t = if r.chance(1, 5) { obj.clone() } else { inj(r) }; s(t.clone(), t) }
            EqOut => { let t = out(r); s(t.clone(), t) }
            EqArr => { let t = match r.below(3) { 0 => "[I".to_string(), 1 => format!("[{}", inj(r)), _ => "[[Ljava/lang/String;".to_string() }; s(t.clone(), t) }
            ObjIn => s(obj, inj(r)),
            ObjOut => s(obj, out(r)),
            Super1 => { let (a, b) = *r.pick(&[(&u.v0, &u.v1), (&u.v1, &u.v2), (&u.iv2, &u.v1), (&u.iv, &u.iv2)]); s(l(a), l(b)) }
            Super2 => { let (a, b) = *r.pick(&[(&u.v0, &u.v2), (&u.iv, &u.v1), (&u.iv2, &u.v2)]); s(l(a), l(b)) }
            SuperItf => { let (a, b) = *r.pick(&[(&u.iv, &u.v2), (&u.iv2, &u.v1), (&u.iv, &u.v1)]); s(l(a), l(b)) }
            SuperRich => {
                let sub: Vec<&String> = u.rich.iter().filter(|t| !u.rich_anc[*t].is_empty()).collect();
                if !u.traps.is_empty() && r.chance(2, 3) { let (a, b) = r.pick(&u.traps).clone(); s(l(&a), l(&b)) }
                else if sub.is_empty() { s(l(&u.v0), l(&u.v1)) }
                else { let t: &String = *r.pick(&sub); let anc: Vec<&String> = u.rich_anc[t].iter().collect(); let a: &String = *r.pick(&anc); s(l(a), l(t)) }
            }
            UnrelRich => {
                let mut found = None;
                for _ in 0..12 { let a: &String = r.pick(&u.rich); let b: &String = r.pick(&u.rich); if a != b && !u.rich_anc[b].contains(a) { found = Some((a.clone(), b.clone())); break; } }
                match found { Some((a, b)) => s(l(&a), l(&b)), None => s(l(&u.u), l(&u.v1)) }
            }
            Unrelated => { let (a, b) = *r.pick(&[(&u.u, &u.v1), (&u.v0, &u.u), (&u.iu, &u.v1), (&u.iv, &u.u), (&u.iu, &u.iv2), (&u.u, &u.v2)]); s(l(a), l(b)) }
            Reversed => { let (a, b) = *r.pick(&[(&u.v1, &u.v0), (&u.v2, &u.v0), (&u.v1, &u.iv), (&u.v2, &u.v1), (&u.iv2, &u.iv)]); s(l(a), l(b)) }
            DelegateObject => s(inj(r), obj),
            PrimObj => { let p = prim(r); let t = if r.bool() { l("java/lang/Integer") } else { inj(r) }; s(p, t) }
            ObjPrim => { let t = if r.bool() { obj.clone() } else { inj(r) }; s(t, prim(r)) }
            PrimPrim => { let (a, b) = *r.pick(&[("I", "J"), ("I", "Z"), ("F", "D"), ("J", "I"), ("S", "I"), ("B", "C")]); s(a.into(), b.into()) }
            ArrObject => s(obj, if r.bool() { "[I".into() } else { format!("[{}", inj(r)) }),
            ArrArr => { match r.below(3) { 0 => s(format!("[{}", l(&u.v0)), format!("[{}", l(&u.v1))), 1 => s("[Ljava/lang/Object;".into(), format!("[{}", l(&u.v1))), _ => s("[I".into(), "[[I".into()) } }
            ObjArr => { if r.bool() { s("[I".into(), obj) } else { s(format!("[{}", l(&u.v0)), l(&u.v0)) } }
            BridgeOut => { match r.below(3) { 0 => s(l("java/lang/Number"), l("java/lang/Integer")), 1 => s(l("java/lang/Comparable"), l(&u.v1)), _ => match &u.lib { Some((l0, _, _)) => s(l(l0), l(&u.v1)), None => s(l("java/lang/CharSequence"), l(&u.u)) } } }
            DelegateOut => { match r.below(3) { 0 => s(l(&u.v0), l("java/lang/Integer")), 1 => s(l(&u.u), l("java/lang/String")), _ => match &u.lib { Some((_, l1, _)) => s(l(&u.v0), l(l1)), None => s(l(&u.iv), l("java/util/ArrayList")) } } }
            AncestorOut => { match &u.vl { Some(vl) if r.bool() => s(l(&u.u), l(vl)), _ => { let c: &String = *r.pick(&[&u.u, &u.v0, &u.iv]); s(l(c), l(&u.vx)) } } }
            VoidVoid => (None, None),
            VoidNon => (None, Some(if r.bool() { prim(r) } else { inj(r) })),
            NonVoid => (Some(if r.bool() { prim(r) } else { inj(r) }), None),
        }
    }

    fn motif(&mut self, kind: &'static str, ns: &str, tgt: &str) {
        let spec = spec_for(kind, self.r);
        // ---- descriptors
        let (mut bp, mut dp) = (vec![], vec![]);
        for rel in &spec.params { let (b, d) = self.types(*rel); bp.push(b.expect("param")); dp.push(d.expect("param")); }
        if spec.arity_delta > 0 { let (_, d) = self.types(EqPrim); dp.push(d.expect("prim")); }
        if spec.arity_delta < 0 { if dp.is_empty() { let (b, _) = self.types(EqObj); bp.push(b.expect("obj")); } else { dp.pop(); } }
        let (br, dr) = self.types(spec.ret);
        let (bdesc, ddesc) = (mdesc(&bp, &br), mdesc(&dp, &dr));
        // ---- holder chain
        let deep = self.r.chance(1, 4);
        let mut b = match ns { "direct" | "none" | "interface" => if deep { self.r.usize_in(3, 4) } else { self.r.below(3) }, "super1" | "direct_and_super" => if deep { self.r.usize_in(3, 4) } else { self.r.usize_in(1, 2) }, _ => if deep { self.r.usize_in(3, 4) } else { 2 } };
        if (spec.place != Place::Same || tgt == "only_in_super") && b == 0 { b = 1; }
        let gap: Option<usize> = if self.r.chance(1, 16) { Some(self.r.below(b + 1)) } else { None };
        let top_itf = spec.holder_itf || (spec.place == Place::Same && b >= 1 && self.r.chance(1, 4));
        let mut h: Vec<String> = vec![];
        for i in 0..=b {
            let itf = spec.holder_itf || (i == 0 && top_itf && b >= 1);
            let in_cal = gap != Some(i);
            let name = if i == 0 { self.new_class(itf, OBJECT, vec![], in_cal) }
                else if self.is_itf(&h[i - 1]) { let p = h[i - 1].clone(); self.new_class(itf, OBJECT, vec![p], in_cal) }
                else { let p = h[i - 1].clone(); self.new_class(itf, &p, vec![], in_cal) };
            h.push(name);
        }
        let hb = h[b].clone();
        // the chain may hang below a class of the LIBRARY jar (its super types come from the second provider)
        let lib_root: Option<String> = match self.uni.as_ref().and_then(|u| u.lib.clone()) { Some((l0, l1, _)) if !self.is_itf(&h[0]) && self.r.chance(if ns == "none" { 3 } else { 1 }, 5) => { let root = h[0].clone(); self.class_mut(&root).super_name = l1; Some(l0) }, _ => None };
        // an interface that declares the overridden method (name source "interface")
        let mut isrc: Option<String> = None;
        if ns == "interface" {
            let i = self.new_class(true, OBJECT, vec![], true);
            let at = if b == 0 || self.r.chance(3, 5) { b } else { self.r.below(b) };
            let holder = h[at].clone();
            match self.r.below(4) {
                0 | 1 => self.class_mut(&holder).interfaces.push(i.clone()),
                2 => {
                    // diamond: two intermediate interfaces, both below a filler F; the naming interface only behind the revisited F
                    let f = self.new_class(true, OBJECT, vec![], true);
                    let m1 = self.new_class(true, OBJECT, vec![f.clone()], true);
                    let m2 = self.new_class(true, OBJECT, vec![f.clone(), i.clone()], true);
                    let mut ps = vec![m1.clone(), m2.clone()]; if self.r.bool() { ps.reverse(); }
                    if self.r.chance(1, 3) { self.map_absent.insert(m2.clone()); }
                    for x in [&f, &m1, &m2] { let x = x.clone(); self.map_class(&x); }
                    self.class_mut(&holder).interfaces.extend(ps);
                }
                _ => {
                    // the holder lists fillers and the naming interface in any order; a lower class of the chain re-declares some of them
                    let mut ps = vec![i.clone()];
                    for _ in 0..self.r.usize_in(2, 3) { let f = self.new_class(true, OBJECT, vec![], true); self.map_class(&f); ps.push(f); }
                    self.r.shuffle(&mut ps);
                    self.class_mut(&holder).interfaces.extend(ps.clone());
                    if at < b { let mut again = ps.clone(); self.r.shuffle(&mut again); again.truncate(self.r.usize_in(1, again.len())); let low = h[self.r.usize_in(at + 1, b)].clone(); for x in again { if !self.class_mut(&low).interfaces.contains(&x) { self.class_mut(&low).interfaces.push(x); } } }
                }
            }
            if at != b && self.r.chance(1, 3) { self.map_absent.insert(holder); }
            isrc = Some(i);
        }
        if ns == "super2_unmapped_mid" { let k = self.r.usize_in(1, b - 1); self.map_absent.insert(h[k].clone()); if b > 2 && self.r.bool() { let k2 = self.r.usize_in(1, b - 1); self.map_absent.insert(h[k2].clone()); } }
        // holder classes carry filler interfaces (lists up to 4, any order), some of them redundantly re-declared further down
        if self.r.bool() {
            let mut fillers = vec![];
            for _ in 0..self.r.usize_in(1, 3) { let k = self.r.below(2); let ps: Vec<String> = fillers.iter().take(k).cloned().collect(); let f = self.new_class(true, OBJECT, ps, true); if self.r.chance(2, 3) { self.map_class(&f); } fillers.push(f); }
            for _ in 0..self.r.usize_in(1, 4) {
                let c = self.r.pick(&h).clone(); let f = self.r.pick(&fillers).clone();
                let len = self.class_mut(&c).interfaces.len();
                if len < 4 && c != f && !self.class_mut(&c).interfaces.contains(&f) { let at = self.r.below(len + 1); self.class_mut(&c).interfaces.insert(at, f); }
            }
        }
        if tgt == "class_lacks" { self.map_absent.insert(hb.clone()); }
        // ---- names
        let n = self.fresh();
        let bn = match spec.name_style { 1 => format!("lambda$main${n}"), 2 => format!("access${n}00"), _ => match self.r.below(8) { 0 => "compareTo".to_string(), 1 => "apply".to_string(), 2 => "get".to_string(), k => b26(k - 3) } };
        let dcl = if spec.place == Place::Same { hb.clone() } else { h[b - 1].clone() };
        let ref_owner = if spec.place == Place::SuperRefSuper { h[b - 1].clone() } else { hb.clone() };
        let same_sig_clash = bdesc == ddesc && dcl == hb;
        let dn = if spec.name_style == 0 && !same_sig_clash && self.r.chance(3, 5) { bn.clone() } else { format!("{}{}", b26(self.r.below(26)), n) };
        // ---- delegate
        let owner_itf = self.is_itf(&ref_owner);
        let d_static = (!spec.holder_itf || self.major >= 52) && spec.place == Place::Same && self.r.chance(1, 8); // also in an interface holder (static interface method: invokestatic through an InterfaceMethodref)
        let d_private = !d_static && !owner_itf && spec.place == Place::Same && self.r.chance(1, 10);
        let (op, itf) = if d_static { (184, owner_itf) } else if owner_itf { (185, true) } else if spec.place == Place::SuperRefSuper || d_private { (183, false) } else { (182, false) };
        let d_abstract = self.is_itf(&dcl) && !d_static && self.r.bool();
        let d_access = if d_private { PRIVATE } else { *self.r.pick(&[PUBLIC, PUBLIC, PROTECTED]) } | if d_static { STATIC } else { 0 } | if d_abstract { ABSTRACT } else { 0 }
            | if self.is_itf(&dcl) { PUBLIC } else { 0 };
        let d_access = if self.is_itf(&dcl) { d_access & !PROTECTED } else { d_access };
        let dn = self.add_method(&dcl, MethodD { name: dn, desc: ddesc.clone(), access: d_access, synthetic_attr: false, has_code: !d_abstract, calls: vec![], reads_field: false });
        let c = CallD { op, owner: ref_owner.clone(), name: dn.clone(), desc: ddesc.clone(), itf };
        let indy = CallD { op: 186, owner: String::new(), name: "run".into(), desc: "()Ljava/lang/Runnable;".into(), itf: false };
        let arr = CallD { op: 182, owner: if self.r.bool() { "[I".into() } else { format!("[{}", l(&self.uni.as_ref().expect("u").v0)) }, name: "clone".into(), desc: "()Ljava/lang/Object;".into(), itf: false };
        let (mut has_code, mut reads_field, mut access) = (true, false, spec.access);
        let calls = match spec.calls {
            Calls::One => vec![c.clone()],
            Calls::Twice => vec![c.clone(), c.clone()],
            Calls::ZeroNoCode => { has_code = false; access = (access | ABSTRACT) & !(FINAL | PRIVATE | STATIC); vec![] }
            Calls::ZeroEmpty => vec![],
            Calls::ZeroField => { reads_field = true; vec![] }
            Calls::ZeroIndy => vec![indy.clone()],
            Calls::ZeroArray => vec![arr.clone()],
            Calls::Two => {
                let c2 = match self.r.below(4) {
                    0 => CallD { op: 182, owner: OBJECT.into(), name: "hashCode".into(), desc: "()I".into(), itf: false },
                    // a constructor call is an invoked method like any other (`new Helper(); this.specialized(x)` invokes two distinct methods)
                    3 => CallD { op: 183, owner: if self.r.bool() { OBJECT.into() } else { hb.clone() }, name: "<init>".into(), desc: "()V".into(), itf: false },
                    1 => { let d2 = format!("(I{}", &ddesc[1..]); let n2 = self.add_method(&dcl, MethodD { name: dn.clone(), desc: d2.clone(), access: PUBLIC, synthetic_attr: false, has_code: true, calls: vec![], reads_field: false }); CallD { name: n2, desc: d2, ..c.clone() } }
                    _ => { let n2 = self.add_method(&dcl, MethodD { name: format!("other{n}"), desc: ddesc.clone(), access: PUBLIC, synthetic_attr: false, has_code: true, calls: vec![], reads_field: false }); CallD { name: n2, ..c.clone() } }
                };
                if self.r.bool() { vec![c.clone(), c2] } else { vec![c2, c.clone(), c.clone()] }
            }
            Calls::IndyPlusOne => if self.r.bool() { vec![indy.clone(), c.clone()] } else { vec![c.clone(), indy.clone()] },
            Calls::ArrayPlusOne => if self.r.bool() { vec![arr.clone(), c.clone()] } else { vec![c.clone(), arr.clone()] },
        };
        // ---- the synthetic itself
        let bn = self.add_method(&hb, MethodD { name: bn, desc: bdesc.clone(), access, synthetic_attr: spec.synthetic_attr, has_code, calls, reads_field });
        self.intents.push(Intent { kind, class: hb.clone(), name: bn.clone(), desc: bdesc.clone(), expect: spec.expect });
        // ---- overridden declarations up the chain
        let mut declarers: Vec<String> = vec![];
        match ns {
            "super1" => { declarers.push(h[b - 1].clone()); if b >= 2 && self.r.chance(1, 3) { declarers.push(h[0].clone()); } }
            "super2_mapped_mid" | "super2_unmapped_mid" => { declarers.push(h[0].clone()); if self.r.chance(1, 4) { declarers.push(h[1].clone()); } }
            "interface" => declarers.push(isrc.clone().expect("isrc")),
            "direct_and_super" => declarers.push(h[b - 1].clone()),
            _ => { if b >= 1 && self.r.bool() { declarers.push(h[0].clone()); } }
        }
        for d in &declarers {
            let abs = self.is_itf(d) || self.r.chance(1, 3);
            self.add_method(d, MethodD { name: bn.clone(), desc: bdesc.clone(), access: PUBLIC | if abs { ABSTRACT } else { 0 }, synthetic_attr: false, has_code: !abs, calls: vec![], reads_field: false });
        }
        // ---- calamus (official -> intermediary)
        let readable = matches!(bn.as_str(), "compareTo" | "apply" | "get");
        let fam = if readable && self.r.chance(7, 10) { bn.clone() } else { format!("m_{}", self.fresh()) };
        let top = declarers.first().cloned().unwrap_or_else(|| hb.clone());
        if fam != bn || self.r.bool() { self.cal_method(&top, &bn, &bdesc, &fam); }
        for d in declarers.clone().iter().skip(1) { if self.r.bool() { self.cal_method(d, &bn, &bdesc, &fam); } }
        let mut b_int = fam.clone();
        if top != hb {
            if self.r.chance(1, 20) { b_int = format!("m_{}", self.fresh()); let x = b_int.clone(); self.cal_method(&hb, &bn, &bdesc, &x); if !self.cal_class.contains_key(&hb) { b_int = fam.clone(); } }
            else if self.r.chance(3, 10) { self.cal_method(&hb, &bn, &bdesc, &fam); }
        }
        let s_int = if self.r.chance(1, 6) { dn.clone() } else { format!("m_{}", self.fresh()) };
        if s_int != dn { self.cal_method(&dcl, &dn, &ddesc, &s_int); }
        let (b_int_desc, s_int_desc) = (self.int_desc(&bdesc), self.int_desc(&ddesc));
        // ---- mappings (intermediary -> named)
        for c in h.clone() { self.map_class(&c); }
        if let Some(i) = &isrc { let i = i.clone(); self.map_class(&i); }
        let nm = format!("bridgeName{}", self.fresh());
        let mut believed = nm.clone();
        match ns {
            "direct" => { self.map_method(&hb, &b_int, &b_int_desc, Some(nm.clone())); }
            "super1" => { let c = h[b - 1].clone(); self.map_method(&c, &fam, &b_int_desc, Some(nm.clone())); if b >= 2 && self.r.chance(1, 3) { let c0 = h[0].clone(); self.map_method(&c0, &fam, &b_int_desc, Some(format!("{nm}Top"))); } }
            "super2_mapped_mid" | "super2_unmapped_mid" => { let c = h[0].clone(); self.map_method(&c, &fam, &b_int_desc, Some(nm.clone())); }
            "interface" => { let c = isrc.clone().expect("isrc"); self.map_method(&c, &fam, &b_int_desc, Some(nm.clone())); }
            "direct_and_super" => { self.map_method(&hb, &b_int, &b_int_desc, Some(nm.clone())); let c = h[b - 1].clone(); self.map_method(&c, &fam, &b_int_desc, Some(format!("{nm}Super"))); }
            _ => {
                match &lib_root {
                    Some(l0) if self.r.chance(3, 4) => { let l0 = l0.clone(); self.map_method(&l0, &b_int, &b_int_desc, Some(nm.clone())); }
                    _ => { believed = b_int.clone(); }
                }
            }
        }
        if tgt != "class_lacks" && self.r.chance(1, 25) { if let Some(c) = self.map_class(&hb) { c.names[1] = None; } }
        let children = |m: &mut MMethod, r: &mut Rng| {
            m.comment = Some(format!("doc of the delegate {}", r.below(1000)));
            m.params.insert(0, Param { names: vec![Some("p_0".into()), Some("value".into())], comment: if r.bool() { Some("the value".into()) } else { None } });
            if r.bool() { m.params.insert(1, Param { names: vec![None, Some("other".into())], comment: None }); }
        };
        match tgt {
            "same" => { self.map_method(&hb, &s_int, &s_int_desc, Some(believed.clone())); }
            "different_with_children" => { let old = format!("oldDelegateName{}", self.fresh()); let mut r2 = self.r.fork(); if let Some(m) = self.map_method(&hb, &s_int, &s_int_desc, Some(old)) { children(m, &mut r2); } }
            "no_named_name" => { let mut r2 = self.r.fork(); if let Some(m) = self.map_method(&hb, &s_int, &s_int_desc, None) { children(m, &mut r2); } }
            "only_in_super" => { let c = h[self.r.below(b)].clone(); let old = if self.r.bool() { believed.clone() } else { format!("superDelegateName{}", self.fresh()) }; let mut r2 = self.r.fork(); if let Some(m) = self.map_method(&c, &s_int, &s_int_desc, Some(old)) { children(m, &mut r2); } }
            _ => {}
        }
        self.callable.push((ref_owner.clone(), dn.clone(), ddesc.clone(), d_static, owner_itf));
        // ---- a second class bridging the same delegate
        if spec.two_classes {
            let in_cal = true;
            let h2 = if self.is_itf(&hb) { let p = hb.clone(); self.new_class(false, OBJECT, vec![p], in_cal) } else { let p = hb.clone(); self.new_class(false, &p, vec![], in_cal) };
            let k2 = self.r.below(26);
            let bn2 = self.add_method(&h2, MethodD { name: format!("{}2", b26(k2)), desc: bdesc.clone(), access: PUBLIC | SYNTHETIC | BRIDGE, synthetic_attr: false, has_code: true, calls: vec![c.clone()], reads_field: false });
            self.intents.push(Intent { kind, class: h2.clone(), name: bn2.clone(), desc: bdesc.clone(), expect: Expect::Must });
            let i2 = format!("m_{}", self.fresh());
            self.cal_method(&h2, &bn2, &bdesc, &i2);
            self.map_class(&h2);
            if self.r.bool() { let nm2 = format!("secondBridge{}", self.fresh()); self.map_method(&h2, &i2, &b_int_desc, Some(nm2)); }
            if self.r.bool() { let old = format!("oldInSub{}", self.fresh()); self.map_method(&h2, &s_int, &s_int_desc, Some(old)); }
        }
    }

    fn noise(&mut self) {
        // ordinary methods that call around, some named in the mappings with comments / parameters; fields; a stale class
        let classes: Vec<String> = self.main.iter().map(|c| c.name.clone()).collect();
        let k = self.r.usize_in(1, 5);
        for _ in 0..k {
            let c = self.r.pick(&classes).clone();
            let itf = self.is_itf(&c);
            let n = self.fresh();
            let desc = self.r.pick(&["()V", "(I)I", "(Ljava/lang/String;)V", "(JD)J"]).to_string();
            let mut calls = vec![];
            for _ in 0..self.r.below(3) {
                if self.callable.is_empty() { break; }
                let (o, nn, d, st, oi) = self.r.pick(&self.callable).clone();
                calls.push(CallD { op: if st { 184 } else if oi { 185 } else { 182 }, owner: o, name: nn, desc: d, itf: oi });
            }
            let synth_static = self.r.chance(1, 10);
            let name = if synth_static { format!("access${n}") } else { format!("n{n}") };
            let access = if synth_static { STATIC | SYNTHETIC } else { PUBLIC | if itf { 0 } else if self.r.chance(1, 5) { FINAL } else { 0 } };
            let rf = self.r.chance(1, 5);
            let name = self.add_method(&c, MethodD { name, desc: desc.clone(), access, synthetic_attr: false, has_code: true, calls, reads_field: rf });
            let int = format!("m_{}", self.fresh());
            if self.r.chance(4, 5) { self.cal_method(&c, &name, &desc, &int); }
            let int = if self.cal_methods.get(&c).is_some_and(|t| t.contains_key(&(name.clone(), desc.clone()))) { int } else { name.clone() };
            if self.r.chance(2, 3) {
                let idesc = self.int_desc(&desc);
                let nm = format!("noise{}", self.fresh());
                let cm = self.r.bool(); let pm = self.r.bool();
                if let Some(m) = self.map_method(&c, &int, &idesc, Some(nm)) {
                    if cm { m.comment = Some("noise method\nsecond line".into()); }
                    if pm { m.params.insert(0, Param { names: vec![Some("p_0".into()), Some("count".into())], comment: None }); }
                }
            }
        }
        for _ in 0..self.r.below(3) {
            let c = self.r.pick(&classes).clone();
            let n = self.fresh();
            let fd = if self.r.bool() { "I".to_string() } else { let pc = self.r.pick(&classes).clone(); l(&self.int_class(&pc)) };
            let cm = self.r.bool();
            if let Some(mc) = self.map_class(&c) { mc.fields.insert((format!("f_{n}"), fd), MField { names: named_row(&format!("f_{n}"), Some(format!("field{n}"))), comment: if cm { Some("a field".into()) } else { None } }); }
        }
        if self.r.chance(1, 4) { if let Some(c) = classes.first() { let c = c.clone(); if let Some(mc) = self.map_class(&c) { mc.comment = Some("class comment".into()); } } }
        if self.r.chance(1, 5) {
            let n = self.fresh();
            let mut stale = MClass { names: named_row(&format!("net/minecraft/unmapped/C_{n}"), Some(format!("net/example/Stale{n}"))), comment: None, fields: BTreeMap::new(), methods: BTreeMap::new() };
            stale.methods.insert((format!("m_{n}"), "()V".into()), MMethod { names: named_row(&format!("m_{n}"), Some("gone".into())), comment: None, params: BTreeMap::new() });
            self.map.classes.insert(format!("net/minecraft/unmapped/C_{n}"), stale);
        }
    }
}

/// Case `i` of the generated workload: primary kind, name source and target-entry state cycle with the index
/// (every combination appears once per KINDS x NAME_SOURCES x TARGETS cases), everything else is drawn from `rng`.
pub fn gen_scenario(rng: &mut Rng, i: u64) -> Scenario {
    let (nk, nn, nt) = (KINDS.len() as u64, NAME_SOURCES.len() as u64, TARGETS.len() as u64);
    let kind = KINDS[(i % nk) as usize];
    let ns = NAME_SOURCES[((i / nk) % nn) as usize];
    let tgt = TARGETS[((i / (nk * nn)) % nt) as usize];
    let major = *rng.pick(&[49u16, 50, 51, 52, 55, 61]);
    let with_lib = rng.bool();
    let zip = rng.chance(1, 4);
    let layout_seed = rng.next_u64();
    let mut b = B { r: rng, main: vec![], lib: vec![], n: 0, cal_class: BTreeMap::new(), cal_methods: BTreeMap::new(), map: Maps::new(&["intermediary", "named"]),
        map_absent: BTreeSet::new(), intents: vec![], major, uni: None, callable: vec![] };
    b.universe(with_lib);
    b.motif(kind, ns, tgt);
    let extra = b.r.below(3);
    for _ in 0..extra {
        let k = *b.r.pick(KINDS); let n2 = *b.r.pick(NAME_SOURCES); let t2 = *b.r.pick(TARGETS);
        b.motif(k, n2, t2);
    }
    // every second case carries a motif in which the effects of several bridges touch each other (gen_chain.rs); the kind
    // cycles with the case index, 1 in 4 of those cases has a second one
    if i % 2 == 1 {
        b.chain_motif(CHAIN_KINDS[((i / 2) % CHAIN_KINDS.len() as u64) as usize]);
        if b.r.chance(1, 4) { let k = *b.r.pick(CHAIN_KINDS); b.chain_motif(k); }
    }
    // value types appear in the mappings most of the time
    let values: Vec<String> = b.main.iter().take(9).map(|c| c.name.clone()).collect();
    for v in values { if b.r.chance(3, 4) { b.map_class(&v); } }
    b.noise();
    b.r.shuffle(&mut b.main);
    let mut calamus = Maps::new(&["official", "intermediary"]);
    for (off, int) in &b.cal_class {
        let mut c = MClass { names: named_row(off, Some(int.clone())), comment: None, fields: BTreeMap::new(), methods: BTreeMap::new() };
        if let Some(ms) = b.cal_methods.get(off) { for ((n, d), to) in ms { c.methods.insert((n.clone(), d.clone()), MMethod { names: named_row(n, Some(to.clone())), comment: None, params: BTreeMap::new() }); } }
        calamus.classes.insert(off.clone(), c);
    }
    Scenario { main: JarD { classes: b.main }, libs: if b.lib.is_empty() { vec![] } else { vec![JarD { classes: b.lib }] }, calamus, mappings: b.map, intents: b.intents, zip, layout_seed, requested: (ns.to_string(), tgt.to_string()) }
}
