// included by gen.rs — motifs in which the expected effects of several bridges TOUCH each other: the entry one bridge
// rewrites (or creates) is the entry that names another bridge. Added after an independently seeded defect (the result
// depended on state produced earlier in the same call) went unnoticed: the older motifs have one synthetic each, so the
// delegate's entry of one bridge was never the bridge's entry of another.
//
//   chain.two / chain.three   b1 -> b2 -> [b3 ->] s inside one class, every bridge synthetic with one callee; the bridges are
//                             named from different places (own entry with / without children, own entry WITHOUT named name
//                             plus a super type, super class, interface, nowhere), so their named names differ; the entry of
//                             b2 is overwritten or CREATED by b1's effect; methods of the class in random order
//   chain.split               class P: b1 -> x;  class Q extends [M extends] P: b2 (same name + descriptor as x) -> s.
//                             Q's bridge is named through P's entry of x, which P's own bridge rewrites (or creates)
//   chain.shared_names        two classes (unrelated, or one below the other) whose bridges and delegates have the same
//                             official names and descriptors; same / different / kept intermediary names; different named names
//   chain.cycle               b1 -> b2 and b2 -> b1 (both flagged): the two entries swap their names
//   chain.near_miss_middle    b1 -> m -> s where m is NOT a bridge (not synthetic / two callees / static unflagged): only b1 renames

pub const CHAIN_KINDS: &[&str] = &["chain.two", "chain.three", "chain.split", "chain.shared_names", "chain.cycle", "chain.near_miss_middle"];

/// where a bridge of a chain motif gets its named name from
#[derive(Clone, Copy, Debug, PartialEq, Eq)]
enum Src { Own, OwnWithChildren, Super, Itf, Nowhere, OwnUnnamedAndSuper, OwnAndSuper }
const SRCS: &[Src] = &[Src::Own, Src::Own, Src::OwnWithChildren, Src::Super, Src::Super, Src::Itf, Src::Nowhere, Src::OwnUnnamedAndSuper, Src::OwnAndSuper];

fn give_children(m: &mut MMethod, r: &mut Rng, what: &str) {
    m.comment = Some(format!("doc of {what} {}", r.below(1000)));
    m.params.insert(0, Param { names: vec![Some("p_0".into()), Some("value".into())], comment: if r.bool() { Some("the value".into()) } else { None } });
    if r.bool() { m.params.insert(1, Param { names: vec![None, Some("other".into())], comment: None }); }
}

impl<'r> B<'r> {
    /// `n` descriptors from the widest (first bridge) to the narrowest (final delegate); each one is bridge-compatible with
    /// the next (equal, or a super type inside the main jar, or Object), so unflagged synthetics are bridges too
    fn ladder(&mut self, n: usize) -> Vec<String> {
        let u = self.uni.as_ref().expect("universe");
        let (v0, v1, v2, iv, iv2, other) = (u.v0.clone(), u.v1.clone(), u.v2.clone(), u.iv.clone(), u.iv2.clone(), u.u.clone());
        let lad: Vec<String> = match self.r.below(3) { 0 => vec![OBJECT.into(), v0, v1, v2], 1 => vec![OBJECT.into(), iv, iv2, v1, v2], _ => vec![v0, v1, v2] };
        let mut idx: Vec<usize> = (0..n).map(|_| self.r.below(lad.len())).collect();
        idx.sort();
        let fixed: Vec<String> = (0..self.r.below(3)).map(|_| match self.r.below(4) { 0 => "I".to_string(), 1 => "J".to_string(), 2 => l("java/lang/String"), _ => l(&other) }).collect();
        let place = self.r.below(3); // the varying type: 0 first parameter, 1 return type, 2 both
        let ret_fixed = match self.r.below(3) { 0 => "V".to_string(), 1 => "I".to_string(), _ => l(&other) };
        (0..n).map(|k| {
            let t = l(&lad[idx[k]]);
            let mut ps = vec![]; if place != 1 { ps.push(t.clone()); } ps.extend(fixed.iter().cloned());
            format!("({}){}", ps.concat(), if place != 0 { t } else { ret_fixed.clone() })
        }).collect()
    }

    /// official names for methods with the given descriptors that live in ONE class: javac style (all the same name where
    /// the descriptors allow it) or different names
    fn chain_names(&mut self, descs: &[String]) -> Vec<String> {
        let n = self.fresh();
        let base = match self.r.below(8) { 0 => "compareTo".to_string(), 1 => "apply".to_string(), 2 => "get".to_string(), k => b26(k - 3) };
        let mut out: Vec<String> = vec![];
        for (k, d) in descs.iter().enumerate() {
            let clash = |name: &str, out: &Vec<String>| out.iter().zip(descs).any(|(n2, d2)| n2 == name && d2 == d);
            let name = if self.r.chance(3, 5) && !clash(&base, &out) { base.clone() } else { format!("{}{}x{}", b26(self.r.below(26)), n, k) };
            out.push(name);
        }
        out
    }

    fn plain(&mut self, class: &str, name: &str, desc: &str) {
        let itf = self.is_itf(class);
        let abs = itf && self.r.bool();
        let access = if itf { PUBLIC } else { *self.r.pick(&[PUBLIC, PUBLIC, PROTECTED]) } | if abs { ABSTRACT } else { 0 };
        let got = self.add_method(class, MethodD { name: name.to_string(), desc: desc.to_string(), access, synthetic_attr: false, has_code: !abs, calls: vec![], reads_field: false });
        assert_eq!(got, name, "harness: chain motif method renamed");
    }

    fn call_to(&self, owner: &str, name: &str, desc: &str, is_static: bool) -> CallD {
        let oi = self.is_itf(owner);
        let (op, itf) = if is_static { (184, oi) } else if oi { (185, true) } else { (182, false) };
        CallD { op, owner: owner.to_string(), name: name.to_string(), desc: desc.to_string(), itf }
    }

    /// a synthetic method with exactly one callee
    fn synth(&mut self, class: &str, name: &str, desc: &str, callee: CallD, flagged: bool) {
        let vis = if self.is_itf(class) { PUBLIC } else { *self.r.pick(&[PUBLIC, PUBLIC, PROTECTED, 0]) };
        let calls = if self.r.chance(1, 12) { vec![callee.clone(), callee] } else { vec![callee] };
        let got = self.add_method(class, MethodD { name: name.to_string(), desc: desc.to_string(), access: vis | SYNTHETIC | if flagged { BRIDGE } else { 0 }, synthetic_attr: false, has_code: true, calls, reads_field: false });
        assert_eq!(got, name, "harness: chain motif method renamed");
    }

    /// declares `name desc` (ordinary) in `class` unless it is there already
    fn declare(&mut self, class: &str, name: &str, desc: &str) {
        if self.class_mut(class).methods.iter().any(|m| m.name == name && m.desc == desc) { return; }
        let abs = self.is_itf(class) || self.r.chance(1, 3);
        self.add_method(class, MethodD { name: name.to_string(), desc: desc.to_string(), access: PUBLIC | if abs { ABSTRACT } else { 0 }, synthetic_attr: false, has_code: !abs, calls: vec![], reads_field: false });
    }

    /// Intermediary and named name of the method `name desc` of `class` (a bridge of a chain motif). `sup` / `itf`: a super
    /// type of `class` that can carry the name. Returns (intermediary name, the named name the generator believes in).
    fn name_chain_method(&mut self, class: &str, sup: &str, itf: &str, name: &str, desc: &str, src: Src) -> (String, String) {
        let above: Option<String> = match src { Src::Super | Src::OwnUnnamedAndSuper | Src::OwnAndSuper => Some(sup.to_string()), Src::Itf => Some(itf.to_string()), _ => None };
        let keep = above.is_none() && self.r.chance(1, 6);
        let int = if keep { name.to_string() } else { format!("m_{}", self.fresh()) };
        match &above {
            Some(d) => { self.declare(d, name, desc); self.cal_method(d, name, desc, &int); if self.r.chance(3, 10) { self.cal_method(class, name, desc, &int); } }
            None => if !keep { self.cal_method(class, name, desc, &int); }
        }
        let idesc = self.int_desc(desc);
        let nm = format!("chainName{}", self.fresh());
        let mut r2 = self.r.fork();
        match src {
            Src::Own => { self.map_method(class, &int, &idesc, Some(nm.clone())); }
            Src::OwnWithChildren => { if let Some(m) = self.map_method(class, &int, &idesc, Some(nm.clone())) { give_children(m, &mut r2, "a bridge"); } }
            Src::Super | Src::Itf => { let d = above.clone().expect("above"); self.map_method(&d, &int, &idesc, Some(nm.clone())); }
            Src::Nowhere => return (int.clone(), int),
            Src::OwnUnnamedAndSuper => { if let Some(m) = self.map_method(class, &int, &idesc, None) { give_children(m, &mut r2, "an unnamed bridge"); } self.map_method(sup, &int, &idesc, Some(nm.clone())); }
            Src::OwnAndSuper => { self.map_method(class, &int, &idesc, Some(nm.clone())); self.map_method(sup, &int, &idesc, Some(format!("{nm}Super"))); }
        }
        (int, nm)
    }

    /// entry of a final delegate (an ordinary method) in the bridge's class: absent / already the expected one / different
    /// with children / without named name
    fn name_final_delegate(&mut self, decl: &str, entry_class: &str, name: &str, desc: &str, believed: &str) {
        let int = if self.r.chance(1, 6) { name.to_string() } else { format!("m_{}", self.fresh()) };
        if int != name { self.cal_method(decl, name, desc, &int); }
        let idesc = self.int_desc(desc);
        let mut r2 = self.r.fork();
        match self.r.below(5) {
            0 => { self.map_method(entry_class, &int, &idesc, Some(believed.to_string())); }
            1 => { let old = format!("oldChainDelegate{}", self.fresh()); if let Some(m) = self.map_method(entry_class, &int, &idesc, Some(old)) { give_children(m, &mut r2, "the delegate"); } }
            2 => { if let Some(m) = self.map_method(entry_class, &int, &idesc, None) { give_children(m, &mut r2, "the delegate"); } }
            _ => {}
        }
    }

    /// holder H with a parent P0 (super class; parent interface when H is an interface), optionally a middle type between
    /// them (sometimes without mapping entry), and a second parent interface I0. Returns (H, P0, I0).
    fn chain_holder(&mut self) -> (String, String, String) {
        let h_itf = self.r.chance(1, 8);
        let p0 = self.new_class(h_itf, OBJECT, vec![], true);
        let i0 = self.new_class(true, OBJECT, vec![], true);
        let mut parent = p0.clone();
        if self.r.chance(1, 3) {
            let m = if h_itf { self.new_class(true, OBJECT, vec![parent.clone()], true) } else { self.new_class(false, &parent, vec![], true) };
            if self.r.bool() { self.map_absent.insert(m.clone()); }
            parent = m;
        }
        let h = if h_itf { let mut ps = vec![parent, i0.clone()]; if self.r.bool() { ps.reverse(); } self.new_class(true, OBJECT, ps, true) }
            else { self.new_class(false, &parent, vec![i0.clone()], true) };
        if self.r.chance(1, 20) { self.map_absent.insert(h.clone()); }
        for c in [&p0, &i0, &h] { let c = c.clone(); self.map_class(&c); }
        if self.r.chance(1, 25) { if let Some(c) = self.map_class(&h) { c.names[1] = None; } }
        (h, p0, i0)
    }

    fn shuffle_methods(&mut self, class: &str) {
        let mut ms = std::mem::take(&mut self.class_mut(class).methods);
        self.r.shuffle(&mut ms);
        self.class_mut(class).methods = ms;
    }

    fn intent(&mut self, kind: &'static str, class: &str, name: &str, desc: &str, expect: Expect) {
        self.intents.push(Intent { kind, class: class.to_string(), name: name.to_string(), desc: desc.to_string(), expect });
    }

    fn chain_motif(&mut self, kind: &'static str) {
        match kind {
            "chain.two" | "chain.three" => {
                let len = if kind == "chain.two" { 2 } else { 3 };
                let descs = self.ladder(len + 1);
                let names = self.chain_names(&descs);
                let (h, p0, i0) = self.chain_holder();
                self.plain(&h, &names[len], &descs[len]);
                for k in (0..len).rev() {
                    let callee = self.call_to(&h, &names[k + 1], &descs[k + 1], false);
                    let flagged = self.r.chance(2, 3);
                    self.synth(&h, &names[k], &descs[k], callee, flagged);
                    self.intent(kind, &h, &names[k], &descs[k], Expect::Must);
                }
                self.intent(kind, &h, &names[len], &descs[len], Expect::MustNot);
                let mut last = String::new();
                // named from the last bridge to the first or the other way round: the order in which entries are created must not matter
                let mut order: Vec<usize> = (0..len).collect(); if self.r.bool() { order.reverse(); }
                for k in order { let src = *self.r.pick(SRCS); let (_, nm) = self.name_chain_method(&h, &p0, &i0, &names[k], &descs[k], src); if k == len - 1 { last = nm; } }
                self.name_final_delegate(&h, &h, &names[len], &descs[len], &last);
                self.shuffle_methods(&h);
            }
            "chain.near_miss_middle" => {
                let descs = self.ladder(3);
                let names = self.chain_names(&descs);
                let (h, p0, i0) = self.chain_holder();
                self.plain(&h, &names[2], &descs[2]);
                let to_s = self.call_to(&h, &names[2], &descs[2], false);
                let variant = if self.is_itf(&h) { self.r.below(2) } else { self.r.below(3) };
                let m_static = variant == 2;
                let m = match variant {
                    0 => MethodD { name: names[1].clone(), desc: descs[1].clone(), access: PUBLIC | if self.r.bool() { BRIDGE } else { 0 }, synthetic_attr: false, has_code: true, calls: vec![to_s], reads_field: false },
                    1 => { let other = format!("other{}", self.fresh()); self.plain(&h, &other, &descs[2]); let c2 = self.call_to(&h, &other, &descs[2], false);
                           MethodD { name: names[1].clone(), desc: descs[1].clone(), access: PUBLIC | SYNTHETIC | BRIDGE, synthetic_attr: false, has_code: true, calls: if self.r.bool() { vec![to_s, c2] } else { vec![c2, to_s] }, reads_field: false } }
                    _ => MethodD { name: names[1].clone(), desc: descs[1].clone(), access: PUBLIC | SYNTHETIC | STATIC, synthetic_attr: false, has_code: true, calls: vec![to_s], reads_field: false },
                };
                let got = self.add_method(&h, m); assert_eq!(got, names[1], "harness: chain motif method renamed");
                let callee = self.call_to(&h, &names[1], &descs[1], m_static);
                let flagged = self.r.chance(2, 3);
                self.synth(&h, &names[0], &descs[0], callee, flagged);
                self.intent(kind, &h, &names[0], &descs[0], Expect::Must);
                self.intent(kind, &h, &names[1], &descs[1], Expect::MustNot);
                self.intent(kind, &h, &names[2], &descs[2], Expect::MustNot);
                let s1 = *self.r.pick(SRCS); self.name_chain_method(&h, &p0, &i0, &names[0], &descs[0], s1);
                let s2 = *self.r.pick(&[Src::Own, Src::OwnWithChildren, Src::Super, Src::Nowhere]); let (_, nm_m) = self.name_chain_method(&h, &p0, &i0, &names[1], &descs[1], s2);
                // the entry of s: a non-bridge middle must leave it alone whatever it says
                self.name_final_delegate(&h, &h, &names[2], &descs[2], &nm_m);
                self.shuffle_methods(&h);
            }
            "chain.cycle" => {
                let descs = self.ladder(2);
                let names = self.chain_names(&descs);
                let (h, p0, i0) = self.chain_holder();
                for k in 0..2 { let callee = self.call_to(&h, &names[1 - k], &descs[1 - k], false); self.synth(&h, &names[k], &descs[k], callee, true); self.intent(kind, &h, &names[k], &descs[k], Expect::Must); }
                for k in 0..2 { let src = *self.r.pick(SRCS); self.name_chain_method(&h, &p0, &i0, &names[k], &descs[k], src); }
                self.shuffle_methods(&h);
            }
            "chain.split" => {
                // descriptors: b1 = d0; x and b2 = d1; s (in Q) and s0 (in P, when x is a bridge itself) = d2
                let descs = self.ladder(3);
                let n = self.fresh();
                let base = match self.r.below(5) { 0 => "compareTo".to_string(), 1 => "get".to_string(), k => b26(k + 2) };
                let xn = if self.r.chance(3, 5) { base.clone() } else { format!("x{n}") };
                let b1n = if descs[0] != descs[1] && self.r.chance(3, 5) { xn.clone() } else { format!("b{n}") };
                let sn = if descs[2] != descs[1] && self.r.chance(3, 5) { xn.clone() } else { format!("s{n}") };
                let s0n = if sn != xn || self.r.bool() { sn.clone() } else { format!("t{n}") };
                let s0n = if (s0n == xn && descs[2] == descs[1]) || (s0n == b1n && descs[2] == descs[0]) { format!("t{n}") } else { s0n };
                let i0 = self.new_class(true, OBJECT, vec![], true);
                let p = self.new_class(false, OBJECT, vec![i0.clone()], true);
                let mut parent = p.clone();
                if self.r.chance(1, 3) { let m = self.new_class(false, &parent, vec![], true); if self.r.bool() { self.map_absent.insert(m.clone()); } parent = m; }
                let q = self.new_class(false, &parent, vec![], true);
                for c in [&i0, &p, &q] { let c = c.clone(); self.map_class(&c); }
                // ---- P: x (ordinary, or a bridge to s0) and b1 -> x
                let x_bridge = self.r.chance(1, 3);
                if x_bridge {
                    self.plain(&p, &s0n, &descs[2]);
                    let c = self.call_to(&p, &s0n, &descs[2], false); let f = self.r.chance(2, 3);
                    self.synth(&p, &xn, &descs[1], c, f);
                    self.intent(kind, &p, &xn, &descs[1], Expect::Must); self.intent(kind, &p, &s0n, &descs[2], Expect::MustNot);
                } else { self.plain(&p, &xn, &descs[1]); self.intent(kind, &p, &xn, &descs[1], Expect::MustNot); }
                let c = self.call_to(&p, &xn, &descs[1], false); let f = self.r.chance(2, 3);
                self.synth(&p, &b1n, &descs[0], c, f);
                self.intent(kind, &p, &b1n, &descs[0], Expect::Must);
                // ---- Q: b2 overrides x and calls s
                self.plain(&q, &sn, &descs[2]);
                let c = self.call_to(&q, &sn, &descs[2], false); let f = self.r.chance(2, 3);
                self.synth(&q, &xn, &descs[1], c, f);
                self.intent(kind, &q, &xn, &descs[1], Expect::Must); self.intent(kind, &q, &sn, &descs[2], Expect::MustNot);
                // ---- names: x's family name at P (sometimes repeated in Q); P's entry of x named / named with children / absent / without named name
                let x_int = if self.r.chance(1, 6) { xn.clone() } else { format!("m_{}", self.fresh()) };
                if x_int != xn { self.cal_method(&p, &xn, &descs[1], &x_int); if self.r.chance(3, 10) { self.cal_method(&q, &xn, &descs[1], &x_int); } }
                let xd = self.int_desc(&descs[1]);
                let mut r2 = self.r.fork();
                let mut believed_b2 = x_int.clone();
                match self.r.below(6) {
                    0 | 1 => { let nm = format!("chainName{}", self.fresh()); self.map_method(&p, &x_int, &xd, Some(nm.clone())); believed_b2 = nm; }
                    2 | 3 => { let nm = format!("chainName{}", self.fresh()); if let Some(m) = self.map_method(&p, &x_int, &xd, Some(nm.clone())) { give_children(m, &mut r2, "the overridden method"); } believed_b2 = nm; }
                    4 => { if let Some(m) = self.map_method(&p, &x_int, &xd, None) { give_children(m, &mut r2, "the overridden method"); } }
                    _ => {}
                }
                if self.r.chance(1, 6) { let nm = format!("chainName{}", self.fresh()); self.map_method(&q, &x_int, &xd, Some(nm.clone())); believed_b2 = nm; }
                let s1 = *self.r.pick(&[Src::Own, Src::Own, Src::OwnWithChildren, Src::Nowhere, Src::Itf]);
                let (_, nm_b1) = self.name_chain_method(&p, &i0, &i0, &b1n, &descs[0], s1);
                self.name_final_delegate(&q, &q, &sn, &descs[2], &believed_b2);
                if x_bridge { self.name_final_delegate(&p, &p, &s0n, &descs[2], &nm_b1); }
                self.shuffle_methods(&p); self.shuffle_methods(&q);
            }
            "chain.shared_names" => {
                let descs = self.ladder(2);
                let names = self.chain_names(&descs);
                let related = self.r.bool();
                let a = self.new_class(false, OBJECT, vec![], true);
                let b = if related { self.new_class(false, &a, vec![], true) } else { self.new_class(false, OBJECT, vec![], true) };
                for c in [&a, &b] { let c = c.clone(); self.map_class(&c); }
                for c in [&a, &b] {
                    let c = c.clone();
                    self.plain(&c, &names[1], &descs[1]);
                    let callee = self.call_to(&c, &names[1], &descs[1], false); let f = self.r.chance(2, 3);
                    self.synth(&c, &names[0], &descs[0], callee, f);
                    self.intent(kind, &c, &names[0], &descs[0], Expect::Must); self.intent(kind, &c, &names[1], &descs[1], Expect::MustNot);
                }
                // intermediary names: the same in both classes / different / official names kept
                let mode = self.r.below(3);
                let (bd, dd) = (self.int_desc(&descs[0]), self.int_desc(&descs[1]));
                let mut ints: Vec<(String, String)> = vec![];
                let (fb, fs) = (format!("m_{}", self.fresh()), format!("m_{}", self.fresh()));
                for (k, c) in [&a, &b].into_iter().enumerate() {
                    let c = c.clone();
                    let (ib, is) = match mode { 0 => (fb.clone(), fs.clone()), 1 => (format!("m_{}", self.fresh()), format!("m_{}", self.fresh())), _ => (names[0].clone(), names[1].clone()) };
                    if mode != 2 && !(mode == 0 && related && k == 1 && self.r.bool()) { self.cal_method(&c, &names[0], &descs[0], &ib); self.cal_method(&c, &names[1], &descs[1], &is); }
                    ints.push((ib, is));
                }
                for (k, c) in [&a, &b].into_iter().enumerate() {
                    let c = c.clone();
                    let (ib, is) = ints[k].clone();
                    let inherit = related && k == 1 && mode != 1 && self.r.chance(1, 3);
                    if !inherit && !self.r.chance(1, 6) { let nm = format!("chainName{}", self.fresh()); let ch = self.r.chance(1, 3); let mut r2 = self.r.fork(); if let Some(m) = self.map_method(&c, &ib, &bd, Some(nm)) { if ch { give_children(m, &mut r2, "a bridge"); } } }
                    let mut r2 = self.r.fork();
                    match self.r.below(3) { 0 => { let old = format!("oldChainDelegate{}", self.fresh()); if let Some(m) = self.map_method(&c, &is, &dd, Some(old)) { give_children(m, &mut r2, "the delegate"); } } _ => {} }
                }
                self.shuffle_methods(&a); self.shuffle_methods(&b);
            }
            other => panic!("harness: unknown chain kind {other}"),
        }
    }
}
