//! Scenario DESCRIPTION of C15: classes, hierarchy, methods with flags, the invoke instructions of every body.
//! Everything the oracle uses is in here (plus the two mapping sets); class files are derived from it (emitc.rs).

pub const PUBLIC: u16 = 0x0001;
pub const PRIVATE: u16 = 0x0002;
pub const PROTECTED: u16 = 0x0004;
pub const STATIC: u16 = 0x0008;
pub const FINAL: u16 = 0x0010;
pub const BRIDGE: u16 = 0x0040;
pub const ABSTRACT: u16 = 0x0400;
pub const SYNTHETIC: u16 = 0x1000;
pub const C_INTERFACE: u16 = 0x0200;
pub const OBJECT: &str = "java/lang/Object";

/// One invoke instruction. `op`: 182 invokevirtual, 183 invokespecial, 184 invokestatic, 185 invokeinterface,
/// 186 invokedynamic (owner empty). `owner` may be an array class name (`[I`).
#[derive(Clone, Debug, PartialEq, Eq, PartialOrd, Ord, Hash)]
pub struct CallD { pub op: u8, pub owner: String, pub name: String, pub desc: String, pub itf: bool }

#[derive(Clone, Debug, PartialEq, Eq)]
pub struct MethodD {
    pub name: String,
    pub desc: String,
    pub access: u16,
    /// Synthetic ATTRIBUTE (not the flag)
    pub synthetic_attr: bool,
    pub has_code: bool,
    /// invoke instructions of the body, in order
    pub calls: Vec<CallD>,
    /// body contains a getstatic (noise; "zero callees" variant)
    pub reads_field: bool,
}

#[derive(Clone, Debug, PartialEq, Eq)]
pub struct ClassD {
    pub name: String,
    pub access: u16,
    pub super_name: String,
    pub interfaces: Vec<String>,
    pub methods: Vec<MethodD>,
    pub major: u16,
}
impl ClassD {
    pub fn is_interface(&self) -> bool { self.access & C_INTERFACE != 0 }
}

#[derive(Clone, Debug, PartialEq, Eq, Default)]
pub struct JarD { pub classes: Vec<ClassD> }

#[derive(Clone, Copy, Debug, PartialEq, Eq, PartialOrd, Ord, Hash)]
pub enum Expect { Must, May, MustNot }

/// What the generator INTENDED a motif's method to be (cross-checked against the oracle's predicate: two derivations).
#[derive(Clone, Debug)]
pub struct Intent { pub kind: &'static str, pub class: String, pub name: String, pub desc: String, pub expect: Expect }

#[derive(Clone, Debug)]
pub struct Scenario {
    pub main: JarD,
    pub libs: Vec<JarD>,
    /// official -> intermediary
    pub calamus: maps::Maps,
    /// intermediary -> named
    pub mappings: maps::Maps,
    pub intents: Vec<Intent>,
    /// main jar as a real zip (UnnamedMemJar) instead of a ParsedJar
    pub zip: bool,
    pub layout_seed: u64,
    /// requested situation (name source, target entry state) of the primary motif; informational
    pub requested: (String, String),
}

impl JarD {
    pub fn render(&self) -> String {
        let mut s = String::new();
        for c in &self.classes {
            s += &format!("{} {} (v{}, access {:#06x}) extends {} implements {:?}\n", if c.is_interface() { "interface" } else { "class" }, c.name, c.major, c.access, c.super_name, c.interfaces);
            for m in &c.methods {
                s += &format!("  {:#06x}{} {}{}{}\n", m.access, if m.synthetic_attr { "+SyntheticAttr" } else { "" }, m.name, m.desc, if m.has_code { "" } else { " [no code]" });
                for k in &m.calls { s += &format!("      {} {}.{}{}{}\n", match k.op { 182 => "invokevirtual", 183 => "invokespecial", 184 => "invokestatic", 185 => "invokeinterface", _ => "invokedynamic" }, k.owner, k.name, k.desc, if k.itf { " (itf)" } else { "" }); }
                if m.reads_field { s += "      getstatic\n"; }
            }
        }
        s
    }
}
