// included by main.rs: start-up self-checks (exit 3 on failure) and the corpus scenario builder

fn md(name: &str, desc: &str, access: u16, calls: Vec<CallD>) -> MethodD { MethodD { name: name.into(), desc: desc.into(), access, synthetic_attr: false, has_code: true, calls, reads_field: false } }
fn cd(name: &str, sup: &str, itfs: &[&str], methods: Vec<MethodD>) -> ClassD { ClassD { name: name.into(), access: 0x21, super_name: sup.into(), interfaces: itfs.iter().map(|s| s.to_string()).collect(), methods, major: 52 } }
fn call(op: u8, owner: &str, name: &str, desc: &str) -> CallD { CallD { op, owner: owner.into(), name: name.into(), desc: desc.into(), itf: op == 185 } }

fn selfcheck() {
    let bad = |s: &str| -> ! { eprintln!("HARNESS-ERROR C15 self-check failed: {s}"); std::process::exit(3) };
    // ---- predicate, on the hand-written example of the repository's own documentation (MyNode / Node) plus near misses
    let main = JarD { classes: vec![
        cd("Node", OBJECT, &[], vec![md("setData", "(Ljava/lang/Object;)V", PUBLIC, vec![])]),
        cd("Mid", "Node", &[], vec![]),
        cd("MyNode", "Mid", &[], vec![
            md("specialized", "(LK;)V", PUBLIC, vec![]),
            md("setData", "(Ljava/lang/Object;)V", PUBLIC | SYNTHETIC, vec![call(182, "MyNode", "specialized", "(LK;)V")]),
            md("fin", "(Ljava/lang/Object;)V", PUBLIC | SYNTHETIC | FINAL, vec![call(182, "MyNode", "specialized", "(LK;)V")]),
            md("two", "(Ljava/lang/Object;)V", PUBLIC | SYNTHETIC | BRIDGE, vec![call(182, "MyNode", "specialized", "(LK;)V"), call(182, "MyNode", "setData", "(Ljava/lang/Object;)V")]),
            md("sup", "(LBase;)V", PUBLIC | SYNTHETIC, vec![call(182, "MyNode", "specialized", "(LK;)V")]),
            md("unrel", "(LOther;)V", PUBLIC | SYNTHETIC, vec![call(182, "MyNode", "specialized", "(LK;)V")]),
            md("outside", "(Ljava/lang/Number;)V", PUBLIC | SYNTHETIC, vec![call(182, "MyNode", "specialized", "(LK;)V")]),
            md("prim", "(I)V", PUBLIC | SYNTHETIC, vec![call(182, "MyNode", "specialized", "(LK;)V")]),
            md("flagged", "(I)V", PRIVATE | SYNTHETIC | BRIDGE, vec![call(183, "MyNode", "specialized", "(LK;)V"), call(183, "MyNode", "specialized", "(LK;)V")]),
        ]),
        cd("Base", OBJECT, &[], vec![]), cd("K0", "Base", &["IK"], vec![]), cd("K", "K0", &[], vec![]), cd("Other", OBJECT, &[], vec![]),
        ClassD { access: 0x0601, ..cd("IK", OBJECT, &[], vec![]) },
    ] };
    let cands = oracle::classify(&main);
    let want = [("setData", Expect::Must), ("fin", Expect::MustNot), ("two", Expect::MustNot), ("sup", Expect::Must), ("unrel", Expect::MustNot), ("outside", Expect::May), ("prim", Expect::MustNot), ("flagged", Expect::Must), ("specialized", Expect::MustNot)];
    for (n, e) in want {
        let c = cands.iter().find(|c| c.class == "MyNode" && c.name == n).unwrap_or_else(|| bad("candidate missing"));
        if c.expect != e { bad(&format!("predicate: MyNode.{n} classified {:?} ({}), hand-computed {:?}", c.expect, c.why, e)); }
    }
    // ---- reference names, hand-computed (the C06 example: Mid has no entry, Node names the method)
    let s = |x: &str| Some(x.to_string());
    let mut cal = Maps::new(&["official", "intermediary"]);
    for (o, i) in [("Node", "C_1"), ("Mid", "C_2"), ("MyNode", "C_3"), ("K", "C_4")] { cal.classes.insert(o.into(), maps::Class { names: vec![s(o), s(i)], ..Default::default() }); }
    cal.classes.get_mut("Node").unwrap().methods.insert(("setData".into(), "(Ljava/lang/Object;)V".into()), maps::Method { names: vec![s("setData"), s("m_1")], ..Default::default() });
    cal.classes.get_mut("MyNode").unwrap().methods.insert(("specialized".into(), "(LK;)V".into()), maps::Method { names: vec![s("specialized"), s("m_2")], ..Default::default() });
    let mut map = Maps::new(&["intermediary", "named"]);
    for (i, n) in [("C_1", "named/Node"), ("C_3", "named/MyNode")] { map.classes.insert(i.into(), maps::Class { names: vec![s(i), s(n)], ..Default::default() }); }
    map.classes.get_mut("C_1").unwrap().methods.insert(("m_1".into(), "(Ljava/lang/Object;)V".into()), maps::Method { names: vec![s("m_1"), s("setData")], ..Default::default() });
    let mut old = maps::Method { names: vec![s("m_2"), s("oldName")], comment: s("doc"), ..Default::default() };
    old.params.insert(0, maps::Param { names: vec![None, s("value")], comment: None });
    map.classes.get_mut("C_3").unwrap().methods.insert(("m_2".into(), "(LC_4;)V".into()), old.clone());
    let sc = Scenario { main: JarD { classes: main.classes.iter().filter(|c| c.name != "MyNode").cloned().chain(std::iter::once(ClassD { methods: main.classes[2].methods[..2].to_vec(), ..main.classes[2].clone() })).collect() },
        libs: vec![], calamus: cal, mappings: map.clone(), intents: vec![], zip: false, layout_seed: 1, requested: Default::default() };
    let cands = oracle::classify(&sc.main);
    let e = oracle::effects(&sc, &cands, false, false);
    if e.len() != 1 || e[0].class != "C_3" || e[0].key != ("m_2".to_string(), "(LC_4;)V".to_string()) || e[0].named != "setData" || e[0].named_hit != Some((2, true)) { bad(&format!("reference effect differs from the hand-computed one: {e:?}")); }
    let d = oracle::effects(&sc, &cands, false, true);
    if d[0].named != "m_1" { bad("the C06-defect variant of the reference does not stop at the class without entry"); }
    let exp = oracle::allowed(&map, &e).unwrap_or_else(|| bad("allowed"));
    if exp.len() != 1 { bad("one Must effect must give exactly one allowed output"); }
    let m2 = &exp[0].classes["C_3"].methods[&("m_2".to_string(), "(LC_4;)V".to_string())];
    if m2.names != vec![s("m_2"), s("setData")] || m2.comment != old.comment || m2.params != old.params { bad("apply: names not replaced or children not kept"); }
    // ---- canaries: deliberately wrong observations must be flagged
    let targets: BTreeSet<(String, (String, String))> = e.iter().map(|e| (e.class.clone(), e.key.clone())).collect();
    if oracle::compare(&exp[0], &map, &targets).iter().all(|(k, _)| k != "bridge target entry: names differ") { bad("canary: unchanged output not flagged"); }
    let mut w = exp[0].clone(); w.classes.get_mut("C_3").unwrap().methods.get_mut(&("m_2".to_string(), "(LC_4;)V".to_string())).unwrap().params.clear();
    if oracle::compare(&exp[0], &w, &targets).iter().all(|(k, _)| k != "bridge target entry: parameters differ") { bad("canary: lost parameters not flagged"); }
    let mut w = exp[0].clone(); w.classes.get_mut("C_1").unwrap().methods.values_mut().next().unwrap().names[1] = s("x");
    if oracle::compare(&exp[0], &w, &targets).iter().all(|(k, _)| k != "entry not concerned: names differ") { bad("canary: change of an entry not concerned not flagged"); }
    let mut w = exp[0].clone(); w.classes.get_mut("C_1").unwrap().methods.insert(("m_2".into(), "(LC_4;)V".into()), maps::Method { names: vec![s("m_2"), s("setData")], ..Default::default() });
    if oracle::compare(&exp[0], &w, &targets).iter().all(|(k, _)| k != "entry not concerned: unexpected method entry") { bad("canary: insertion into the wrong class not flagged"); }
    // ---- a May effect allows both outcomes and nothing else
    let mut em = e.clone(); em[0].expect = Expect::May;
    let al = oracle::allowed(&map, &em).unwrap_or_else(|| bad("allowed"));
    if al.len() != 2 || !al.contains(&map) || !al.contains(&exp[0]) { bad("May effect: allowed set wrong"); }
    // ---- effects that touch each other, hand-computed: every delegate gets the name the GIVEN mappings give to ITS bridge
    let mk_maps = |ns: [&str; 2], classes: &[(&str, &str)], methods: &[(&str, &str, &str, &str)]| -> Maps {
        let mut m = Maps::new(&ns);
        for (a, b) in classes { m.classes.insert(a.to_string(), maps::Class { names: vec![s(a), s(b)], ..Default::default() }); }
        for (c, n, d, to) in methods { m.classes.get_mut(*c).unwrap().methods.insert((n.to_string(), d.to_string()), maps::Method { names: vec![s(n), s(to)], ..Default::default() }); }
        m
    };
    let key = |n: &str, d: &str| (n.to_string(), d.to_string());
    let types = || vec![cd("Base", OBJECT, &[], vec![]), cd("K", "Base", &[], vec![])];
    // (1) chain inside one class, both class-file orders.
    //   class P { Object get() }
    //   class H extends P { synthetic bridge Object get() -> H.get()Base;   synthetic bridge Base get() -> H.get()K;   K get() }
    //   calamus:  P.get()Object -> m_1,  H.get()Base -> m_2,  H.get()K -> m_3          (H.get()Object is m_1 through P)
    //   mappings: C_1.m_1 -> fetch;  C_2.m_2 -> fetchBase (comment "doc");  no entry for m_3, none for m_1 in C_2
    //   expected: C_2.m_2 -> fetch      (b1 is named through P; the comment stays)
    //             C_2.m_3 -> fetchBase  (b2's name as GIVEN, not the "fetch" that b1's effect has just written into b2's entry)
    for flip in [false, true] {
        let mut hm = vec![
            md("get", "()Ljava/lang/Object;", PUBLIC | SYNTHETIC | BRIDGE, vec![call(182, "H", "get", "()LBase;")]),
            md("get", "()LBase;", PUBLIC | SYNTHETIC | BRIDGE, vec![call(182, "H", "get", "()LK;")]),
            md("get", "()LK;", PUBLIC, vec![]),
        ];
        if flip { hm.reverse(); }
        let mut classes = vec![cd("P", OBJECT, &[], vec![md("get", "()Ljava/lang/Object;", PUBLIC, vec![])]), cd("H", "P", &[], hm)];
        classes.extend(types());
        let cal = mk_maps(["official", "intermediary"], &[("P", "C_1"), ("H", "C_2"), ("K", "C_4"), ("Base", "C_5")], &[("P", "get", "()Ljava/lang/Object;", "m_1"), ("H", "get", "()LBase;", "m_2"), ("H", "get", "()LK;", "m_3")]);
        let mut map = mk_maps(["intermediary", "named"], &[("C_1", "named/P"), ("C_2", "named/H")], &[("C_1", "m_1", "()Ljava/lang/Object;", "fetch"), ("C_2", "m_2", "()LC_5;", "fetchBase")]);
        map.classes.get_mut("C_2").unwrap().methods.get_mut(&key("m_2", "()LC_5;")).unwrap().comment = s("doc");
        let sc = Scenario { main: JarD { classes }, libs: vec![], calamus: cal, mappings: map.clone(), intents: vec![], zip: false, layout_seed: 1, requested: Default::default() };
        let cands = oracle::classify(&sc.main);
        let e = oracle::effects(&sc, &cands, false, false);
        let mut view = effect_view(&e); view.sort();
        if view != vec![("C_2".to_string(), key("m_2", "()LC_5;"), "fetch".to_string()), ("C_2".to_string(), key("m_3", "()LC_4;"), "fetchBase".to_string())] { bad(&format!("chain canary: reference effects differ from the hand-computed ones: {view:?}")); }
        let al = oracle::allowed(&map, &e).unwrap_or_else(|| bad("allowed"));
        if al.len() != 1 { bad("chain canary: two Must effects on two entries must give exactly one allowed output"); }
        let c2 = &al[0].classes["C_2"];
        if c2.methods.len() != 2 || c2.methods[&key("m_2", "()LC_5;")].names != vec![s("m_2"), s("fetch")] || c2.methods[&key("m_2", "()LC_5;")].comment != s("doc") || c2.methods[&key("m_3", "()LC_4;")].names != vec![s("m_3"), s("fetchBase")] || al[0].classes["C_1"] != map.classes["C_1"] { bad("chain canary: expected output differs from the hand-computed one"); }
        let f = oracle::chain_facts(&sc, &e);
        let want = oracle::ChainFacts { b1_before_b2: !flip as usize, b2_before_b1: flip as usize, differing_b1_first: !flip as usize, differing_b2_first: flip as usize, bridge_entry_overwritten: 1, ..Default::default() };
        if f != want { bad(&format!("chain canary: coverage facts {f:?}, hand-computed {want:?}")); }
        // the modelled defect (names read from the mappings being produced) differs exactly when b1 is handled before b2, and is flagged
        let (fwd, rev) = (oracle::stale_read_variant(&sc, &e, false), oracle::stale_read_variant(&sc, &e, true));
        let (wrong, right) = if flip { (&rev, &fwd) } else { (&fwd, &rev) };
        if *right != al[0] { bad("chain canary: handling b2 before b1 must give the reference output even when names are read from the output"); }
        if wrong.classes["C_2"].methods[&key("m_3", "()LC_4;")].names != vec![s("m_3"), s("fetch")] { bad("chain canary: the stale-read variant does not hand b1's name on to the final delegate"); }
        let targets: BTreeSet<(String, (String, String))> = e.iter().map(|e| (e.class.clone(), e.key.clone())).collect();
        if oracle::compare(&al[0], wrong, &targets) != vec![("bridge target entry: names differ".to_string(), "class C_2 method m_3()LC_4; expected [Some(\"m_3\"), Some(\"fetchBase\")] observed [Some(\"m_3\"), Some(\"fetch\")]".to_string())] { bad("canary: a final delegate named after the first bridge of the chain is not flagged"); }
        // a bridge that is skipped because it was already handled as a delegate: the final delegate's entry is missing
        let mut skipped = al[0].clone(); skipped.classes.get_mut("C_2").unwrap().methods.remove(&key("m_3", "()LC_4;"));
        if oracle::compare(&al[0], &skipped, &targets).iter().all(|(k, _)| k != "bridge target entry: method entry missing") { bad("canary: a skipped second bridge is not flagged"); }
        if let Err(e) = emitc::emit_jar(&sc.main, 3) { bad(&e); }
    }
    // (2) the chain split over a class and its subclass.
    //   class P { synthetic bridge Object get() -> P.get()Base;   Base get() }
    //   class Q extends P { synthetic bridge Base get() -> Q.get()K;   K get() }
    //   calamus:  P.get()Object -> m_1,  P.get()Base -> m_2,  Q.get()K -> m_3           (Q.get()Base is m_2 through P)
    //   mappings: C_1.m_1 -> fetch, C_1.m_2 -> fetchBase;  C_2 without methods
    //   expected: C_1.m_2 -> fetch;  C_2.m_3 -> fetchBase (Q's bridge is named through P's entry AS GIVEN)
    {
        let classes = vec![
            cd("P", OBJECT, &[], vec![md("get", "()Ljava/lang/Object;", PUBLIC | SYNTHETIC | BRIDGE, vec![call(182, "P", "get", "()LBase;")]), md("get", "()LBase;", PUBLIC, vec![])]),
            cd("Q", "P", &[], vec![md("get", "()LBase;", PUBLIC | SYNTHETIC, vec![call(182, "Q", "get", "()LK;")]), md("get", "()LK;", PUBLIC, vec![])]),
            cd("Base", OBJECT, &[], vec![]), cd("K", "Base", &[], vec![]),
        ];
        let cal = mk_maps(["official", "intermediary"], &[("P", "C_1"), ("Q", "C_2"), ("K", "C_4"), ("Base", "C_5")], &[("P", "get", "()Ljava/lang/Object;", "m_1"), ("P", "get", "()LBase;", "m_2"), ("Q", "get", "()LK;", "m_3")]);
        let map = mk_maps(["intermediary", "named"], &[("C_1", "named/P"), ("C_2", "named/Q")], &[("C_1", "m_1", "()Ljava/lang/Object;", "fetch"), ("C_1", "m_2", "()LC_5;", "fetchBase")]);
        let sc = Scenario { main: JarD { classes }, libs: vec![], calamus: cal, mappings: map.clone(), intents: vec![], zip: false, layout_seed: 1, requested: Default::default() };
        let cands = oracle::classify(&sc.main);
        let e = oracle::effects(&sc, &cands, false, false);
        let mut view = effect_view(&e); view.sort();
        if view != vec![("C_1".to_string(), key("m_2", "()LC_5;"), "fetch".to_string()), ("C_2".to_string(), key("m_3", "()LC_4;"), "fetchBase".to_string())] { bad(&format!("split-chain canary: reference effects differ from the hand-computed ones: {view:?}")); }
        let f = oracle::chain_facts(&sc, &e);
        if f != (oracle::ChainFacts { across_named_through_rewritten_entry: 1, ..Default::default() }) { bad(&format!("split-chain canary: coverage facts {f:?}")); }
        let must: Vec<&Effect> = e.iter().collect();
        let reference = oracle::apply(&map, &must);
        let fwd = oracle::stale_read_variant(&sc, &e, false);
        if fwd.classes["C_2"].methods[&key("m_3", "()LC_4;")].names != vec![s("m_3"), s("fetch")] || fwd == reference || oracle::stale_read_variant(&sc, &e, true) != reference { bad("split-chain canary: stale-read variant"); }
    }
    // ---- emitted classes say what the description says, and the real reader sees the same pairs on the canary jar
    if let Err(e) = emitc::emit_jar(&main, 7) { bad(&e); }
    if let Err(e) = maps::self_test(15, 10) { bad(&e); }
}

/// A scenario around classes that were NOT generated (javac corpus): description read by the independent parser,
/// mapping sets generated here (every class obfuscated, one intermediary name per (name, descriptor)).
fn corpus_scenario(rng: &mut Rng, classes: Vec<ClassD>) -> Scenario {
    let s = |x: &str| Some(x.to_string());
    let mut cal = Maps::new(&["official", "intermediary"]);
    let mut map = Maps::new(&["intermediary", "named"]);
    let mut fam: BTreeMap<(String, String), String> = BTreeMap::new();
    let cint: BTreeMap<String, String> = classes.iter().enumerate().filter(|_| rng.chance(9, 10)).map(|(i, c)| (c.name.clone(), format!("net/minecraft/unmapped/C_{i}"))).collect();
    let ic = |c: &str| cint.get(c).cloned().unwrap_or_else(|| c.to_string());
    for c in &classes {
        let Some(int) = cint.get(&c.name) else { continue };
        let mut cc = maps::Class { names: vec![s(&c.name), s(int)], ..Default::default() };
        let mut mc = maps::Class { names: vec![s(int), if rng.chance(19, 20) { Some(format!("named/{}", c.name.replace('$', "_"))) } else { None }], ..Default::default() };
        for m in &c.methods {
            if m.name.starts_with('<') { continue; }
            let n = fam.len();
            let f = fam.entry((m.name.clone(), m.desc.clone())).or_insert_with(|| format!("m_{n}")).clone();
            let in_cal = rng.chance(4, 5);
            if in_cal { cc.methods.insert((m.name.clone(), m.desc.clone()), maps::Method { names: vec![s(&m.name), s(&f)], ..Default::default() }); }
            if rng.chance(2, 5) {
                let iname = if in_cal { f } else { m.name.clone() };
                let mut me = maps::Method { names: vec![s(&iname), Some(format!("named{}_{}", n, m.name.replace('$', "_")))], ..Default::default() };
                if rng.bool() { me.comment = s("doc"); me.params.insert(0, maps::Param { names: vec![None, s("arg")], comment: None }); }
                mc.methods.insert((iname, maps::desc::map_desc(&m.desc, &ic)), me);
            }
        }
        cal.classes.insert(c.name.clone(), cc);
        if rng.chance(4, 5) { map.classes.insert(int.clone(), mc); }
    }
    Scenario { main: JarD { classes }, libs: vec![], calamus: cal, mappings: map, intents: vec![], zip: rng.bool(), layout_seed: 0, requested: ("corpus".into(), "corpus".into()) }
}
