//! C03 — Tiny v2 files round-trip and are written canonically.
//!
//! Judged (from the property text): from_quill(read(write(M))) == M (namespaces, entries, names per namespace,
//! descriptors, comments); write(M) is byte-identical for k insertion orders of the same content;
//! write(read(write(M))) == write(M); reading a Tiny v2 text emitted by the harness' own emitter in an arbitrary
//! sibling order yields the emitted set (never merges, loses or re-parents an entry); key/name invariant after read.
//! Not judged: the file-level comment; names containing TAB / LF / CR (blank characters in non-source names ARE exercised); any particular sort order.
use common::{par::*, report::{finish, Meta}, *};
use maps::{cmp, gen, CommentClass, GenCfg, Ins, Maps};
use quill::tiny_v2;

// scratch files for the `read_file(path)` entry point (one per worker thread, overwritten per use)
static SCRATCH_DIR: std::sync::OnceLock<String> = std::sync::OnceLock::new();
static NEXT_FILE: std::sync::atomic::AtomicUsize = std::sync::atomic::AtomicUsize::new(0);
thread_local! { static MY_FILE: std::cell::RefCell<Option<std::path::PathBuf>> = const { std::cell::RefCell::new(None) }; }
fn scratch_file() -> Option<std::path::PathBuf> {
    let dir = SCRATCH_DIR.get()?; // not set in the Miri slice (no files there)
    Some(MY_FILE.with(|f| f.borrow_mut().get_or_insert_with(|| std::path::PathBuf::from(format!("{dir}/t{}.tiny", NEXT_FILE.fetch_add(1, std::sync::atomic::Ordering::Relaxed)))).clone()))
}

/// The three writing entry points of the format (`write_vec`, `write_string`, `write` into any `io::Write` - here one that
/// accepts only a few bytes per call) must produce the same bytes: the property speaks about "the written text".
fn write_via<const N: usize>(q: &quill::tree::mappings::Mappings<N, ()>, how: u64) -> anyhow::Result<(Vec<u8>, u64)> {
    match how % 3 {
        0 => tiny_v2::write_vec(q).map(|v| (v, 0)),
        1 => tiny_v2::write_string(q).map(|s| (s.into_bytes(), 0)),
        _ => {
            let mut w = common::io::ChunkedWriter::new(how, 1 + (how % 13) as usize);
            tiny_v2::write(q, &mut w)?;
            Ok((w.data, w.short_writes))
        }
    }
}
const WRITE_ENTRY: [&str; 3] = ["entry.write_vec", "entry.write_string", "entry.write(short-write writer)"];

/// cause class of a comment that did not survive (one defect = one signature)
fn cause(expected: Option<&str>) -> &'static str {
    match expected {
        Some(c) if c.contains("\\n") => " (contains backslash-n)",
        Some(c) if c.contains('\t') => " (contains TAB)",
        Some(c) if c.ends_with('\r') => " (ends with CR)",
        Some(c) if c.contains('\r') => " (contains CR)",
        Some(c) if c.contains('\\') => " (contains backslash)",
        _ => "",
    }
}

/// The comparison function of the round-trip law: expected model vs. what was read back.
fn judge_roundtrip(m: &Maps, back: &Maps) -> Vec<(String, String)> {
    let d = cmp::diff_maps(m, back);
    let mut out = vec![];
    let structural = d.iter().any(|(k, _)| k.contains("entry") || k.contains("descriptor"));
    for (k, w) in cmp::kinds(&d) {
        if k.contains("comment") && !structural { continue; }
        out.push((format!("C03 roundtrip: {k}"), w));
    }
    if !structural {
        // same entry sets: walk both in parallel and classify comment differences by cause
        let mut a = vec![]; m.visit(|l, _, c| a.push((l, c.clone())));
        let mut b = vec![]; back.visit(|l, _, c| b.push((l, c.clone())));
        for ((l, ec), (_, oc)) in a.iter().zip(b.iter()) {
            if ec != oc {
                let level = ["class", "field", "method", "parameter"][*l];
                out.push((format!("C03 roundtrip: comment differs{}", cause(ec.as_deref())), format!("{level}: expected {ec:?} observed {oc:?}")));
            }
        }
    }
    out
}

/// The harness' own Tiny v2 emitter (documented format: header `tiny 2 0 <ns..>`, `c`/`f`/`m`/`p` lines with one
/// TAB of indentation per level, empty cell = absent name, comment line `c <text>` with LF written as `\n`),
/// siblings and children in an order drawn from `rng`.
fn emit(m: &Maps, rng: &mut Rng) -> String {
    fn row(r: &maps::model::Row) -> String { r.iter().map(|x| format!("\t{}", x.as_deref().unwrap_or(""))).collect() }
    fn com(indent: &str, c: &Option<String>) -> Vec<String> { c.iter().map(|c| format!("{indent}c\t{}\n", c.replace('\n', "\\n"))).collect() }
    let mut s = format!("tiny\t2\t0{}\n", m.namespaces.iter().map(|n| format!("\t{n}")).collect::<String>());
    let mut classes: Vec<_> = m.classes.values().collect();
    rng.shuffle(&mut classes);
    for c in classes {
        s += &format!("c{}\n", row(&c.names));
        let mut kids: Vec<String> = com("\t", &c.comment);
        for ((_, d), f) in &c.fields { kids.push(format!("\tf\t{d}{}\n{}", row(&f.names), com("\t\t", &f.comment).concat())); }
        for ((_, d), me) in &c.methods {
            let mut sub: Vec<String> = com("\t\t", &me.comment);
            for (i, p) in &me.params { sub.push(format!("\t\tp\t{i}{}\n{}", row(&p.names), com("\t\t\t", &p.comment).concat())); }
            rng.shuffle(&mut sub);
            kids.push(format!("\tm\t{d}{}\n{}", row(&me.names), sub.concat()));
        }
        rng.shuffle(&mut kids);
        s += &kids.concat();
    }
    s
}

fn coverage(rep: &mut Report, m: &Maps) {
    let (c, f, me, p) = m.counts();
    rep.add("entries.class", c as u64); rep.add("entries.field", f as u64); rep.add("entries.method", me as u64); rep.add("entries.parameter", p as u64);
    rep.count(&format!("namespaces.{}", m.n()));
    if c >= 2 { rep.count("siblings>=2.class"); }
    let mut sib = [false; 3];
    for cl in m.classes.values() {
        if cl.fields.len() >= 2 { sib[0] = true; }
        if cl.methods.len() >= 2 { sib[1] = true; }
        if cl.methods.values().any(|x| x.params.len() >= 2) { sib[2] = true; }
        let mut seen = std::collections::BTreeMap::new();
        for (k, f) in &cl.fields { if seen.insert(&f.names, k).is_some() { rep.count("twins.same_name_row_different_descriptor"); } }
    }
    for (i, l) in ["field", "method", "parameter"].iter().enumerate() { if sib[i] { rep.count(&format!("siblings>=2.{l}")); } }
    let mut local: Vec<String> = vec![];
    m.visit(|l, names, com| {
        let level = ["class", "field", "method", "parameter"][l];
        if names.last().is_some_and(|x| x.is_none()) { local.push("absent.trailing_cell".into()); }
        if names.windows(2).skip(0).any(|w| w[0].is_none() && w[1].is_some()) || (names.len() > 2 && names[1..names.len() - 1].iter().any(|x| x.is_none())) { local.push("absent.middle_cell".into()); }
        if l == 3 && names[0].is_none() { local.push("parameter.without_source_name".into()); }
        if l == 3 && names.iter().all(|x| x.is_none()) { local.push("parameter.all_cells_absent".into()); }
        if names.iter().flatten().any(|n| !n.is_ascii()) { local.push("names.unicode".into()); }
        if l == 0 && names[0].as_deref().is_some_and(|n| n.contains('$')) { local.push("names.nested_source".into()); }
        if l == 0 && names[1..].iter().flatten().any(|n| n.contains('$')) { local.push("names.dollar_in_target".into()); }
        if let Some(c) = com { local.push(format!("comment.{level}")); local.push(format!("comment.class.{}", maps::model::comment_class(Some(c)))); if c.contains('#') { local.push("comment.hash".into()); }
            if c.starts_with(' ') || c.contains("\n ") { local.push("comment.leading_space".into()); } if c.ends_with('\n') { local.push("comment.trailing_lf".into()); } }
    });
    for k in local { rep.count(&k); }
}

fn nontrivial(m: &Maps) -> bool {
    let (c, f, me, p) = m.counts();
    let mut special = m.n_comments() > 0;
    m.visit(|l, n, _| if n.iter().skip(1).any(|x| x.is_none()) || (l == 0 && n[0].as_deref().is_some_and(|x| x.contains('$'))) { special = true });
    c + f + me + p >= 3 && special
}

/// Names made of (or containing) blank characters other than TAB / LF / CR: legal JVM names the tab-separated format can
/// carry. Only non-source cells are rewritten (source names are keys). Returns how many cells were changed.
fn blank_names(rng: &mut Rng, m: &mut Maps) -> usize {
    const BLANKS: [&str; 8] = [" ", "  ", "\u{3000}", "\u{a0}", "\u{2003}\u{2009}", "a b", " lead", "trail "];
    let mut n = 0;
    let mut touch = |rng: &mut Rng, row: &mut maps::model::Row| { for cell in row.iter_mut().skip(1) { if cell.is_some() && rng.chance(1, 5) { *cell = Some(rng.pick(&BLANKS).to_string()); n += 1; } } };
    for c in m.classes.values_mut() {
        // class names: a blank simple name in a package, so that the name stays a valid class name
        for cell in c.names.iter_mut().skip(1) { if cell.is_some() && rng.chance(1, 8) { *cell = Some(format!("pkg/{}", rng.pick(&BLANKS))); } }
        for f in c.fields.values_mut() { touch(rng, &mut f.names); }
        for me in c.methods.values_mut() { touch(rng, &mut me.names); for p in me.params.values_mut() { touch(rng, &mut p.names); } }
    }
    n
}

fn case<const N: usize>(rng: &mut Rng, rep: &mut Report, cfg: &GenCfg, hostile: bool) {
    let mut m = gen::gen_maps(rng, &cfg.clone().with_n(N));
    if !hostile && rng.chance(1, 6) { let n = blank_names(rng, &mut m); if n > 0 { rep.count("sets.with_blank_names"); rep.add("names.blank_or_with_blanks", n as u64); } }
    rep.eval();
    coverage(rep, &m);
    if hostile {
        m.visit(|_, _, c| if let Some(c) = c { let k = cause(Some(c)); if !k.is_empty() { rep.count(&format!("hostile{}", k.replace(' ', "_"))); } });
    }
    let input = || json!({"set": m.render()});
    // k = 4 insertion orders of the same content
    let mut texts: Vec<Vec<u8>> = vec![];
    for k in 0..4 {
        let mut r2 = rng.fork();
        let mut ins = match k { 0 => Ins::Sorted, 1 => Ins::Reverse, _ => Ins::Shuffle(&mut r2) };
        let q = maps::to_quill::<N, ()>(&m, &mut ins).expect("generated set is expressible");
        // order k is written through entry point (case + k) mod 3, so the comparison of the four texts below also compares the entry points
        let how = (rng.fork().below(3) + k) as u64;
        rep.count(WRITE_ENTRY[(how % 3) as usize]);
        match guard(|| write_via(&q, how)) {
            Err(p) => { rep.violation(format!("C03 panic {}", p.site()), json!({"call": "write_vec / write_string / write", "panic": p.message, "input": input()})); return; }
            Ok(Err(e)) => { rep.violation("C03 write: fails on a well-formed set", json!({"error": format!("{e:#}"), "input": input()})); return; }
            Ok(Ok((t, short))) => { if short > 0 { rep.count("entry.write.short_writes_happened"); } texts.push(t) }
        }
    }
    rep.add("orders_compared", 4);
    for k in 1..4 {
        if texts[k] != texts[0] {
            let (a, b) = (String::from_utf8_lossy(&texts[0]).into_owned(), String::from_utf8_lossy(&texts[k]).into_owned());
            let (mut la, mut lb): (Vec<&str>, Vec<&str>) = (a.lines().collect(), b.lines().collect());
            la.sort(); lb.sort();
            let kind = if la == lb { "same lines in a different order" } else { "different lines" };
            rep.violation(format!("C03 canonical: written text depends on insertion order or on the entry point used for writing ({kind})"), json!({"order_sorted": a, "other_order": b, "input": input()}));
            break;
        }
    }
    let text = &texts[0];
    let Ok(text_s) = std::str::from_utf8(text) else { rep.violation("C03 write: output is not UTF-8", json!({"input": input()})); return; };
    if rep.want_sample() && nontrivial(&m) { rep.sample(|| json!({"workload": if hostile { "hostile" } else { "main" }, "written_tiny": text_s})); }
    let has_tab = { let mut t = false; m.visit(|_, _, c| if c.as_deref().is_some_and(|c| c.contains('\t')) { t = true }); t };
    // every third text is delivered through a reader that returns short reads (legal for any `Read`)
    // ... and every fourth through the path-taking entry point `read_file`
    let via_file = if common::rng::fnv(text) % 4 == 1 { scratch_file() } else { None };
    if let Some(p) = &via_file {
        if let Err(e) = std::fs::write(p, text) { eprintln!("HARNESS-ERROR cannot write scratch file {p:?}: {e}"); std::process::exit(3); }
        rep.count("entry.read_file");
    } else if common::rng::fnv(text) % 3 == 0 { rep.count("entry.read(short-read reader)"); } else { rep.count("entry.read(slice)"); }
    let r = match guard(|| if let Some(p) = &via_file { tiny_v2::read_file::<N, ()>(p) } else if common::rng::fnv(text) % 3 == 0 { tiny_v2::read::<N, ()>(common::io::ChunkedReader::new(&text[..], common::rng::fnv(text), 1 + text.len() % 11)) } else { tiny_v2::read::<N, ()>(&text[..]) }) {
        Err(p) => { rep.violation(format!("C03 panic {}", p.site()), json!({"call": "read", "panic": p.message, "text": text_s, "input": input()})); return; }
        Ok(Err(e)) => {
            let why = if has_tab { " (a comment contains TAB)" } else { "" };
            rep.violation(format!("C03 roundtrip: read rejects the text write produced{why}"), json!({"error": format!("{e:#}"), "text": text_s, "input": input()}));
            return;
        }
        Ok(Ok(r)) => r,
    };
    maps::watch(rep, "C03", "read", &r, || json!({"text": text_s}));
    let back = maps::from_quill(&r);
    let rt = judge_roundtrip(&m, &back);
    for (sig, w) in &rt { rep.violation(sig.clone(), json!({"where": w, "text": text_s, "input": input(), "read_back": back.render()})); }
    // a set that did not survive the round trip cannot be expected to be a fixed point: one defect, one signature
    if !rt.is_empty() { if nontrivial(&m) { rep.nontrivial(m.shape_fingerprint()); } return; }
    rep.count("fixed_point.checked");
    match guard(|| tiny_v2::write_vec(&r)) {
        Err(p) => rep.violation(format!("C03 panic {}", p.site()), json!({"call": "write_vec(read(..))", "panic": p.message, "text": text_s})),
        Ok(Err(e)) => rep.violation("C03 fixed point: second write fails", json!({"error": format!("{e:#}"), "text": text_s})),
        Ok(Ok(t2)) => if &t2 != text {
            rep.violation("C03 fixed point: write(read(write(M))) differs from write(M)", json!({"first": text_s, "second": String::from_utf8_lossy(&t2), "input": input()}));
        },
    }
    if nontrivial(&m) { rep.nontrivial(m.shape_fingerprint()); }
}

fn reader_case<const N: usize>(rng: &mut Rng, rep: &mut Report, cfg: &GenCfg) {
    let m = gen::gen_maps(rng, &cfg.clone().with_n(N));
    rep.eval();
    rep.count(&format!("reader.namespaces.{N}"));
    let text = emit(&m, rng);
    // line endings: every eighth text has CR LF throughout, every eighth a mixture (a Windows checkout, an editor converting the lines
    // it touches). Whether the reader accepts CR LF is its decision (a refusal is counted, not judged); if it succeeds, the set read
    // must be the set emitted - not one whose last cells carry a CR.
    let endings = match rng.below(8) { 0 => "crlf", 1 => "mixed", _ => "lf" };
    let text = if endings == "lf" || text.contains('\r') { text } else {
        let mut out = String::with_capacity(text.len() + 64);
        for l in text.split_inclusive('\n') { if l.ends_with('\n') && (endings == "crlf" || rng.bool()) { out.push_str(&l[..l.len() - 1]); out.push_str("\r\n"); } else { out.push_str(l); } }
        rep.count(&format!("reader.line_endings.{endings}"));
        out
    };
    // every sixth LF text: one entry row is listed a second time among its siblings (same key - first name (+ descriptor) or parameter index -
    // other names in the last column). Such a text denotes no mapping set; a reader that accepts it has merged or lost an entry.
    if endings == "lf" && rng.chance(1, 6) {
        let lines: Vec<&str> = text.split_inclusive('\n').collect();
        let level = |l: &str| -> Option<usize> { let ind = l.bytes().take_while(|b| *b == b'\t').count(); let rest = &l[ind..]; match (ind, rest.as_bytes().first(), rest.as_bytes().get(1)) { (0, Some(b'c'), Some(b'\t')) => Some(0), (1, Some(b'f' | b'm'), Some(b'\t')) => Some(1), (2, Some(b'p'), Some(b'\t')) => Some(2), _ => None } };
        let rows: Vec<usize> = (1..lines.len()).filter(|i| level(lines[*i]).is_some() && lines[*i].ends_with('\n')).collect();
        if !rows.is_empty() {
            let i = *rng.pick(&rows); let lv = level(lines[i]).unwrap();
            let mut end = i + 1; while end < lines.len() && lines[end].bytes().take_while(|b| *b == b'\t').count() > lv { end += 1; }
            let row = &lines[i][..lines[i].len() - 1];
            // the last column gets another name (an empty one gets one); with N >= 2 that column is never part of the key
            let twin = format!("{row}x\n");
            let dup: String = lines[..end].concat() + &twin + &lines[end..].concat();
            let kind = ["class", "field or method", "parameter"][lv];
            rep.count(&format!("reader.duplicate_key.{kind}"));
            match guard(|| tiny_v2::read::<N, ()>(dup.as_bytes())) {
                Err(p) => rep.violation(format!("C03 panic {}", p.site()), json!({"call": "read (text listing one key twice)", "panic": p.message, "text": dup})),
                Ok(Err(_)) => rep.count("reader.duplicate_key.refused"),
                Ok(Ok(r)) => rep.violation(format!("C03 read: accepts a text that lists one {kind} key twice (an entry is merged or lost)"), json!({"text": dup, "read_back": maps::from_quill(&r).render()})),
            }
        }
    }
    let foreign = text.contains("\r\n");
    match guard(|| tiny_v2::read::<N, ()>(text.as_bytes())) {
        Err(p) => rep.violation(format!("C03 panic {}", p.site()), json!({"call": "read", "panic": p.message, "text": text})),
        Ok(Err(_)) if foreign => rep.count("reader.line_endings.refused (not judged)"),
        Ok(Err(e)) => rep.violation("C03 read: rejects a well-formed Tiny v2 text (harness emitter, arbitrary sibling order)", json!({"error": format!("{e:#}"), "text": text})),
        Ok(Ok(r)) => {
            if foreign { rep.count("reader.line_endings.read"); }
            maps::watch(rep, "C03", "read", &r, || json!({"text": text}));
            let back = maps::from_quill(&r);
            for (k, w) in cmp::kinds(&cmp::diff_maps(&m, &back)) { rep.violation(format!("C03 read (harness-emitted text): {k}"), json!({"where": w, "text": text, "read_back": back.render()})); }
            if nontrivial(&m) { rep.nontrivial(m.shape_fingerprint() ^ 0x5eed); rep.count("reader.nontrivial"); }
        }
    }
}

fn canaries() {
    let bad = |s: &str| -> ! { eprintln!("HARNESS-ERROR C03 self-check failed: {s}"); std::process::exit(3) };
    if let Err(e) = maps::self_test(3, 60) { bad(&e); }
    let mut rng = Rng::new(99);
    let cfg = GenCfg { comment_chance: (1, 1), fully_named: false, ..GenCfg::default() };
    let mut done = [false; 4];
    for _ in 0..2000 {
        let m = gen::gen_maps(&mut rng, &cfg.clone().with_n(3));
        if !judge_roundtrip(&m, &m).is_empty() { bad("equal sets reported as different"); }
        let Some((ck, c)) = m.classes.iter().next() else { continue };
        // wrong expectation 1: a comment changed
        let mut w = m.clone(); w.classes.get_mut(ck).unwrap().comment = Some("something else".into());
        if judge_roundtrip(&m, &w).is_empty() { bad("changed class comment not flagged"); } done[0] = true;
        // 2: an entry lost
        let mut w = m.clone(); w.classes.remove(ck);
        if judge_roundtrip(&m, &w).is_empty() { bad("lost class not flagged"); } done[1] = true;
        // 3: a field re-parented to another class
        if let (Some((fk, f)), Some(other)) = (c.fields.iter().next(), m.classes.keys().nth(1)) {
            if !m.classes[other].fields.contains_key(fk) {
                let mut w = m.clone(); w.classes.get_mut(ck).unwrap().fields.remove(fk); w.classes.get_mut(other).unwrap().fields.insert(fk.clone(), f.clone());
                if judge_roundtrip(&m, &w).is_empty() { bad("re-parented field not flagged"); } done[2] = true;
            }
        }
        // 4: an absent cell turned into a present one
        if let Some(i) = c.names.iter().position(|x| x.is_none()) {
            let mut w = m.clone(); w.classes.get_mut(ck).unwrap().names[i] = Some("X".into());
            if judge_roundtrip(&m, &w).is_empty() { bad("invented name not flagged"); } done[3] = true;
        }
    }
    if done != [true; 4] { bad("canary generator did not reach every canary"); }
    // the own emitter and the model agree on a hand-written example of the documented format
    let mut m = Maps::new(&["a", "b"]);
    m.classes.insert("A".into(), maps::Class { names: vec![Some("A".into()), None], comment: Some("x\ny".into()), ..Default::default() });
    if emit(&m, &mut rng) != "tiny\t2\t0\ta\tb\nc\tA\t\n\tc\tx\\ny\n" { bad("emitter does not produce the documented format"); }
}

/// cases of the Miri slice the thorough tier asks for (measured: see NOTES.md)
const MIRI_CASES: usize = 60;

/// Write-only probe with lone surrogates (no text format can carry them, so nothing is judged but unexpected panics and the
/// output being UTF-8): `write_vec` sorts by the raw names and prints them through duke's `Display`, which returns `fmt::Error`
/// for a name that is not UTF-8 - `io::Write::write_fmt` turns that into the panic "a formatting trait implementation returned
/// an error when the underlying stream did not". That panic is outside the judged domain (counted, see NOTES.md).
fn surrogate_write_probe<const N: usize>(rng: &mut Rng, rep: &mut Report, cfg: &GenCfg) {
    // up to 6 draws until a set carries the marker (U+FFFD in the model = lone surrogate in the tree)
    let mut m = gen::gen_maps(rng, &cfg.clone().with_n(N));
    for _ in 0..5 { if m.render().contains('\u{fffd}') { break; } m = gen::gen_maps(rng, &cfg.clone().with_n(N)); }
    rep.eval();
    let q = maps::to_quill::<N, ()>(&m, &mut Ins::Shuffle(&mut rng.fork())).expect("generated set is expressible");
    match guard(|| tiny_v2::write_vec(&q)) {
        Err(p) if p.message.contains("formatting trait implementation returned an error") => rep.count("miri.surrogate_write.panics_because_Display_refuses_non_UTF-8 (not judged)"),
        Err(p) => rep.violation(format!("C03 panic {}", p.site()), json!({"call": "write_vec (names with lone surrogates)", "panic": p.message, "input": m.render()})),
        Ok(Err(_)) => rep.count("miri.surrogate_write.refused (not judged)"),
        Ok(Ok(t)) => { if std::str::from_utf8(&t).is_err() { rep.violation("C03 write: output is not UTF-8", json!({"input": m.render()})); } rep.count("miri.surrogate_sets_written"); }
    }
}

/// `c03 --miri-slice <seed> <cases> <max seconds>`: single-threaded, no files. The ordinary cases (write from 4 insertion orders,
/// read back - every third text through the short-read reader -, round trip, fixed point, key invariant; reader on the harness'
/// own emitter; hostile comments) on small sets in which a third of the simple names are hostile (NUL, boundary / supplementary
/// code points, BOM, descriptor letters, names of 40..1300 bytes); every sixth case writes a set with lone surrogates.
fn miri_slice(seed: u64, cases: usize, max_s: u64) -> i32 {
    let main_cfg = maps::slice::small(GenCfg { comments: CommentClass::Rich, empty_comments: true, ..GenCfg::default() });
    let loose_cfg = GenCfg { unique_per_namespace: false, absent: (1, 2), ..main_cfg.clone() };
    let hostile_cfg = maps::slice::small(GenCfg { comments: CommentClass::Hostile, comment_chance: (1, 2), ..GenCfg::default() });
    maps::slice::run("C03", seed, cases, max_s, 6, |rng, rep, i, sur| {
        if sur { return match i % 2 { 0 => surrogate_write_probe::<2>(rng, rep, &main_cfg), _ => surrogate_write_probe::<3>(rng, rep, &main_cfg) }; }
        match i % 6 {
            0 => case::<2>(rng, rep, &main_cfg, false), 1 => case::<3>(rng, rep, &loose_cfg, false), 2 => reader_case::<3>(rng, rep, &main_cfg),
            3 => case::<4>(rng, rep, &main_cfg, false), _ => case::<2>(rng, rep, &hostile_cfg, true),
        }
    })
}

fn main() {
    if let Some((seed, n, max_s)) = common::miri::slice_args() { std::process::exit(miri_slice(seed, n, max_s)); }
    let mut ctx = Ctx::from_args("C03", 40, 480);
    let replay = load_replay(&mut ctx);
    canaries();
    let dir = format!("{}/scratch/c03-{}", ctx.out_dir, std::process::id());
    if let Err(e) = std::fs::create_dir_all(&dir) { eprintln!("HARNESS-ERROR cannot create {dir}: {e}"); std::process::exit(3); }
    SCRATCH_DIR.set(dir.clone()).ok();
    let mut rep = Report::new();
    let main_cfg = GenCfg { comments: CommentClass::Rich, empty_comments: true, ..GenCfg::default() };
    let loose_cfg = GenCfg { unique_per_namespace: false, absent: (1, 2), ..main_cfg.clone() };
    let hostile_cfg = GenCfg { comments: CommentClass::Hostile, comment_chance: (1, 2), max_classes: 3, big: (0, 1), ..GenCfg::default() };
    let n = ctx.tier.pick(150_000, 1_200_000);
    // the two small workloads first: every coverage obligation that only they can meet is met within the first seconds, and the
    // wall-clock budget (which only ever ends generation early) can then cut the bulk workload without starving anything
    run_cases(&ctx, &replay, &mut rep, "hostile", n / 10, |rng, rep, i| {
        match i % 3 { 0 => case::<2>(rng, rep, &hostile_cfg, true), 1 => case::<3>(rng, rep, &hostile_cfg, true), _ => case::<4>(rng, rep, &hostile_cfg, true) }
    });
    run_cases(&ctx, &replay, &mut rep, "reader", n / 4, |rng, rep, i| {
        match i % 3 { 0 => reader_case::<2>(rng, rep, &main_cfg), 1 => reader_case::<3>(rng, rep, &main_cfg), _ => reader_case::<4>(rng, rep, &main_cfg) }
    });
    run_cases(&ctx, &replay, &mut rep, "main", n, |rng, rep, i| {
        let cfg = if i % 5 == 4 { &loose_cfg } else { &main_cfg };
        match i % 3 { 0 => case::<2>(rng, rep, cfg, false), 1 => case::<3>(rng, rep, cfg, false), _ => case::<4>(rng, rep, cfg, false) }
    });
    let mut meta = Meta::new("exploration",
        "sets drawn by maps::gen (2-4 namespaces, partial rows, nested/unicode/placeholder names, rich comments); each written from 4 insertion orders, read back, written again; \
         non-trivial = at least 3 entries and (a comment, an absent non-source cell or a nested source name); distinct = structural fingerprint (shape, name/comment/descriptor classes)")
        .assume("names contain no TAB / LF / CR (the text format cannot carry them); other blank characters (space, NBSP, U+3000, ...) occur in non-source names of a sixth of the sets, source names stay free of blanks")
        .assume("the file-level comment is not part of the judged content")
        .assume("comments of the main workload contain no backslash, TAB or CR; those are exercised by the separate 'hostile' workload");
    if ctx.replay.is_none() {
        for k in ["namespaces.2", "namespaces.3", "namespaces.4", "absent.trailing_cell", "absent.middle_cell", "parameter.without_source_name", "names.unicode", "names.nested_source",
            "comment.class", "comment.field", "comment.method", "comment.parameter", "comment.class.b", "comment.class.m", "comment.hash", "comment.leading_space",
            "siblings>=2.class", "siblings>=2.field", "siblings>=2.method", "siblings>=2.parameter", "twins.same_name_row_different_descriptor", "reader.nontrivial",
            "hostile_(contains_backslash-n)", "hostile_(contains_TAB)", "hostile_(ends_with_CR)", "fixed_point.checked"] {
            meta.oblige(format!("at least one case with {k}"), rep.get(k) > 0);
        }
    }
    let _ = std::fs::remove_dir_all(&dir);
    if ctx.replay.is_none() {
        for k in ["entry.write_vec", "entry.write_string", "entry.write(short-write writer)", "entry.write.short_writes_happened", "entry.read_file", "entry.read(short-read reader)", "entry.read(slice)"] {
            meta.oblige(format!("every public entry point of the format is driven: {k} (>= 100)"), rep.get(k) >= 100);
        }
    }
    if ctx.replay.is_none() { meta.oblige("harness-emitted texts with CR LF line endings throughout (>= 100) and mixed (>= 100), the reader's treatment observed", rep.get("reader.line_endings.crlf") >= 100 && rep.get("reader.line_endings.mixed") >= 100 && rep.get("reader.line_endings.read") + rep.get("reader.line_endings.refused (not judged)") > 0); }
    if ctx.replay.is_none() { meta.oblige("sets with blank-only / blank-containing non-source names", rep.get("sets.with_blank_names") >= 50); }
    if ctx.replay.is_none() {
        if ctx.tier == Tier::Thorough {
            let r = common::miri::run_slice(&ctx, "c03", env!("CARGO_MANIFEST_DIR"), MIRI_CASES, 170, 285);
            if let Some(line) = r.ub { rep.cur = ("miri".into(), 0); rep.violation(format!("miri: {line}"), json!({"how": format!("cargo +nightly miri run --offline -p c03 -- --miri-slice <seed> {MIRI_CASES} 170"), "seed": ctx.seed as i64, "status": r.status})); }
            meta.extra.insert("miri_slice".into(), json!(r.status));
        } else { meta.extra.insert("miri_slice".into(), json!("not run in the quick tier")); }
    }
    std::process::exit(finish(&ctx, rep, meta));
}
