//! The C13 oracle: entry-level expectation table, side marks, union-exactly-once, R-merge-order, fact comparison.
//! Nothing in here calls dukebox or duke; classes are looked at through the harness' own strict parser only.
use cf::{diff, model::*, parse, project};
use common::*;
use std::collections::{HashMap, HashSet};
use std::hash::Hash;

pub const ENV: &[u8] = b"Lnet/fabricmc/api/Environment;";
pub const ENV_ITF: &[u8] = b"Lnet/fabricmc/api/EnvironmentInterface;";
pub const ENV_ITFS: &[u8] = b"Lnet/fabricmc/api/EnvironmentInterfaces;";
pub const ENV_TYPE: &[u8] = b"Lnet/fabricmc/api/EnvType;";

#[derive(Clone, Copy, PartialEq, Eq, Debug, PartialOrd, Ord)]
pub enum Side { Client, Server }
impl Side {
    pub fn name(self) -> &'static str { match self { Side::Client => "client", Side::Server => "server" } }
    pub fn constant(self) -> &'static [u8] { match self { Side::Client => b"CLIENT", Side::Server => b"SERVER" } }
}

// ------------------------------------------------------------------------------------------------ R-merge-order

/// "a common supersequence exists": the union of the two chains (x before its successor, per list) has no cycle. Kahn's algorithm.
pub fn feasible_by_toposort<K: Eq + Hash + Clone>(c: &[K], s: &[K]) -> bool {
    let mut id: HashMap<&K, usize> = HashMap::new();
    for k in c.iter().chain(s) { let n = id.len(); id.entry(k).or_insert(n); }
    let n = id.len();
    let mut succ: Vec<Vec<usize>> = vec![vec![]; n];
    let mut indeg = vec![0usize; n];
    for l in [c, s] { for w in l.windows(2) { let (a, b) = (id[&w[0]], id[&w[1]]); if a == b { return false; } succ[a].push(b); indeg[b] += 1; } }
    let mut ready: Vec<usize> = (0..n).filter(|i| indeg[*i] == 0).collect();
    let mut done = 0;
    while let Some(x) = ready.pop() { done += 1; for y in std::mem::take(&mut succ[x]) { indeg[y] -= 1; if indeg[y] == 0 { ready.push(y); } } }
    done == n
}
/// DESIGN.md 9a wording: the common keys appear in the same order on both sides
pub fn feasible_by_projection<K: Eq + Hash + Clone>(c: &[K], s: &[K]) -> bool {
    let (cs, ss): (HashSet<&K>, HashSet<&K>) = (c.iter().collect(), s.iter().collect());
    let a: Vec<&K> = c.iter().filter(|k| ss.contains(k)).collect();
    let b: Vec<&K> = s.iter().filter(|k| cs.contains(k)).collect();
    a == b
}
pub fn restrict<K: Eq + Hash + Clone>(o: &[K], to: &[K]) -> Vec<K> { let t: HashSet<&K> = to.iter().collect(); o.iter().filter(|k| t.contains(k)).cloned().collect() }

// ------------------------------------------------------------------------------------------------ entry table

#[derive(Clone, Debug, PartialEq, Eq)]
pub enum NameClass { Dir, Manifest, /// directly in META-INF, upper-case extension SF / RSA / DSA / EC
    Signature(&'static str), /// looks signature-related but is not covered by the JAR specification's wording (nested, lower case, SIG-*)
    SignatureOpen, Class { library_package: bool }, Resource }

pub fn classify(name: &str) -> NameClass {
    if name.ends_with('/') { return NameClass::Dir; }
    if name == "META-INF/MANIFEST.MF" { return NameClass::Manifest; }
    let parts: Vec<&str> = name.split('/').collect();
    if parts[0] == "META-INF" {
        let file = parts[parts.len() - 1];
        let ext = file.rsplit_once('.').map(|(_, e)| e).unwrap_or("");
        // "signature files" of the statement: the signature file (.SF) and the RSA block the Minecraft jars carry (what the
        // Java JarMerger this code ports removes); .DSA / .EC blocks are left open (kept or removed, both accepted and counted)
        let strict = ["SF", "RSA"].into_iter().find(|e| *e == ext);
        if let (Some(e), 2) = (strict, parts.len()) { return NameClass::Signature(e); }
        if ["SF", "RSA", "DSA", "EC"].iter().any(|e| e.eq_ignore_ascii_case(ext)) || file.starts_with("SIG-") { return NameClass::SignatureOpen; }
    }
    if let Some(stem) = name.strip_suffix(".class") {
        let comps: Vec<&str> = stem.split('/').collect();
        let pkg = &comps[..comps.len() - 1];
        let minecraft = pkg.len() >= 2 && pkg[0] == "net" && pkg[1] == "minecraft";
        return NameClass::Class { library_package: !pkg.is_empty() && !minecraft };
    }
    NameClass::Resource
}

#[derive(Clone, Copy, Debug, PartialEq, Eq)]
pub enum Expect { Present, Absent, Open }

/// what the statement says about an entry name that occurs in the client jar and/or the server jar
pub fn expect(name: &str, in_client: bool, in_server: bool) -> Expect {
    match classify(name) {
        NameClass::Signature(_) => Expect::Absent,
        NameClass::SignatureOpen => Expect::Open,
        NameClass::Class { library_package: true } if in_server && !in_client => Expect::Absent,
        _ => Expect::Present,
    }
}
pub fn kind_name(name: &str) -> &'static str {
    match classify(name) { NameClass::Dir => "directory", NameClass::Manifest => "manifest", NameClass::Signature(_) | NameClass::SignatureOpen => "signature-related file", NameClass::Class { .. } => "class", NameClass::Resource => "resource" }
}
pub fn sides_name(c: bool, s: bool) -> &'static str { match (c, s) { (true, true) => "in both jars", (true, false) => "client only", (false, true) => "server only", _ => "in neither jar" } }

// ------------------------------------------------------------------------------------------------ marks

#[derive(Clone, Debug, PartialEq, Eq)]
pub enum Mark { Side(Side), Malformed }

fn side_of(v: &ElementValue) -> Option<Side> {
    match v { ElementValue::Enum(t, c) if t.0 == ENV_TYPE => if c.0 == b"CLIENT" { Some(Side::Client) } else if c.0 == b"SERVER" { Some(Side::Server) } else { None }, _ => None }
}
fn read_env(a: &Annotation) -> Option<Mark> {
    if a.type_.0 != ENV { return None; }
    if a.pairs.len() == 1 && a.pairs[0].0 .0 == b"value" { if let Some(s) = side_of(&a.pairs[0].1) { return Some(Mark::Side(s)); } }
    Some(Mark::Malformed)
}
/// removes every `@Environment` annotation (either visibility) and returns what they said
pub fn take_marks(vis: &mut Vec<Annotation>, invis: &mut Vec<Annotation>) -> Vec<Mark> {
    let mut out = vec![];
    for l in [vis, invis] { l.retain(|a| match read_env(a) { Some(m) => { out.push(m); false } None => true }); }
    out
}
/// removes every `@EnvironmentInterfaces` annotation and returns its (interface, side) items; None = malformed
pub fn take_itf_marks(vis: &mut Vec<Annotation>, invis: &mut Vec<Annotation>) -> Option<Vec<(JS, Side)>> {
    let mut out = vec![]; let mut ok = true;
    for l in [vis, invis] {
        l.retain(|a| {
            if a.type_.0 != ENV_ITFS { return true; }
            match a.pairs.as_slice() {
                [(n, ElementValue::Array(items))] if n.0 == b"value" => for it in items {
                    let ElementValue::Annotation(ia) = it else { ok = false; continue };
                    if ia.type_.0 != ENV_ITF || ia.pairs.len() != 2 { ok = false; continue; }
                    let side = ia.pairs.iter().find(|p| p.0 .0 == b"value").and_then(|p| side_of(&p.1));
                    let itf = ia.pairs.iter().find(|p| p.0 .0 == b"itf").and_then(|p| match &p.1 { ElementValue::Class(d) if d.0.len() > 2 && d.0[0] == b'L' && d.0[d.0.len() - 1] == b';' => Some(JS(d.0[1..d.0.len() - 1].to_vec())), _ => None });
                    match (side, itf) { (Some(s), Some(i)) => out.push((i, s)), _ => ok = false }
                },
                _ => ok = false,
            }
            false
        });
    }
    if ok { Some(out) } else { None }
}

// ------------------------------------------------------------------------------------------------ class judging

pub struct Cx<'a> {
    pub entry: &'a str,
    pub client: Option<(&'a Class, &'a [u8])>,
    pub server: Option<(&'a Class, &'a [u8])>,
    pub out: &'a [u8],
}
impl Cx<'_> {
    pub fn detail(&self, extra: Value) -> Value {
        json!({"entry": self.entry, "client_class_hex": self.client.map(|c| hex(c.1)), "server_class_hex": self.server.map(|c| hex(c.1)), "output_class_hex": hex(self.out), "what": extra})
    }
}

pub fn template(msg: &str) -> String {
    let mut out = String::new(); let mut in_q = false; let mut in_num = false;
    for c in msg.chars() {
        if c == '"' { in_q = !in_q; if in_q { out.push_str("\"..\""); } continue; }
        if in_q { continue; }
        if c.is_ascii_digit() { if !in_num { out.push('#'); in_num = true; } continue; }
        in_num = false; out.push(c);
    }
    out.chars().take(140).collect()
}

/// facts of `obs` against `exp`. The duke writer never emits StackMapTable (known finding of C02): that one loss is reported
/// under its own signature and taken out of the comparison, so that everything else is still compared.
fn compare(exp: &Class, obs: &Class) -> (Vec<diff::Difference>, bool) {
    let (mut e, mut o) = (exp.clone(), obs.clone());
    project::normalise(&mut e); project::normalise(&mut o);
    let mut frames_lost = false;
    if e.methods.len() == o.methods.len() {
        for (em, om) in e.methods.iter_mut().zip(&o.methods) {
            if let (Some(ec), Some(oc)) = (&mut em.code, &om.code) { if ec.frames.is_some() && oc.frames.is_none() { frames_lost = true; ec.frames = None; } }
        }
    }
    if e == o { (vec![], frames_lost) } else { (diff::diff(&e, &o, 12), frames_lost) }
}
pub const SIG_FRAMES: &str = "C13 rewritten class fact .methods[].code.frames:missing";
fn report_facts(rep: &mut Report, cx: &Cx, what: &str, exp: &Class, obs: &Class) {
    let (d, lost) = compare(exp, obs);
    if lost { rep.violation(SIG_FRAMES, cx.detail(json!({"of": what}))); }
    if d.is_empty() { rep.count("facts.equal"); }
    for x in d { rep.violation(format!("C13 rewritten class fact {}", x.signature()), cx.detail(json!({"of": what, "at": x.at, "expected": x.expected, "observed": x.observed}))); }
}
fn wrap_m(m: &Method) -> Class { Class { methods: vec![m.clone()], ..Default::default() } }
fn wrap_f(f: &Field) -> Class { Class { fields: vec![f.clone()], ..Default::default() } }

fn parse_out(rep: &mut Report, cx: &Cx, cat: &str) -> Option<Class> {
    match parse::parse(cx.out) {
        Ok(c) => Some(c),
        Err(e) => { rep.violation(format!("C13 {cat} class: output rejected by the strict class-file parser: {}", template(&e)), cx.detail(json!({"parser": e}))); None }
    }
}

/// multiset difference a - b
fn msub<T: PartialEq + Clone>(a: &[T], b: &[T]) -> Vec<T> {
    let mut rest = b.to_vec(); let mut out = vec![];
    for x in a { if let Some(p) = rest.iter().position(|y| y == x) { rest.remove(p); } else { out.push(x.clone()); } }
    out
}
fn other(s: Side) -> Side { match s { Side::Client => Side::Server, Side::Server => Side::Client } }

/// Environment marks an INPUT element already carries (either visibility) — e.g. because the input is itself a merged jar
fn source_marks(rep: &mut Report, vis: &[Annotation], invis: &[Annotation]) -> Vec<Mark> {
    let (mut v, mut i) = (vis.to_vec(), invis.to_vec());
    let (nv, ni) = (v.len(), i.len());
    let m = take_marks(&mut v, &mut i);
    if v.len() < nv { rep.count("premarked.source_mark.visible"); }
    if i.len() < ni { rep.count("premarked.source_mark.invisible"); }
    m
}
fn unmarked_f(f: &Field) -> Field { let mut f = f.clone(); take_marks(&mut f.vis_annotations, &mut f.invis_annotations); f }
fn unmarked_m(m: &Method) -> Method { let mut m = m.clone(); take_marks(&mut m.vis_annotations, &mut m.invis_annotations); m }

/// An element that only ONE side of THIS merge has must come out carrying a mark that names that side, and the merge may
/// add nothing but that one mark. What happens to marks the element arrived with (kept, removed, a same-side mark not
/// duplicated) is left open by the statement: counted, not judged.
fn judge_one_sided_marks(rep: &mut Report, cx: &Cx, what: &str, tag: &str, out: &[Mark], src: &[Mark], want: Side, key: &str) {
    let added = msub(out, src); let removed = msub(src, out);
    let d = || cx.detail(json!({"element": key, "marks_in_output": format!("{out:?}"), "marks_the_source_arrived_with": format!("{src:?}"), "expected_side": want.name()}));
    let (w, o) = (Mark::Side(want), Mark::Side(other(want)));
    if !src.is_empty() {
        let (hs, ho) = (src.contains(&w), src.contains(&o));
        rep.count(&format!("premarked.one_sided_{tag}.arrived_with_{}", match (hs, ho) { (true, true) => "marks_of_both_sides", (true, false) => "a_mark_of_its_side", (false, true) => "a_mark_of_the_other_side", _ => "a_malformed_mark" }));
        if !removed.is_empty() { rep.count("premarked.not_judged.source_mark_removed"); }
        if ho && out.contains(&o) { rep.count("premarked.not_judged.stale_other_side_mark_kept"); }
        if hs { rep.count(if added.is_empty() { "premarked.not_judged.same_side_mark_not_duplicated" } else { "premarked.not_judged.same_side_mark_duplicated" }); }
    }
    if added.contains(&Mark::Malformed) { rep.violation(format!("C13 {what}: Environment mark malformed"), d()); return; }
    if added.contains(&o) { rep.violation(format!("C13 {what} marked with the wrong side"), d()); }
    else if !out.contains(&w) { rep.violation(format!("C13 {what} not marked with its side"), d()); }
    else if added.len() > 1 { rep.violation(format!("C13 {what} marked more than once"), d()); }
    else { rep.count("marks.one_sided_marked"); }
}

/// An element BOTH sides have: this merge must not mark it, i.e. the output's marks are among the marks one of the two
/// versions arrived with. Whether marks it arrived with are kept is left open (counted).
fn judge_shared_marks(rep: &mut Report, cx: &Cx, what: &str, tag: &str, out: &[Mark], c: &[Mark], s: &[Mark], key: &str) {
    if !c.is_empty() || !s.is_empty() {
        rep.count(&format!("premarked.shared_{tag}.arrived_marked_{}", if c == s { "equally_on_both_sides" } else if c.is_empty() || s.is_empty() { "on_one_side" } else { "differently_on_the_two_sides" }));
        rep.count(if out.is_empty() { "premarked.not_judged.shared_element_source_marks_removed" } else { "premarked.not_judged.shared_element_keeps_source_marks" });
    }
    if msub(out, c).is_empty() || msub(out, s).is_empty() { rep.count("marks.shared_unmarked"); }
    else { rep.violation(format!("C13 {what} marked with a side"), cx.detail(json!({"element": key, "marks_in_output": format!("{out:?}"), "marks_the_client_version_arrived_with": format!("{c:?}"), "marks_the_server_version_arrived_with": format!("{s:?}")}))); }
}

/// a class that exists on one side only: marked with that side, everything else as in the source
pub fn judge_one_sided(rep: &mut Report, cx: &Cx, side: Side) {
    let Some(mut o) = parse_out(rep, cx, "one-sided") else { return };
    let src = match side { Side::Client => cx.client, Side::Server => cx.server }.map(|x| x.0).expect("source of a one-sided class");
    let marks = take_marks(&mut o.vis_annotations, &mut o.invis_annotations);
    let mut src = src.clone();
    let had = source_marks(rep, &src.vis_annotations, &src.invis_annotations);
    take_marks(&mut src.vis_annotations, &mut src.invis_annotations);
    judge_one_sided_marks(rep, cx, &format!("{}-only class", side.name()), "class", &marks, &had, side, cx.entry);
    report_facts(rep, cx, "one-sided class", &src, &o);
}

#[derive(Default, Debug, Clone)]
pub struct OrderStat { pub compatible: bool, pub client_only: usize, pub server_only: usize, pub shared: usize, pub server_only_before_shared: bool }

/// union exactly once + order; returns false when the key multiset is wrong (then marks/facts are not looked at)
fn check_keys<K: Eq + Hash + Clone + std::fmt::Debug>(rep: &mut Report, cx: &Cx, kind: &str, c: &[K], s: &[K], o: &[K], judge_order: bool) -> (bool, OrderStat) {
    let (cs, ss): (HashSet<&K>, HashSet<&K>) = (c.iter().collect(), s.iter().collect());
    let d = |extra: &str| cx.detail(json!({"kind": kind, "problem": extra, "client_keys": format!("{c:?}"), "server_keys": format!("{s:?}"), "output_keys": format!("{o:?}")}));
    let mut ok = true;
    let mut n: HashMap<&K, usize> = HashMap::new();
    for k in o { *n.entry(k).or_insert(0) += 1; }
    for k in c.iter().chain(s.iter().filter(|k| !cs.contains(k))) {
        let side = match (cs.contains(k), ss.contains(k)) { (true, true) => "shared", (true, false) => "client-only", _ => "server-only" };
        match n.get(k).copied().unwrap_or(0) {
            1 => {}
            0 => { ok = false; rep.violation(format!("C13 differing class: {side} {kind} missing from the output"), d(&format!("{k:?}"))); }
            _ => { ok = false; rep.violation(format!("C13 differing class: {side} {kind} more than once in the output"), d(&format!("{k:?}"))); }
        }
    }
    for k in o { if !cs.contains(k) && !ss.contains(k) { ok = false; rep.violation(format!("C13 differing class: {kind} in the output that neither side has"), d(&format!("{k:?}"))); } }
    let compatible = feasible_by_toposort(c, s);
    if compatible != feasible_by_projection(c, s) { eprintln!("HARNESS-ERROR the two merge-feasibility tests disagree on {c:?} / {s:?}"); std::process::exit(3); }
    let shared = c.iter().filter(|k| ss.contains(k)).count();
    let last_shared = s.iter().rposition(|k| cs.contains(k));
    // saturating: a side that lists a key twice (only possible when it is itself the wrong output of an earlier merge) must not take the harness down
    let st = OrderStat { compatible, client_only: c.len().saturating_sub(shared), server_only: s.len().saturating_sub(shared), shared,
        server_only_before_shared: last_shared.is_some_and(|l| s[..l].iter().any(|k| !cs.contains(k))) };
    if ok {
        let (rc, rs) = (restrict(o, c), restrict(o, s));
        if compatible {
            if judge_order {
                if rc != c { rep.violation(format!("C13 differing class: relative order of the client's {kind}s not preserved although the two orders are compatible"), d("output restricted to the client's keys differs from the client's sequence")); }
                if rs != s { rep.violation(format!("C13 differing class: relative order of the server's {kind}s not preserved although the two orders are compatible"), d("output restricted to the server's keys differs from the server's sequence")); }
                if rc == c && rs == s { rep.count(&format!("order.{kind}.compatible.preserved")); }
            } else if rc != c || rs != s { rep.count(&format!("order.{kind}.compatible.not_preserved(not judged)")); }
            rep.count(&format!("order.{kind}.compatible"));
            if st.client_only > 0 && st.server_only > 0 && st.shared > 0 { rep.count(&format!("order.{kind}.compatible.all_three_roles")); }
            if st.server_only_before_shared { rep.count(&format!("order.{kind}.compatible.server_only_before_a_shared_one")); }
        } else {
            rep.count(&format!("order.{kind}.incompatible"));
            if rc == c { rep.count(&format!("order.{kind}.incompatible.client_order_kept")); }
            if rs == s { rep.count(&format!("order.{kind}.incompatible.server_order_kept")); }
        }
        rep.add(&format!("{kind}s.client_only"), st.client_only as u64); rep.add(&format!("{kind}s.server_only"), st.server_only as u64); rep.add(&format!("{kind}s.shared"), st.shared as u64);
    }
    (ok, st)
}

fn class_level(c: &Class) -> Class { let mut x = c.clone(); x.fields.clear(); x.methods.clear(); x.interfaces.clear(); x.record = None; x.permitted_subclasses = None; x }

pub struct DiffStats { pub fields: OrderStat, pub methods: OrderStat, pub interfaces: OrderStat }

/// a class that exists on both sides with different bytes
pub fn judge_differing(rep: &mut Report, cx: &Cx) -> Option<DiffStats> {
    let mut o = parse_out(rep, cx, "differing")?;
    let (c, s) = (cx.client.expect("client side").0, cx.server.expect("server side").0);

    // ---- interfaces: union exactly once; marks in @EnvironmentInterfaces; order is not a "member" order -> counted, not judged
    let (ci, si) = (c.interfaces.clone(), s.interfaces.clone());
    let (iok, ist) = check_keys(rep, cx, "interface", &ci, &si, &o.interfaces, false);
    let marks = take_itf_marks(&mut o.vis_annotations, &mut o.invis_annotations);
    // marks the two versions arrived with (an input may itself be the result of a merge)
    let (mut cc, mut sc) = (c.clone(), s.clone());
    let src_c = take_itf_marks(&mut cc.vis_annotations, &mut cc.invis_annotations).unwrap_or_default();
    let src_s = take_itf_marks(&mut sc.vis_annotations, &mut sc.invis_annotations).unwrap_or_default();
    if iok {
        match marks {
            None => rep.violation("C13 differing class: EnvironmentInterfaces mark malformed", cx.detail(json!({}))),
            Some(found) => {
                let d = |x: &JS| cx.detail(json!({"interface": x.show(), "marks_in_output": format!("{found:?}"), "marks_the_client_version_arrived_with": format!("{src_c:?}"), "marks_the_server_version_arrived_with": format!("{src_s:?}"), "client_interfaces": format!("{ci:?}"), "server_interfaces": format!("{si:?}")}));
                let n = |l: &[(JS, Side)], i: &JS, sd: Side| l.iter().filter(|m| m.0 == *i && m.1 == sd).count();
                // marks of (i, side) this merge ADDED: more of them in the output than either version arrived with
                let added = |i: &JS, sd: Side| n(&found, i, sd).saturating_sub(n(&src_c, i, sd).max(n(&src_s, i, sd)));
                for i in &o.interfaces {
                    let want = match (ci.contains(i), si.contains(i)) { (true, false) => Some(Side::Client), (false, true) => Some(Side::Server), _ => None };
                    let arrived = src_c.iter().chain(&src_s).any(|m| m.0 == *i);
                    match want {
                        None => {
                            if arrived { rep.count("premarked.shared_interface.arrived_marked"); }
                            if added(i, Side::Client) + added(i, Side::Server) > 0 { rep.violation("C13 differing class: shared interface marked with a side", d(i)); } else { rep.count("marks.shared_interface_unmarked"); }
                        }
                        Some(w) => {
                            if arrived {
                                let mine = if w == Side::Client { &src_c } else { &src_s };
                                rep.count(&format!("premarked.one_sided_interface.arrived_with_{}", match (n(mine, i, w) > 0, n(mine, i, other(w)) > 0) { (true, true) => "marks_of_both_sides", (true, false) => "a_mark_of_its_side", (false, true) => "a_mark_of_the_other_side", _ => "a_mark_only_on_the_version_that_lacks_it" }));
                            }
                            if added(i, other(w)) > 0 { rep.violation("C13 differing class: one-sided interface marked with the wrong side", d(i)); }
                            else if n(&found, i, w) == 0 { rep.violation("C13 differing class: one-sided interface not marked with its side", d(i)); }
                            else if added(i, w) > 1 { rep.violation("C13 differing class: one-sided interface marked more than once", d(i)); }
                            else { rep.count("marks.one_sided_interface_marked"); }
                        }
                    }
                }
                for m in &found { if !o.interfaces.contains(&m.0) && added(&m.0, m.1) > 0 { rep.violation("C13 differing class: EnvironmentInterfaces names an interface the class does not implement", d(&m.0)); } }
            }
        }
    }

    // ---- fields and methods
    let fkey = |f: &Field| (f.name.clone(), f.desc.clone());
    let mkey = |m: &Method| (m.name.clone(), m.desc.clone());
    let (cf_, sf, of): (Vec<_>, Vec<_>, Vec<_>) = (c.fields.iter().map(fkey).collect(), s.fields.iter().map(fkey).collect(), o.fields.iter().map(fkey).collect());
    let (cm, sm, om): (Vec<_>, Vec<_>, Vec<_>) = (c.methods.iter().map(mkey).collect(), s.methods.iter().map(mkey).collect(), o.methods.iter().map(mkey).collect());
    let (fok, fst) = check_keys(rep, cx, "field", &cf_, &sf, &of, true);
    let (mok, mst) = check_keys(rep, cx, "method", &cm, &sm, &om, true);
    if fok {
        for f in &o.fields {
            let k = fkey(f); let mut f = f.clone();
            let marks = take_marks(&mut f.vis_annotations, &mut f.invis_annotations);
            let (a, b) = (c.fields.iter().find(|x| fkey(x) == k), s.fields.iter().find(|x| fkey(x) == k));
            let ks = format!("{} {}", k.0.show(), k.1.show());
            match (a, b) {
                (Some(a), None) => { let had = source_marks(rep, &a.vis_annotations, &a.invis_annotations); judge_one_sided_marks(rep, cx, "differing class: client-only field", "field", &marks, &had, Side::Client, &ks); report_facts(rep, cx, "client-only field", &wrap_f(&unmarked_f(a)), &wrap_f(&f)); }
                (None, Some(b)) => { let had = source_marks(rep, &b.vis_annotations, &b.invis_annotations); judge_one_sided_marks(rep, cx, "differing class: server-only field", "field", &marks, &had, Side::Server, &ks); report_facts(rep, cx, "server-only field", &wrap_f(&unmarked_f(b)), &wrap_f(&f)); }
                (Some(a), Some(b)) => {
                    let (ha, hb) = (source_marks(rep, &a.vis_annotations, &a.invis_annotations), source_marks(rep, &b.vis_annotations, &b.invis_annotations));
                    judge_shared_marks(rep, cx, "differing class: shared field", "field", &marks, &ha, &hb, &ks);
                    let (a, b) = (unmarked_f(a), unmarked_f(b));
                    if a != b && compare(&wrap_f(&b), &wrap_f(&f)).0.is_empty() { rep.count("shared_member_differs.server_version_taken"); }
                    else { if a != b { rep.count("shared_member_differs.client_version_taken_or_neither"); } report_facts(rep, cx, "shared field", &wrap_f(&a), &wrap_f(&f)); }
                }
                (None, None) => {}
            }
        }
    }
    if mok {
        for m in &o.methods {
            let k = mkey(m); let mut m = m.clone();
            let marks = take_marks(&mut m.vis_annotations, &mut m.invis_annotations);
            let (a, b) = (c.methods.iter().find(|x| mkey(x) == k), s.methods.iter().find(|x| mkey(x) == k));
            let ks = format!("{} {}", k.0.show(), k.1.show());
            match (a, b) {
                (Some(a), None) => { let had = source_marks(rep, &a.vis_annotations, &a.invis_annotations); judge_one_sided_marks(rep, cx, "differing class: client-only method", "method", &marks, &had, Side::Client, &ks); report_facts(rep, cx, "client-only method", &wrap_m(&unmarked_m(a)), &wrap_m(&m)); }
                (None, Some(b)) => { let had = source_marks(rep, &b.vis_annotations, &b.invis_annotations); judge_one_sided_marks(rep, cx, "differing class: server-only method", "method", &marks, &had, Side::Server, &ks); report_facts(rep, cx, "server-only method", &wrap_m(&unmarked_m(b)), &wrap_m(&m)); }
                (Some(a), Some(b)) => {
                    let (ha, hb) = (source_marks(rep, &a.vis_annotations, &a.invis_annotations), source_marks(rep, &b.vis_annotations, &b.invis_annotations));
                    judge_shared_marks(rep, cx, "differing class: shared method", "method", &marks, &ha, &hb, &ks);
                    let (a, b) = (unmarked_m(a), unmarked_m(b));
                    if a != b && compare(&wrap_m(&b), &wrap_m(&m)).0.is_empty() { rep.count("shared_member_differs.server_version_taken"); }
                    else { if a != b { rep.count("shared_member_differs.client_version_taken_or_neither"); } report_facts(rep, cx, "shared method", &wrap_m(&a), &wrap_m(&m)); }
                }
                (None, None) => {}
            }
        }
    }

    // ---- the class itself exists on both sides: this merge must not give it a side mark (marks it arrived with: open)
    let cm_class = { let had = source_marks(rep, &cc.vis_annotations, &cc.invis_annotations); take_marks(&mut cc.vis_annotations, &mut cc.invis_annotations); had };
    let sm_class = { let had = source_marks(rep, &sc.vis_annotations, &sc.invis_annotations); take_marks(&mut sc.vis_annotations, &mut sc.invis_annotations); had };
    let om_class = take_marks(&mut o.vis_annotations, &mut o.invis_annotations);
    judge_shared_marks(rep, cx, "differing class: class present on both sides", "class", &om_class, &cm_class, &sm_class, cx.entry);
    let (c, s) = (&cc, &sc); // from here on: both versions without Environment / EnvironmentInterfaces annotations

    // ---- the rest of the class: every class-level fact on which the two sides agree must be that fact
    // (record components / permitted subclasses are documented TODOs of the merger and outside the statement: counted only)
    if (c.record.is_some() || s.record.is_some()) && o.record.is_none() { rep.count("not_judged.record_components_dropped"); }
    if (c.permitted_subclasses.is_some() || s.permitted_subclasses.is_some()) && o.permitted_subclasses.is_none() { rep.count("not_judged.permitted_subclasses_dropped"); }
    let (mut ev, sv, mut ov) = (serde_value(&class_level(c)), serde_value(&class_level(s)), serde_value(&class_level(&o)));
    if let (Some(e), Some(s2), Some(o2)) = (ev.as_object_mut(), sv.as_object(), ov.as_object_mut()) {
        let differing: Vec<String> = e.iter().filter(|(k, v)| s2.get(*k) != Some(v)).map(|(k, _)| k.clone()).collect();
        for k in differing { e.remove(&k); o2.remove(&k); rep.count("not_judged.class_level_fact_differs_between_sides"); }
    }
    if ev == ov { rep.count("facts.class_level_equal"); }
    else { for x in diff::diff(&ev, &ov, 12) { rep.violation(format!("C13 rewritten class fact {}", x.signature()), cx.detail(json!({"of": "class-level facts of a differing class", "at": x.at, "expected": x.expected, "observed": x.observed}))); } }
    if fok && mok && iok && rep.samples.len() >= 2 && c.fields.len() + c.methods.len() <= 10 && c != s {
        let show = |l: &[(JS, JS)]| l.iter().map(|k| format!("{} {}", k.0.show(), k.1.show())).collect::<Vec<_>>();
        let marked = |vis: &[Annotation], invis: &[Annotation]| { let (mut v, mut i) = (vis.to_vec(), invis.to_vec()); take_marks(&mut v, &mut i).iter().map(|m| format!(" @{m:?}")).collect::<String>() };
        rep.sample(|| json!({"kind": "differing class", "entry": cx.entry,
            "client_fields": show(&cf_), "server_fields": show(&sf), "output_fields": o.fields.iter().map(|f| format!("{} {}{}", f.name.show(), f.desc.show(), marked(&f.vis_annotations, &f.invis_annotations))).collect::<Vec<_>>(),
            "client_methods": show(&cm), "server_methods": show(&sm), "output_methods": o.methods.iter().map(|m| format!("{} {}{}", m.name.show(), m.desc.show(), marked(&m.vis_annotations, &m.invis_annotations))).collect::<Vec<_>>(),
            "client_interfaces": ci.iter().map(|i| i.show()).collect::<Vec<_>>(), "server_interfaces": si.iter().map(|i| i.show()).collect::<Vec<_>>(), "output_interfaces": o.interfaces.iter().map(|i| i.show()).collect::<Vec<_>>(),
            "orders_compatible": {"fields": fst.compatible, "methods": mst.compatible}}));
    }
    Some(DiffStats { fields: fst, methods: mst, interfaces: ist })
}
/// class-level facts as a JSON object; an InnerClasses attribute without entries states nothing and counts as absent
fn serde_value(c: &Class) -> Value { let mut c = c.clone(); project::normalise(&mut c); if c.inner_classes.as_ref().is_some_and(|l| l.is_empty()) { c.inner_classes = None; } serde_json::to_value(&c).unwrap_or(Value::Null) }

pub fn hex(b: &[u8]) -> String { cf::model::hex(b) }
