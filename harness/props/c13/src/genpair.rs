//! Workload: client/server jar pairs. The two sides of a "differing" class are derived from ONE generated model by
//! dropping / keeping / reordering fields, methods and interfaces per side (shapes: interleaving, prefix, suffix,
//! middle, permutation, disjoint, ...), so the expectation is known by construction of the input, not by running any merge.
use crate::jar::{Body, RawEntry};
use crate::oracle::{Side, ENV, ENV_ITF, ENV_ITFS, ENV_TYPE};
use cf::{emit, gen::{self, GenCfg, G}, model::*, parse};
use common::Rng;
use std::collections::HashSet;

#[derive(Clone)]
pub struct ClassSide { pub model: Class, pub bytes: Vec<u8> }
#[derive(Clone)]
pub enum Item { Dir, Res(Vec<u8>), Class(ClassSide) }
#[derive(Clone)]
pub struct Entry { pub name: String, pub item: Item, pub deflate: bool }
#[derive(Clone, Default)]
pub struct JarSpec { pub entries: Vec<Entry> }
impl JarSpec {
    pub fn raw(&self) -> Vec<RawEntry> {
        self.entries.iter().map(|e| RawEntry { name: e.name.clone(), deflate: e.deflate, body: match &e.item { Item::Dir => Body::Dir, Item::Res(d) => Body::File(d.clone()), Item::Class(c) => Body::File(c.bytes.clone()) } }).collect()
    }
    pub fn get(&self, name: &str) -> Option<&Entry> { self.entries.iter().find(|e| e.name == name) }
}
pub struct Pair { pub client: JarSpec, pub server: JarSpec }

#[derive(Clone, Copy, Debug, PartialEq, Eq)]
pub enum Shape { Interleave, Prefix, Suffix, Middle, Permutation, Disjoint, InterleaveShuffled, AllShared, OneSidedMoved, SwapTwoShared }
pub const SHAPES: [Shape; 10] = [Shape::Interleave, Shape::Prefix, Shape::Suffix, Shape::Middle, Shape::Permutation, Shape::Disjoint, Shape::InterleaveShuffled, Shape::AllShared, Shape::OneSidedMoved, Shape::SwapTwoShared];

/// the client's and the server's list, derived from one base list
pub fn split<T: Clone>(rng: &mut Rng, items: &[T], shape: Shape) -> (Vec<T>, Vec<T>) {
    let n = items.len();
    // role: 0 both, 1 client only, 2 server only
    let roles = |rng: &mut Rng, shared_ok: bool| -> Vec<u8> { (0..n).map(|_| if shared_ok { match rng.below(4) { 0 | 1 => 0, 2 => 1, _ => 2 } } else { 1 + rng.below(2) as u8 }).collect() };
    let by_roles = |r: &[u8]| -> (Vec<T>, Vec<T>) {
        (items.iter().zip(r).filter(|(_, r)| **r != 2).map(|(x, _)| x.clone()).collect(), items.iter().zip(r).filter(|(_, r)| **r != 1).map(|(x, _)| x.clone()).collect())
    };
    let maybe_swap = |rng: &mut Rng, a: Vec<T>, b: Vec<T>| if rng.bool() { (a, b) } else { (b, a) };
    match shape {
        Shape::Interleave => { let r = roles(rng, true); by_roles(&r) }
        Shape::Disjoint => { let r = roles(rng, false); by_roles(&r) }
        Shape::AllShared => (items.to_vec(), items.to_vec()),
        Shape::Prefix => { let k = rng.below(n + 1); maybe_swap(rng, items[..k].to_vec(), items.to_vec()) }
        Shape::Suffix => { let k = rng.below(n + 1); maybe_swap(rng, items[k..].to_vec(), items.to_vec()) }
        Shape::Middle => { let a = rng.below(n + 1); let b = rng.usize_in(a, n); maybe_swap(rng, items[a..b].to_vec(), items.to_vec()) }
        Shape::Permutation => { let mut p = items.to_vec(); rng.shuffle(&mut p); maybe_swap(rng, items.to_vec(), p) }
        Shape::InterleaveShuffled => { let r = roles(rng, true); let (a, mut b) = by_roles(&r); rng.shuffle(&mut b); maybe_swap(rng, a, b) }
        Shape::OneSidedMoved => {
            // shared elements keep the base order on both sides; the one-sided ones are put anywhere: always compatible
            let r = roles(rng, true);
            let shared: Vec<T> = items.iter().zip(&r).filter(|(_, r)| **r == 0).map(|(x, _)| x.clone()).collect();
            let mut out = vec![];
            for want in [1u8, 2u8] { let mut l = shared.clone(); for (x, _) in items.iter().zip(&r).filter(|(_, r)| **r == want) { let at = rng.below(l.len() + 1); l.insert(at, x.clone()); } out.push(l); }
            let b = out.pop().unwrap_or_default(); let a = out.pop().unwrap_or_default();
            (a, b)
        }
        Shape::SwapTwoShared => {
            let r = roles(rng, true);
            let (a, mut b) = by_roles(&r);
            let shared_at: Vec<usize> = items.iter().zip(&r).filter(|(_, r)| **r != 1).enumerate().filter(|(_, (_, r))| **r == 0).map(|(i, _)| i).collect();
            if shared_at.len() >= 2 { let i = rng.below(shared_at.len()); let mut j = rng.below(shared_at.len() - 1); if j >= i { j += 1; } b.swap(shared_at[i], shared_at[j]); }
            maybe_swap(rng, a, b)
        }
    }
}

/// unique (name, descriptor) keys and unique interfaces: a class file may not declare the same member twice (JVMS 4.5, 4.6)
pub fn make_keys_unique(c: &mut Class) {
    let mut seen = HashSet::new();
    for (i, f) in c.fields.iter_mut().enumerate() { if !seen.insert((f.name.clone(), f.desc.clone())) { f.name.0.extend(format!("_{i}").bytes()); seen.insert((f.name.clone(), f.desc.clone())); } }
    let mut seen = HashSet::new();
    for (i, m) in c.methods.iter_mut().enumerate() {
        if !seen.insert((m.name.clone(), m.desc.clone())) {
            if m.name.0.first() == Some(&b'<') { m.name = JS::new(&format!("m_{i}")); } else { m.name.0.extend(format!("_{i}").bytes()); }
            seen.insert((m.name.clone(), m.desc.clone()));
        }
    }
    let mut seen = HashSet::new();
    c.interfaces.retain(|i| seen.insert(i.clone()));
    // one InnerClasses entry per inner class (JVMS 4.7.6)
    let mut seen = HashSet::new();
    if let Some(l) = &mut c.inner_classes { l.retain(|i| seen.insert(i.inner.clone())); }
}


pub fn env_mark(side: Side) -> Annotation { Annotation { type_: JS(ENV.to_vec()), pairs: vec![(JS::new("value"), ElementValue::Enum(JS(ENV_TYPE.to_vec()), JS(side.constant().to_vec())))] } }
pub fn itf_mark(items: &[(JS, Side)]) -> Annotation {
    let items = items.iter().map(|(itf, side)| {
        let mut d = vec![b'L']; d.extend(&itf.0); d.push(b';');
        ElementValue::Annotation(Annotation { type_: JS(ENV_ITF.to_vec()), pairs: vec![(JS::new("value"), ElementValue::Enum(JS(ENV_TYPE.to_vec()), JS(side.constant().to_vec()))), (JS::new("itf"), ElementValue::Class(JS(d)))] })
    }).collect();
    Annotation { type_: JS(ENV_ITFS.to_vec()), pairs: vec![(JS::new("value"), ElementValue::Array(items))] }
}
fn any_side(rng: &mut Rng) -> Side { if rng.bool() { Side::Client } else { Side::Server } }
fn flip(s: Side) -> Side { match s { Side::Client => Side::Server, Side::Server => Side::Client } }
/// one mark (sometimes marks of both sides) in the visible or the invisible list
fn push_marks(rng: &mut Rng, vis: &mut Vec<Annotation>, invis: &mut Vec<Annotation>, visible_likely: bool) {
    let side = any_side(rng);
    let visible = if visible_likely { !rng.chance(1, 4) } else { rng.chance(1, 4) };
    if visible { vis.push(env_mark(side)); } else { invis.push(env_mark(side)); }
    if rng.chance(1, 6) { if rng.bool() { vis.push(env_mark(flip(side))); } else { invis.push(env_mark(flip(side))); } }
}
/// makes `c` look like a class that went through a merge before (or was annotated by hand): side marks on the class,
/// on some members (1 in `dens`) and on some interfaces — for either side, in either annotation list
pub fn premark_class(rng: &mut Rng, c: &mut Class, dens: u32) {
    if rng.bool() { push_marks(rng, &mut c.vis_annotations, &mut c.invis_annotations, true); }
    for f in &mut c.fields { if rng.chance(1, dens) { push_marks(rng, &mut f.vis_annotations, &mut f.invis_annotations, false); } }
    for m in &mut c.methods { if rng.chance(1, dens) { push_marks(rng, &mut m.vis_annotations, &mut m.invis_annotations, false); } }
    if !c.interfaces.is_empty() && rng.bool() {
        let mut items: Vec<(JS, Side)> = vec![];
        for i in &c.interfaces { if rng.bool() { items.push((i.clone(), any_side(rng))); } }
        if !items.is_empty() { if rng.chance(1, 4) { c.vis_annotations.push(itf_mark(&items)); } else { c.invis_annotations.push(itf_mark(&items)); } }
    }
}

pub fn gen_cfg() -> GenCfg { GenCfg { max_fields: 5, max_methods: 6, max_insns: 25, modules: false, ..Default::default() } }

/// a generated class (whole format) named `name`, with its member lists topped up to the wanted lengths
pub fn rich_class(rng: &mut Rng, cfg: &GenCfg, name: &str, nf: usize, nm: usize, ni: usize) -> Class {
    let mut c = gen::gen_class(rng, cfg);
    c.this_class = JS::new(name);
    let major = c.major;
    let mut g = G { rng, cfg, major };
    while c.fields.len() < nf { let f = g.field(); c.fields.push(f); }
    while c.methods.len() < nm { let m = g.method(); c.methods.push(m); }
    while c.interfaces.len() < ni { let i = g.class_name(); c.interfaces.push(i); }
    make_keys_unique(&mut c);
    c
}
/// a plain class: attribute-free members, so that long member lists stay cheap
pub fn simple_class(rng: &mut Rng, name: &str, nf: usize, nm: usize, ni: usize) -> Class {
    let descs = ["I", "J", "Ljava/lang/String;", "[B", "Z"];
    let mut c = Class { major: *rng.pick(&[49u16, 52, 61]), minor: 0, access: 0x0021, this_class: JS::new(name), super_class: Some(JS::new("java/lang/Object")), ..Default::default() };
    for i in 0..nf { c.fields.push(Field { access: *rng.pick(&[0x0001u16, 0x0002, 0x0019, 0x0000]), name: JS::new(&if i < 35 { format!("f{}", i % 7) } else { format!("f{}_{}", i % 7, i / 35) }), desc: JS::new(descs[(i / 7) % descs.len()]), ..Default::default() }); }
    for i in 0..nm {
        let mut m = Method { access: 0x0401, name: JS::new(&if i < 25 { format!("m{}", i % 5) } else { format!("m{}_{}", i % 5, i / 25) }), desc: JS::new(&format!("({})V", descs[(i / 5) % descs.len()])), ..Default::default() };
        if rng.chance(1, 3) { m.access = 0x0001; m.code = Some(Code { max_stack: 1, max_locals: 3, insns: vec![Insn::Op(177)], ..Default::default() }); }
        c.methods.push(m);
    }
    for i in 0..ni { c.interfaces.push(JS::new(&format!("x/I{i}"))); }
    c
}

pub struct Derived { pub client: Class, pub server: Class }

/// the two sides of one class: same header and class-level attributes, member lists split by the three shapes
pub fn derive_sides(rng: &mut Rng, base: &Class, shapes: [Shape; 3], tweak_shared: bool) -> Derived {
    let (cf_, sf) = split(rng, &base.fields, shapes[0]);
    let (cm, mut sm) = split(rng, &base.methods, shapes[1]);
    let (ci, si) = split(rng, &base.interfaces, shapes[2]);
    let mut sf = sf;
    if tweak_shared {
        // one shared member whose two versions differ in something the statement does not assign to a side (not Deprecated/Synthetic)
        let shared_m: Vec<usize> = sm.iter().enumerate().filter(|(_, m)| cm.iter().any(|x| x.name == m.name && x.desc == m.desc)).map(|(i, _)| i).collect();
        let shared_f: Vec<usize> = sf.iter().enumerate().filter(|(_, f)| cf_.iter().any(|x| x.name == f.name && x.desc == f.desc)).map(|(i, _)| i).collect();
        if !shared_m.is_empty() && (shared_f.is_empty() || rng.bool()) {
            let m = &mut sm[*rng.pick(&shared_m)];
            match &mut m.code { Some(code) if rng.bool() => code.max_stack ^= 1, _ => m.access ^= 0x0010 }
        } else if !shared_f.is_empty() { let f = &mut sf[*rng.pick(&shared_f)]; f.access ^= 0x0010; }
    }
    let mut client = base.clone(); client.fields = cf_; client.methods = cm; client.interfaces = ci;
    let mut server = base.clone(); server.fields = sf; server.methods = sm; server.interfaces = si;
    Derived { client, server }
}

/// bytes of a model under a layout; self-check: the independent parser reads back exactly the model
pub fn emit_checked(m: &Class, layout: &emit::Layout) -> Result<Vec<u8>, String> {
    let b = emit::emit(m, layout)?;
    match parse::parse(&b) {
        Ok(p) if p == *m => Ok(b),
        Ok(p) => { eprintln!("HARNESS-ERROR parse(emit(M)) != M: {:?}", cf::diff::diff(m, &p, 3)); std::process::exit(3) }
        Err(e) => { eprintln!("HARNESS-ERROR parse(emit(M)) failed: {e}"); std::process::exit(3) }
    }
}
fn layout(rng: &mut Rng) -> emit::Layout { if rng.bool() { emit::Layout::canonical() } else { emit::Layout::random(rng.next_u64()) } }

#[derive(Clone, Copy, Debug, PartialEq, Eq)]
pub enum Cat { ClientOnly, ServerOnly, Identical, Differing, SameFactsOtherBytes }
#[derive(Clone, Copy, Debug, PartialEq, Eq)]
pub enum Place { Minecraft, Root, Library }

const SIMPLE: [&str; 14] = ["a", "b", "Foo", "Main", "C_12", "Ünï", "名", "Foo$Bar", "Foo$1", "MinecraftServer", "aa", "zz", "package-info", "L"];
const MC_PKG: [&str; 4] = ["net/minecraft/", "net/minecraft/server/", "net/minecraft/client/gui/", "net/minecraft/util/math/"];
const LIB_PKG: [&str; 10] = ["com/google/common/base/", "org/apache/logging/log4j/", "io/netty/buffer/", "com/mojang/authlib/", "net/", "net/minecraftx/", "net/minecraft_server/", "x/", "it/unimi/dsi/fastutil/", "net/minecraftforge/fml/"];

pub fn class_entry_name(rng: &mut Rng, used: &mut HashSet<String>, place: Place) -> String {
    loop {
        let pkg = match place { Place::Minecraft => *rng.pick(&MC_PKG), Place::Root => "", Place::Library => *rng.pick(&LIB_PKG) };
        let mut s = format!("{pkg}{}", rng.pick(&SIMPLE));
        if used.contains(&s) || rng.chance(1, 3) { s.push_str(&format!("{}", rng.below(1000))); }
        if used.insert(s.clone()) { return s; }
    }
}

#[derive(Clone, Debug)]
pub struct PairCfg {
    pub classes: (usize, usize),
    pub resources: (usize, usize),
    /// resources that exist on both sides with different content (the merger prints a warning per such entry)
    pub differing_resources: bool,
    pub simple_classes: bool,
    pub list_max: usize,
    /// 1 in `premark` classes arrive already carrying Environment / EnvironmentInterfaces annotations (0 = none)
    pub premark: u32,
}

fn res_bytes(rng: &mut Rng) -> Vec<u8> {
    match rng.below(4) { 0 => vec![], 1 => b"{\"pack\":{\"pack_format\":4}}\n".to_vec(), _ => { let n = rng.small(300); (0..n).map(|_| rng.next_u32() as u8).collect() } }
}

const RESOURCES: [&str; 14] = ["pack.png", "log4j2.xml", "version.json", "assets/minecraft/lang/en_us.json", "assets/minecraft/textures/block/dirt.png", "data/minecraft/tags/blocks/logs.json",
    "META-INF/services/com.example.Service", "META-INF/maven/com.google.guava/guava/pom.properties", "com/google/common/base/messages.properties", "org/apache/logging/log4j/core/Log4j-config.xsd",
    "data/keys.SF", "assets/cert.RSA", "net/minecraft/server/Foo.class.txt", "flightrecorder-config.jfc"];
const SIGNATURES: [&str; 9] = ["META-INF/MOJANGCS.SF", "META-INF/MOJANGCS.RSA", "META-INF/OLDKEY.DSA", "META-INF/CURVE.EC", "META-INF/CODESIGN.SF", "META-INF/sub/NESTED.SF", "META-INF/lower.sf", "META-INF/SIG-EXTRA", "META-INF/lower.rsa"];
const DIRS: [&str; 8] = ["META-INF/", "net/", "net/minecraft/", "assets/", "assets/minecraft/", "com/", "com/google/", "data/"];

pub struct Planned { pub pair: Pair, pub cats: Vec<(String, Cat, Option<[Shape; 3]>)>, pub emit_failures: u32, /// entries of more than 32 KiB of incompressible bytes (classes with a big opaque attribute, resources)
    pub big_entries: u32 }

/// 36..150 KiB of pseudo-random (incompressible) bytes: a Deflate-compressed zip entry of that content is longer than the
/// 32 KiB window / the buffers of the readers in between, so that one `read` call does not deliver it
fn big_blob(rng: &mut Rng) -> Vec<u8> { let n = rng.usize_in(36 * 1024, 150 * 1024); let mut v = Vec::with_capacity(n + 8); while v.len() < n { v.extend_from_slice(&rng.next_u64().to_le_bytes()); } v.truncate(n); v }

pub fn gen_pair(rng: &mut Rng, pc: &PairCfg) -> Planned {
    let cfg = gen_cfg();
    let (mut client, mut server) = (JarSpec::default(), JarSpec::default());
    let mut used = HashSet::new();
    let mut cats = vec![]; let mut emit_failures = 0; let mut big_entries = 0u32;
    let n_classes = rng.usize_in(pc.classes.0, pc.classes.1);
    for _ in 0..n_classes {
        let cat = match rng.below(12) { 0 | 1 => Cat::ClientOnly, 2 | 3 => Cat::ServerOnly, 4 | 5 => Cat::Identical, 6 => Cat::SameFactsOtherBytes, _ => Cat::Differing };
        let place = match rng.below(10) { 0..=4 => Place::Minecraft, 5 | 6 => Place::Root, _ => Place::Library };
        let stem = class_entry_name(rng, &mut used, place);
        let name = format!("{stem}.class");
        let lens = |rng: &mut Rng| if rng.chance(1, 8) { 0 } else { rng.usize_in(0, pc.list_max) };
        let (nf, nm, ni) = (lens(rng), lens(rng), if rng.bool() { 0 } else { rng.usize_in(0, pc.list_max.min(5)) });
        let mut base = if pc.simple_classes && !rng.chance(1, 5) { simple_class(rng, &stem, nf, nm, ni) } else { rich_class(rng, &cfg, &stem, nf, nm, ni) };
        // one class in 50 carries a big opaque (unknown) attribute: the class file is > 32 KiB and does not compress
        if rng.chance(1, 50) { let blob = big_blob(rng); base.unknown.push((cf::model::JS::new("org.example.Blob"), cf::model::Bytes(blob))); big_entries += 1; }
        let premarked = pc.premark > 0 && rng.chance(1, pc.premark);
        if premarked { premark_class(rng, &mut base, 3); }
        let push = |jar: &mut JarSpec, rng: &mut Rng, model: &Class, bytes: Vec<u8>| jar.entries.push(Entry { name: name.clone(), item: Item::Class(ClassSide { model: model.clone(), bytes }), deflate: rng.bool() });
        let mut shapes = None;
        let r: Result<(), String> = (|| {
            match cat {
                Cat::ClientOnly => { let b = emit_checked(&base, &layout(rng))?; push(&mut client, rng, &base, b); }
                Cat::ServerOnly => { let b = emit_checked(&base, &layout(rng))?; push(&mut server, rng, &base, b); }
                Cat::Identical => { let b = emit_checked(&base, &layout(rng))?; push(&mut client, rng, &base, b.clone()); push(&mut server, rng, &base, b); }
                Cat::SameFactsOtherBytes => {
                    let a = emit_checked(&base, &emit::Layout::canonical())?; let mut l = emit::Layout::random(rng.next_u64()); l.pool_filler = 1 + rng.below(4);
                    let b = emit_checked(&base, &l)?;
                    push(&mut client, rng, &base, a); push(&mut server, rng, &base, b);
                }
                Cat::Differing => {
                    let sh = [*rng.pick(&SHAPES), *rng.pick(&SHAPES), *rng.pick(&SHAPES)];
                    let tweak = rng.chance(1, 5);
                    let mut d = derive_sides(rng, &base, sh, tweak);
                    // marks that only ONE version carries (shared members then arrive marked on one side / differently)
                    if premarked && rng.bool() { let side = if rng.bool() { &mut d.client } else { &mut d.server }; premark_class(rng, side, 4); }
                    let (a, b) = (emit_checked(&d.client, &layout(rng))?, emit_checked(&d.server, &layout(rng))?);
                    push(&mut client, rng, &d.client, a); push(&mut server, rng, &d.server, b);
                    shapes = Some(sh);
                }
            }
            Ok(())
        })();
        match r { Ok(()) => cats.push((name.clone(), cat, shapes)), Err(_) => { emit_failures += 1; client.entries.retain(|e| e.name != name); server.entries.retain(|e| e.name != name); } }
    }
    // resources
    let n_res = rng.usize_in(pc.resources.0, pc.resources.1);
    let mut names: Vec<&str> = RESOURCES.to_vec(); rng.shuffle(&mut names);
    for name in names.into_iter().take(n_res) {
        let data = if rng.chance(1, 30) { big_entries += 1; big_blob(rng) } else { res_bytes(rng) };
        let mode = rng.below(if pc.differing_resources { 5 } else { 3 });
        let e = |d: Vec<u8>, rng: &mut Rng| Entry { name: name.to_string(), item: Item::Res(d), deflate: rng.bool() };
        match mode {
            0 => client.entries.push(e(data, rng)),
            1 => server.entries.push(e(data, rng)),
            2 => { client.entries.push(e(data.clone(), rng)); server.entries.push(e(data, rng)); }
            _ => { let mut other = data.clone(); other.push(b'!'); if rng.bool() { other.clear(); other.extend_from_slice(b"other"); } client.entries.push(e(data, rng)); server.entries.push(e(other, rng)); }
        }
    }
    // META-INF content
    match rng.below(5) {
        0 => {}
        1 => client.entries.push(Entry { name: "META-INF/MANIFEST.MF".into(), item: Item::Res(b"Manifest-Version: 1.0\r\nMain-Class: net.minecraft.client.main.Main\r\n\r\n".to_vec()), deflate: true }),
        2 => server.entries.push(Entry { name: "META-INF/MANIFEST.MF".into(), item: Item::Res(b"Manifest-Version: 1.0\r\nMain-Class: net.minecraft.server.MinecraftServer\r\n\r\n".to_vec()), deflate: true }),
        _ => {
            client.entries.push(Entry { name: "META-INF/MANIFEST.MF".into(), item: Item::Res(b"Manifest-Version: 1.0\r\nMain-Class: net.minecraft.client.main.Main\r\n\r\nName: a.class\r\nSHA-256-Digest: AAAA\r\n\r\n".to_vec()), deflate: true });
            server.entries.push(Entry { name: "META-INF/MANIFEST.MF".into(), item: Item::Res(b"Manifest-Version: 1.0\r\nMain-Class: net.minecraft.server.MinecraftServer\r\n\r\n".to_vec()), deflate: false });
        }
    }
    for name in SIGNATURES {
        if !rng.chance(1, 3) { continue; }
        let data = res_bytes(rng);
        let e = |d: Vec<u8>| Entry { name: name.to_string(), item: Item::Res(d), deflate: false };
        match rng.below(3) { 0 => client.entries.push(e(data)), 1 => server.entries.push(e(data)), _ => { client.entries.push(e(data.clone())); server.entries.push(e(data)); } }
    }
    for name in DIRS {
        if !rng.chance(1, 4) { continue; }
        let e = || Entry { name: name.to_string(), item: Item::Dir, deflate: false };
        match rng.below(3) { 0 => client.entries.push(e()), 1 => server.entries.push(e()), _ => { client.entries.push(e()); server.entries.push(e()); } }
    }
    rng.shuffle(&mut client.entries); rng.shuffle(&mut server.entries);
    Planned { pair: Pair { client, server }, cats, emit_failures, big_entries }
}
