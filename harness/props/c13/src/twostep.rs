//! Two-step merges: m1 = merge(c1, s1) is judged as usual and then used as an INPUT of a second merge, in either position
//! (merge(x, m1) / merge(m1, x)). The partner jar x is built from what the first merge produced: verbatim copies of some of
//! m1's classes (identical), variants of others (members dropped / added / reordered, the marks of the first merge kept,
//! stripped or flipped), classes only x has. For the second merge m1 is simply an input whose classes already carry side
//! marks; its models are read with the harness' parser, so the expectation again comes from the inputs alone.
use crate::genpair::*;
use crate::oracle::{take_marks, Mark, Side};
use crate::{jar, judge_pair, report_outcome_failure, JarKind};
use cf::{emit, model::*, parse};
use common::*;
use dukebox::storage::{NamedMemJar, UnnamedMemJar};
use std::collections::HashSet;

fn spec_from_zip(z: &[u8]) -> Option<JarSpec> {
    let mut spec = JarSpec::default();
    for (name, body) in jar::read_all(z).ok()? {
        let item = match body {
            jar::Body::Dir => Item::Dir,
            jar::Body::File(d) if name.ends_with(".class") => Item::Class(ClassSide { model: parse::parse(&d).ok()?, bytes: d }),
            jar::Body::File(d) => Item::Res(d),
        };
        spec.entries.push(Entry { name, item, deflate: true });
    }
    Some(spec)
}

fn variant_list<T: Clone>(rng: &mut Rng, items: &[T], mut fresh: impl FnMut(usize) -> T) -> Vec<T> {
    let mut out: Vec<T> = vec![];
    for x in items { if !rng.chance(1, 4) { out.push(x.clone()); } }
    for i in 0..rng.below(3) { let at = rng.below(out.len() + 1); out.insert(at, fresh(i)); }
    if rng.chance(1, 6) { rng.shuffle(&mut out); }
    out
}
/// what happens to the marks an element got in the first merge: kept, stripped, or flipped to the other side
fn remark(rng: &mut Rng, vis: &mut Vec<Annotation>, invis: &mut Vec<Annotation>) {
    let had = { let (mut v, mut i) = (vis.clone(), invis.clone()); take_marks(&mut v, &mut i) };
    if had.is_empty() { if rng.chance(1, 8) { invis.push(env_mark(if rng.bool() { Side::Client } else { Side::Server })); } return; }
    match rng.below(4) {
        0 => { take_marks(vis, invis); }
        1 => { take_marks(vis, invis); for m in had { if let Mark::Side(s) = m { invis.push(env_mark(if s == Side::Client { Side::Server } else { Side::Client })); } } }
        _ => {}
    }
}
/// the partner's version of a class of m1
fn variant_class(rng: &mut Rng, m: &Class) -> Class {
    let mut v = m.clone();
    v.fields = variant_list(rng, &m.fields, |i| Field { access: 0x0002, name: JS::new(&format!("x2f{i}")), desc: JS::new("J"), ..Default::default() });
    v.methods = variant_list(rng, &m.methods, |i| Method { access: 0x0401, name: JS::new(&format!("x2m{i}")), desc: JS::new("()V"), ..Default::default() });
    v.interfaces = variant_list(rng, &m.interfaces, |i| JS::new(&format!("x2/I{i}")));
    for f in &mut v.fields { remark(rng, &mut f.vis_annotations, &mut f.invis_annotations); }
    for x in &mut v.methods { remark(rng, &mut x.vis_annotations, &mut x.invis_annotations); }
    remark(rng, &mut v.vis_annotations, &mut v.invis_annotations);
    if rng.chance(1, 3) { crate::oracle::take_itf_marks(&mut v.vis_annotations, &mut v.invis_annotations); }
    make_keys_unique(&mut v);
    v
}
fn emit_soft(m: &Class) -> Option<Vec<u8>> { let b = emit::emit(m, &emit::Layout::canonical()).ok()?; if parse::parse(&b).ok()? == *m { Some(b) } else { None } }

fn gen_partner(rng: &mut Rng, rep: &mut Report, m1: &JarSpec) -> JarSpec {
    let mut x = JarSpec::default();
    let mut used: HashSet<String> = m1.entries.iter().map(|e| e.name.trim_end_matches(".class").to_string()).collect();
    for e in &m1.entries {
        match &e.item {
            Item::Dir => if rng.bool() { x.entries.push(e.clone()); },
            Item::Res(_) => if !rng.chance(1, 3) { x.entries.push(e.clone()); },
            Item::Class(c) => match rng.below(6) {
                0 => {}
                1 | 2 => x.entries.push(e.clone()),
                _ => { let v = variant_class(rng, &c.model); match emit_soft(&v) { Some(b) => x.entries.push(Entry { name: e.name.clone(), item: Item::Class(ClassSide { model: v, bytes: b }), deflate: rng.bool() }), None => rep.count("twostep.variant_not_re-emittable(skipped)") } }
            },
        }
    }
    let cfg = gen_cfg();
    for _ in 0..rng.usize_in(0, 2) {
        let place = match rng.below(3) { 0 => Place::Root, 1 => Place::Library, _ => Place::Minecraft };
        let stem = class_entry_name(rng, &mut used, place);
        let mut c = if rng.chance(1, 4) { rich_class(rng, &cfg, &stem, 3, 3, 2) } else { simple_class(rng, &stem, 4, 4, 2) };
        if rng.bool() { premark_class(rng, &mut c, 3); }
        if let Some(b) = emit_soft(&c) { x.entries.push(Entry { name: format!("{stem}.class"), item: Item::Class(ClassSide { model: c, bytes: b }), deflate: rng.bool() }); }
    }
    if rng.bool() { x.entries.push(Entry { name: "only/in/partner.txt".into(), item: Item::Res(b"partner".to_vec()), deflate: false }); }
    rng.shuffle(&mut x.entries);
    x
}

pub fn twostep_case(rng: &mut Rng, rep: &mut Report, _case: u64) {
    let pc = PairCfg { classes: (2, 6), resources: (0, 3), differing_resources: false, simple_classes: true, list_max: 6, premark: 4 };
    let planned = gen_pair(rng, &pc);
    let p1 = &planned.pair;
    let (Ok(cz), Ok(sz)) = (jar::build_zip(&p1.client.raw()), jar::build_zip(&p1.server.raw())) else { eprintln!("HARNESS-ERROR cannot build input jar"); std::process::exit(3) };
    let first = || dukebox::merge::merge(NamedMemJar { name: "c1".into(), data: cz.clone() }, NamedMemJar { name: "s1".into(), data: sz.clone() });
    let out1 = guard(|| first().and_then(|p| p.to_mem()).map(|m| m.data).map_err(|e| format!("{e:#}")));
    rep.eval(); rep.count("twostep.first_merges");
    if report_outcome_failure(rep, &out1, p1, JarKind::NamedMem) { return; }
    let Ok(Ok(z1)) = out1 else { return };
    let before = rep.violations.values().map(|v| v.count).sum::<u64>();
    judge_pair(rep, p1, &z1, JarKind::NamedMem);
    // a first output that is already wrong is reported above; it is no well-formed input for a second merge
    if rep.violations.values().map(|v| v.count).sum::<u64>() != before { rep.count("twostep.first_output_wrong(second merge skipped)"); return; }
    let Some(m1) = spec_from_zip(&z1) else { rep.count("twostep.first_output_not_readable(second merge skipped)"); return };
    let x = gen_partner(rng, rep, &m1);
    let Ok(xz) = jar::build_zip(&x.raw()) else { eprintln!("HARNESS-ERROR cannot build partner jar"); std::process::exit(3) };
    let m1_is_server = rng.bool();
    let how = rng.below(3);
    let fin = |r: anyhow::Result<dukebox::storage::ParsedJar<dukebox::storage::ClassRepr, Vec<u8>>>| r.and_then(|p| p.to_mem()).map(|m| m.data).map_err(|e| format!("{e:#}"));
    let xj = || NamedMemJar { name: "x".into(), data: xz.clone() };
    let out2 = match (how, m1_is_server) {
        // the ParsedJar object the first merge returns, handed straight to the second merge (the first merge is repeated to get it)
        (0, true) => guard(|| fin(first().and_then(|m| dukebox::merge::merge(xj(), m)))),
        (0, false) => guard(|| fin(first().and_then(|m| dukebox::merge::merge(m, xj())))),
        (1, true) => guard(|| fin(dukebox::merge::merge(xj(), NamedMemJar { name: "m1".into(), data: z1.clone() }))),
        (1, false) => guard(|| fin(dukebox::merge::merge(NamedMemJar { name: "m1".into(), data: z1.clone() }, xj()))),
        (_, true) => guard(|| fin(dukebox::merge::merge(UnnamedMemJar { data: xz.clone() }, UnnamedMemJar { data: z1.clone() }))),
        (_, false) => guard(|| fin(dukebox::merge::merge(UnnamedMemJar { data: z1.clone() }, UnnamedMemJar { data: xz.clone() }))),
    };
    let kind = match how { 0 => JarKind::NamedAndParsed, 1 => JarKind::NamedMem, _ => JarKind::UnnamedMem };
    let p2 = if m1_is_server { Pair { client: x, server: m1 } } else { Pair { client: m1, server: x } };
    rep.eval();
    rep.count(if m1_is_server { "twostep.second_merges.merged_jar_as_server" } else { "twostep.second_merges.merged_jar_as_client" });
    if how == 0 { rep.count("twostep.second_merges.merged_jar_handed_over_as_the_ParsedJar_object"); }
    if report_outcome_failure(rep, &out2, &p2, kind) { return; }
    let Ok(Ok(z2)) = out2 else { return };
    let (parts, nontrivial) = judge_pair(rep, &p2, &z2, kind);
    if nontrivial { rep.nontrivial(rng::fnv_str(&format!("2|{}|{}", m1_is_server, parts.join("|")))); }
}
