//! Jar side of the harness: a builder for input jars (zip crate, explicit options), an INDEPENDENT scan of the
//! central directory (so that a duplicated entry name cannot hide behind a name-keyed map), and content access.
use std::io::{Cursor, Read, Write};

#[derive(Clone, Debug, PartialEq, Eq)]
pub enum Body { Dir, File(Vec<u8>) }

#[derive(Clone, Debug)]
pub struct RawEntry { pub name: String, pub body: Body, pub deflate: bool }

/// writes the entries in the given order; directory names end with '/'
pub fn build_zip(entries: &[RawEntry]) -> Result<Vec<u8>, String> {
    let mut w = zip::ZipWriter::new(Cursor::new(Vec::new()));
    let time = zip::DateTime::from_date_and_time(2011, 11, 18, 12, 0, 0).map_err(|e| format!("{e:?}"))?;
    for e in entries {
        let opt = zip::write::SimpleFileOptions::default()
            .compression_method(if e.deflate { zip::CompressionMethod::Deflated } else { zip::CompressionMethod::Stored })
            .last_modified_time(time);
        match &e.body {
            Body::Dir => w.add_directory(e.name.trim_end_matches('/').to_string(), opt).map_err(|x| format!("add_directory {:?}: {x}", e.name))?,
            Body::File(data) => {
                w.start_file(e.name.clone(), opt).map_err(|x| format!("start_file {:?}: {x}", e.name))?;
                w.write_all(data).map_err(|x| format!("write {:?}: {x}", e.name))?;
            }
        }
    }
    Ok(w.finish().map_err(|x| format!("finish: {x}"))?.into_inner())
}

fn u16le(b: &[u8], at: usize) -> Option<usize> { Some(u16::from_le_bytes([*b.get(at)?, *b.get(at + 1)?]) as usize) }
fn u32le(b: &[u8], at: usize) -> Option<usize> { Some(u32::from_le_bytes([*b.get(at)?, *b.get(at + 1)?, *b.get(at + 2)?, *b.get(at + 3)?]) as usize) }

/// names of ALL central-directory records, in directory order, duplicates included (no zip64: the jars here are small)
pub fn central_names(zip: &[u8]) -> Result<Vec<String>, String> {
    if zip.len() < 22 { return Err("shorter than an end-of-central-directory record".into()); }
    let mut eocd = None;
    let mut i = zip.len() - 22;
    loop {
        if zip[i..i + 4] == [0x50, 0x4b, 0x05, 0x06] { eocd = Some(i); break; }
        if i == 0 || zip.len() - i > 22 + 65535 { break; }
        i -= 1;
    }
    let eocd = eocd.ok_or("no end-of-central-directory record")?;
    let total = u16le(zip, eocd + 10).ok_or("eocd truncated")?;
    let mut at = u32le(zip, eocd + 16).ok_or("eocd truncated")?;
    let mut names = Vec::with_capacity(total);
    for _ in 0..total {
        if zip.get(at..at + 4) != Some(&[0x50, 0x4b, 0x01, 0x02]) { return Err(format!("no central header at offset {at}")); }
        let (n, x, c) = (u16le(zip, at + 28).ok_or("cd truncated")?, u16le(zip, at + 30).ok_or("cd truncated")?, u16le(zip, at + 32).ok_or("cd truncated")?);
        let name = zip.get(at + 46..at + 46 + n).ok_or("cd name truncated")?;
        names.push(String::from_utf8_lossy(name).to_string());
        at += 46 + n + x + c;
    }
    Ok(names)
}

/// (name, body) of every entry as the zip crate reads it back
pub fn read_all(zip_bytes: &[u8]) -> Result<Vec<(String, Body)>, String> {
    let mut a = zip::ZipArchive::new(Cursor::new(zip_bytes)).map_err(|e| format!("open: {e}"))?;
    let mut out = vec![];
    for i in 0..a.len() {
        let mut f = a.by_index(i).map_err(|e| format!("entry {i}: {e}"))?;
        let name = f.name().to_string();
        if f.is_dir() { out.push((name, Body::Dir)); } else { let mut d = vec![]; f.read_to_end(&mut d).map_err(|e| format!("read {name:?}: {e}"))?; out.push((name, Body::File(d))); }
    }
    Ok(out)
}
