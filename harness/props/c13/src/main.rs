//! C13 — client/server jar merge is a faithful, annotated union.
//! Observed: dukebox::merge::merge(client, server) -> ParsedJar, written out (`to_mem`) and re-opened.
//! Oracle: entry-level expectation table over the two input jars; classes looked at through the harness' strict parser
//! (cf::parse): side marks, union-exactly-once of fields/methods/interfaces, R-merge-order, facts of everything copied.
mod genpair;
mod jar;
mod oracle;
mod selfcheck;
mod twostep;

use cf::model::Class;
use common::{par::*, report::{finish, Meta}, *};
use dukebox::storage::{BasicFileAttributes, ClassRepr, FileJar, JarEntryEnum, NamedMemJar, ParsedJar, ParsedJarEntry, UnnamedMemJar};
use genpair::*;
use oracle::*;
use std::collections::{BTreeMap, BTreeSet};
use std::path::{Path, PathBuf};

#[derive(Clone, Copy, Debug, PartialEq, Eq)]
pub enum JarKind { NamedMem, UnnamedMem, Parsed, File, NamedAndParsed }

fn parsed_jar(spec: &JarSpec) -> ParsedJar<ClassRepr, Vec<u8>> {
    let mut entries = indexmap::IndexMap::new();
    for e in &spec.entries {
        let content = match &e.item { Item::Dir => JarEntryEnum::Dir, Item::Res(d) => JarEntryEnum::Other(d.clone()), Item::Class(c) => JarEntryEnum::Class(ClassRepr::Vec { data: c.bytes.clone() }) };
        entries.insert(e.name.clone(), ParsedJarEntry { attr: BasicFileAttributes::default(), content });
    }
    ParsedJar { entries }
}

pub type Outcome = Result<Result<Vec<u8>, String>, PanicInfo>;

/// the REAL merge, on the chosen jar representation; the result is written out with the repository's own `to_mem`
fn run_merge(kind: JarKind, pair: &Pair, cz: &[u8], sz: &[u8], scratch: Option<&Path>) -> Outcome {
    fn fin(r: anyhow::Result<ParsedJar<ClassRepr, Vec<u8>>>) -> Result<Vec<u8>, String> {
        r.and_then(|p| p.to_mem()).map(|m| m.data).map_err(|e| format!("{e:#}"))
    }
    match kind {
        JarKind::NamedMem => guard(|| fin(dukebox::merge::merge(NamedMemJar { name: "client".into(), data: cz.to_vec() }, NamedMemJar { name: "server".into(), data: sz.to_vec() }))),
        JarKind::UnnamedMem => guard(|| fin(dukebox::merge::merge(UnnamedMemJar { data: cz.to_vec() }, UnnamedMemJar { data: sz.to_vec() }))),
        JarKind::Parsed => guard(|| fin(dukebox::merge::merge(parsed_jar(&pair.client), parsed_jar(&pair.server)))),
        JarKind::NamedAndParsed => guard(|| fin(dukebox::merge::merge(NamedMemJar { name: "client".into(), data: cz.to_vec() }, parsed_jar(&pair.server)))),
        JarKind::File => {
            let Some(dir) = scratch else { return run_merge(JarKind::NamedMem, pair, cz, sz, None) };
            let (cp, sp) = (dir.join("client.jar"), dir.join("server.jar"));
            if std::fs::create_dir_all(dir).is_err() || std::fs::write(&cp, cz).is_err() || std::fs::write(&sp, sz).is_err() { eprintln!("HARNESS-ERROR cannot write scratch jars under {dir:?}"); std::process::exit(3); }
            let r = guard(|| fin(dukebox::merge::merge(FileJar { path: cp.clone() }, FileJar { path: sp.clone() })));
            let _ = std::fs::remove_dir_all(dir);
            r
        }
    }
}

struct Scratch { root: PathBuf }
impl Scratch {
    fn new(ctx: &Ctx) -> Scratch { let root = PathBuf::from(format!("{}/scratch/c13-{}", ctx.out_dir, std::process::id())); let _ = std::fs::remove_dir_all(&root); Scratch { root } }
    fn dir(&self, workload: &str, case: u64) -> PathBuf { self.root.join(format!("{workload}-{case}")) }
}
impl Drop for Scratch { fn drop(&mut self) { let _ = std::fs::remove_dir_all(&self.root); } }

fn listing(j: &JarSpec) -> Vec<String> { j.entries.iter().map(|e| format!("{}{}", e.name, match &e.item { Item::Dir => " (dir)".to_string(), Item::Res(d) => format!(" ({} bytes)", d.len()), Item::Class(c) => format!(" (class, {} bytes)", c.bytes.len()) })).collect() }

fn class_of(e: Option<&Entry>) -> Option<(&Class, &[u8])> { match e.map(|e| &e.item) { Some(Item::Class(c)) => Some((&c.model, c.bytes.as_slice())), _ => None } }

/// everything the statement says about the output jar of one pair; returns the shape fingerprint parts and whether the pair was non-trivial
fn judge_pair(rep: &mut Report, pair: &Pair, out_zip: &[u8], kind: JarKind) -> (Vec<String>, bool) {
    let jars = || json!({"jar_kind": format!("{kind:?}"), "client_jar": listing(&pair.client), "server_jar": listing(&pair.server)});
    let names = match jar::central_names(out_zip) { Ok(n) => n, Err(e) => { rep.violation("C13 output jar: central directory unreadable", json!({"error": e, "jars": jars(), "output_zip_hex": hex(out_zip)})); return (vec![], false); } };
    let contents: BTreeMap<String, jar::Body> = match jar::read_all(out_zip) { Ok(c) => c.into_iter().collect(), Err(e) => { rep.violation("C13 output jar: unreadable", json!({"error": e, "jars": jars()})); return (vec![], false); } };
    let mut n_out: BTreeMap<&str, usize> = BTreeMap::new();
    for n in &names { *n_out.entry(n.as_str()).or_insert(0) += 1; }
    let union: BTreeSet<&str> = pair.client.entries.iter().chain(&pair.server.entries).map(|e| e.name.as_str()).collect();
    let mut parts = vec![]; let mut nontrivial = false;
    for n in n_out.keys() { if !union.contains(n) { rep.violation("C13 entries: output has an entry that is in neither jar", json!({"entry": n, "jars": jars(), "output_names": names})); } }
    for name in union {
        let (ce, se) = (pair.client.get(name), pair.server.get(name));
        let (inc, ins) = (ce.is_some(), se.is_some());
        let got = n_out.get(name).copied().unwrap_or(0);
        let (kind_s, sides_s) = (kind_name(name), sides_name(inc, ins));
        let d = || json!({"entry": name, "occurrences_in_output": got, "jars": jars(), "output_names": names});
        let nc = classify(name);
        match expect(name, inc, ins) {
            Expect::Open => { rep.count(&format!("entries.open.{}", if got > 0 { "kept" } else { "dropped" })); continue; }
            Expect::Absent => {
                match &nc {
                    NameClass::Signature(ext) => { rep.count(&format!("entries.signature.{ext}")); if got > 0 { rep.violation(format!("C13 entries: META-INF signature file kept ({})", if *ext == "SF" || *ext == "RSA" { ".SF/.RSA" } else { ".DSA/.EC" }), d()); } }
                    _ => { rep.count("entries.server_library_class"); if got > 0 { rep.violation("C13 entries: class of a library bundled by the server kept", d()); } }
                }
                continue;
            }
            Expect::Present => {}
        }
        rep.count(&format!("entries.expected.{kind_s}.{}", sides_s.replace(' ', "_")));
        if got == 0 { rep.violation(format!("C13 entries: {kind_s} missing from the output ({sides_s})"), d()); continue; }
        if got > 1 { rep.violation(format!("C13 entries: {kind_s} more than once in the output ({sides_s})"), d()); continue; }
        let Some(body) = contents.get(name) else { rep.violation("C13 output jar: entry listed in the central directory cannot be read", d()); continue; };
        let src = ce.or(se).map(|e| &e.item);
        match (src, body) {
            (Some(Item::Dir), jar::Body::Dir) => rep.count("content.dir_is_dir"),
            (Some(Item::Dir), _) | (Some(_), jar::Body::Dir) => rep.violation("C13 entries: directory/file kind of an entry changed", d()),
            (Some(Item::Res(_)), jar::Body::File(data)) => {
                if nc == NameClass::Manifest { rep.count(if data.starts_with(b"Manifest-Version: 1.0\n") { "content.manifest.rewritten(not judged)" } else { "content.manifest.other(not judged)" }); continue; }
                let cd = match ce.map(|e| &e.item) { Some(Item::Res(x)) => Some(x), _ => None };
                let sd = match se.map(|e| &e.item) { Some(Item::Res(x)) => Some(x), _ => None };
                let dd = || json!({"entry": name, "client_hex": cd.map(|x| hex(x)), "server_hex": sd.map(|x| hex(x)), "output_hex": hex(data)});
                match (cd, sd) {
                    (Some(c), Some(s)) if c != s => { if data == c { rep.count("content.resource.differing.client_taken"); } else if data == s { rep.count("content.resource.differing.server_taken"); } else { rep.violation("C13 resource present on both sides with different content: output is neither side's content", dd()); } }
                    (Some(c), _) => if data == c { rep.count("content.resource.equal_to_source"); } else { rep.violation(format!("C13 resource content differs from its source ({sides_s})"), dd()); },
                    (None, Some(s)) => if data == s { rep.count("content.resource.equal_to_source"); } else { rep.violation(format!("C13 resource content differs from its source ({sides_s})"), dd()); },
                    (None, None) => {}
                }
            }
            (Some(Item::Class(_)), jar::Body::File(data)) => {
                let cx = Cx { entry: name, client: class_of(ce), server: class_of(se), out: data };
                match (cx.client, cx.server) {
                    (Some(_), None) => { rep.count("classes.client_only"); nontrivial = true; parts.push("C".to_string()); judge_one_sided(rep, &cx, Side::Client); }
                    (None, Some(_)) => { rep.count("classes.server_only"); nontrivial = true; parts.push("S".to_string()); judge_one_sided(rep, &cx, Side::Server); }
                    (Some(c), Some(s)) if c.1 == s.1 => {
                        rep.count("classes.identical"); parts.push("=".to_string());
                        if data.as_slice() == c.1 { rep.count("classes.identical.passed_through"); } else { rep.violation("C13 identical class not passed through byte-identical", cx.detail(json!({}))); }
                    }
                    (Some(c), Some(s)) => {
                        rep.count(if c.0 == s.0 { "classes.same_facts_other_bytes" } else { "classes.differing" });
                        if let Some(st) = judge_differing(rep, &cx) {
                            let p = |o: &OrderStat| format!("{}{}{}{}{}", o.client_only.min(3), o.server_only.min(3), o.shared.min(3), if o.compatible { 'c' } else { 'x' }, if o.server_only_before_shared { '<' } else { '-' });
                            parts.push(format!("D[{} {} {}]", p(&st.fields), p(&st.methods), p(&st.interfaces)));
                            if c.0 != s.0 { nontrivial = true; }
                        }
                    }
                    (None, None) => {}
                }
            }
            (None, _) => {}
        }
    }
    parts.sort();
    (parts, nontrivial)
}

fn report_outcome_failure(rep: &mut Report, o: &Outcome, pair: &Pair, kind: JarKind) -> bool {
    let jars = || json!({"jar_kind": format!("{kind:?}"), "client_jar": listing(&pair.client), "server_jar": listing(&pair.server)});
    match o {
        Err(p) => { rep.violation(format!("C13 merge panics on a pair inside the stated domain: {}", p.site()), json!({"panic": p.message, "at": format!("{}:{}", p.file, p.line), "jars": jars()})); true }
        Ok(Err(e)) => { rep.violation(format!("C13 merge refuses a pair inside the stated domain: {}", template(e.rsplit(": ").next().unwrap_or(e))), json!({"error": e, "jars": jars()})); true }
        Ok(Ok(_)) => false,
    }
}

fn pair_case(rng: &mut Rng, rep: &mut Report, case: u64, workload: &str, pc: &PairCfg, scratch: &Scratch) {
    let planned = gen_pair(rng, pc);
    rep.add("gen.emit_failures", planned.emit_failures as u64);
    rep.add("gen.big_incompressible_entries(>32KiB)", planned.big_entries as u64);
    let kind = match rng.below(20) { 0..=11 => JarKind::NamedMem, 12 | 13 => JarKind::UnnamedMem, 14..=16 => JarKind::Parsed, 17 | 18 => JarKind::NamedAndParsed, _ => JarKind::File };
    let pair = &planned.pair;
    let (cz, sz) = match (jar::build_zip(&pair.client.raw()), jar::build_zip(&pair.server.raw())) { (Ok(a), Ok(b)) => (a, b), (a, b) => { eprintln!("HARNESS-ERROR cannot build input jar: {:?} {:?}", a.err(), b.err()); std::process::exit(3) } };
    // harness self-check: the independent directory scan sees exactly the entries that were put in
    for (z, spec) in [(&cz, &pair.client), (&sz, &pair.server)] {
        let want: Vec<&str> = spec.entries.iter().map(|e| e.name.as_str()).collect();
        if jar::central_names(z).ok().as_deref().map(|v| v.iter().map(|s| s.as_str()).collect::<Vec<_>>()) != Some(want) { eprintln!("HARNESS-ERROR central directory scan disagrees with the jar builder (case {:?})", rep.cur); std::process::exit(3); }
    }
    let dir = scratch.dir(workload, case);
    let out = run_merge(kind, pair, &cz, &sz, Some(&dir));
    rep.eval();
    rep.count(&format!("jar_kind.{kind:?}"));
    for (_, cat, shapes) in &planned.cats { rep.count(&format!("planned.{cat:?}")); if let Some(s) = shapes { for x in s { rep.seen("shapes", &format!("{x:?}")); } } }
    if report_outcome_failure(rep, &out, pair, kind) { return; }
    let Ok(Ok(out_zip)) = out else { return };
    let (parts, nontrivial) = judge_pair(rep, pair, &out_zip, kind);
    if nontrivial { rep.nontrivial(rng::fnv_str(&parts.join("|"))); }
    if pair.client.entries.len() + pair.server.entries.len() <= 14 && rep.samples.len() < 2 {
        rep.sample(|| json!({"kind": "jar pair", "jar_kind": format!("{kind:?}"), "client_jar": listing(&pair.client), "server_jar": listing(&pair.server), "output_names": jar::central_names(&out_zip).unwrap_or_default(), "class_shapes": parts}));
    }
}

// ------------------------------------------------------------------------------------------------ header differences

const ASPECTS: [&str; 9] = ["class file version", "class access flags", "super class", "this_class name", "class Deprecated or Synthetic attribute",
    "Deprecated or Synthetic attribute of a shared member", "InnerClasses entry for the same inner class", "SourceFile or Signature", "nothing (control)"];

/// pairs whose class HEADERS (or attributes the merger insists on being equal) differ. The statement does not say which side
/// wins or that such pairs merge at all: a refusal is counted; a successful merge is judged on members/interfaces as usual;
/// a PANIC of the library is an observation with its own signature.
fn header_case(rng: &mut Rng, rep: &mut Report, case: u64) {
    let aspect = ASPECTS[(case % ASPECTS.len() as u64) as usize];
    let cfg = gen_cfg();
    let stem = "net/minecraft/Header";
    let mut base = if rng.bool() { simple_class(rng, stem, 4, 4, 2) } else { rich_class(rng, &cfg, stem, 3, 3, 2) };
    if base.major < 49 { base.major = 52; base.minor = 0; }
    let sh = [*rng.pick(&SHAPES), *rng.pick(&SHAPES), *rng.pick(&SHAPES)];
    let mut d = derive_sides(rng, &base, sh, false);
    let s = &mut d.server;
    match aspect {
        "class file version" => s.major = if s.major == 52 { 55 } else { 52 },
        "class access flags" => s.access ^= 0x0010,
        "super class" => s.super_class = Some(cf::model::JS::new("net/minecraft/OtherSuper")),
        "this_class name" => s.this_class = cf::model::JS::new("net/minecraft/HeaderOnServer"),
        "class Deprecated or Synthetic attribute" => if rng.bool() { s.deprecated = !s.deprecated } else { s.synthetic = !s.synthetic },
        "Deprecated or Synthetic attribute of a shared member" => {
            // make sure there is a shared member, then flip the attribute on the server's copy
            if let Some(m) = d.client.methods.first().cloned() { if !s.methods.iter().any(|x| x.name == m.name && x.desc == m.desc) { s.methods.insert(0, m); } }
            else { let m = cf::model::Method { access: 0x0401, name: cf::model::JS::new("shared"), desc: cf::model::JS::new("()V"), ..Default::default() }; d.client.methods.push(m.clone()); s.methods.push(m); }
            let key = (d.client.methods[0].name.clone(), d.client.methods[0].desc.clone());
            if let Some(m) = s.methods.iter_mut().find(|x| x.name == key.0 && x.desc == key.1) { if rng.bool() { m.deprecated = !m.deprecated } else { m.synthetic = !m.synthetic } }
        }
        "InnerClasses entry for the same inner class" => {
            let ic = |flags: u16| cf::model::InnerClass { inner: cf::model::JS::new("net/minecraft/Header$In"), outer: Some(cf::model::JS::new(stem)), name: Some(cf::model::JS::new("In")), flags };
            d.client.inner_classes = Some(vec![ic(0x0001)]); s.inner_classes = Some(vec![ic(0x0009)]);
        }
        "SourceFile or Signature" => if rng.bool() { s.source_file = Some(cf::model::JS::new("ServerName.java")) } else { s.signature = if s.signature.is_some() { None } else { Some(cf::model::JS::new("Ljava/lang/Object;")) } },
        _ => {}
    }
    let (Ok(cb), Ok(sb)) = (emit_checked(&d.client, &cf::emit::Layout::canonical()), emit_checked(&d.server, &cf::emit::Layout::canonical())) else { rep.count("gen.emit_failures"); return };
    let name = format!("{stem}.class");
    let mk = |m: &Class, b: Vec<u8>| JarSpec { entries: vec![Entry { name: name.clone(), item: Item::Class(ClassSide { model: m.clone(), bytes: b }), deflate: true }] };
    let pair = Pair { client: mk(&d.client, cb), server: mk(&d.server, sb) };
    let (Ok(cz), Ok(sz)) = (jar::build_zip(&pair.client.raw()), jar::build_zip(&pair.server.raw())) else { eprintln!("HARNESS-ERROR cannot build input jar"); std::process::exit(3) };
    let out = run_merge(JarKind::NamedMem, &pair, &cz, &sz, None);
    rep.eval();
    let key = aspect.replace(' ', "_");
    match out {
        Err(p) => {
            rep.count(&format!("headers.{key}.panic"));
            if aspect == "nothing (control)" { report_outcome_failure(rep, &Err(p), &pair, JarKind::NamedMem); }
            else { rep.violation(format!("C13 merge panics (instead of merging or refusing) on a class pair that differs in: {aspect} [{}]", p.file.strip_prefix("/repo/").unwrap_or(&p.file)), json!({"panic": p.message.chars().take(400).collect::<String>(), "at": format!("{}:{}", p.file, p.line), "client_class_hex": hex(class_of(pair.client.get(&name)).map(|c| c.1).unwrap_or(&[])), "server_class_hex": hex(class_of(pair.server.get(&name)).map(|c| c.1).unwrap_or(&[]))})); }
        }
        Ok(Err(e)) => {
            rep.count(&format!("headers.{key}.refused"));
            // SourceFile / Signature are not among the header conflicts the merger documents as refusals (version, flags, super class,
            // Deprecated / Synthetic, InnerClasses): a class that differs there is "a class differing between sides" and must be merged
            if aspect == "nothing (control)" || aspect == "SourceFile or Signature" { report_outcome_failure(rep, &Ok(Err(e)), &pair, JarKind::NamedMem); }
        }
        Ok(Ok(z)) => {
            rep.count(&format!("headers.{key}.merged"));
            let (parts, nt) = judge_pair(rep, &pair, &z, JarKind::NamedMem);
            if nt { rep.nontrivial(rng::fnv_str(&format!("hdr|{aspect}|{}", parts.join("|")))); }
        }
    }
}

fn main() {
    let mut ctx = Ctx::from_args("C13", 40, 480);
    let replay = load_replay(&mut ctx);
    let mut rep = Report::new();
    selfcheck::run();
    let scratch = Scratch::new(&ctx);

    // every workload gets its own slice of the wall-clock budget, so that a loaded machine cannot starve the later ones
    let slice = |frac: f64| -> Ctx { let mut c = ctx.clone(); let left = ctx.budget.saturating_sub(ctx.start.elapsed()); c.start = std::time::Instant::now(); c.budget = left.min(ctx.budget.mul_f64(frac)); c };
    run_cases(&slice(0.08), &replay, &mut rep, "headers", ctx.tier.pick(450, 4_500), header_case);
    // inputs that already carry side marks: every class arrives with Environment / EnvironmentInterfaces annotations of either side
    let pre = PairCfg { classes: (2, 6), resources: (0, 1), differing_resources: false, simple_classes: true, list_max: 6, premark: 1 };
    run_cases(&slice(0.12), &replay, &mut rep, "premarked", ctx.tier.pick(1_500, 25_000), |rng, rep, case| pair_case(rng, rep, case, "premarked", &pre, &scratch));
    // the output of one merge as an input of the next, in either position
    run_cases(&slice(0.15), &replay, &mut rep, "twostep", ctx.tier.pick(1_200, 20_000), twostep::twostep_case);
    // resources with different content on the two sides (kept small: the merger prints one warning line per such entry)
    let res = PairCfg { classes: (0, 2), resources: (3, 8), differing_resources: true, simple_classes: true, list_max: 4, premark: 0 };
    run_cases(&slice(0.04), &replay, &mut rep, "resources", ctx.tier.pick(100, 600), |rng, rep, case| pair_case(rng, rep, case, "resources", &res, &scratch));
    // full jars: all entry kinds, all class categories, generated classes drawn from the whole format
    let full = PairCfg { classes: (2, 9), resources: (0, 6), differing_resources: false, simple_classes: false, list_max: 7, premark: 5 };
    run_cases(&slice(0.50), &replay, &mut rep, "pairs", ctx.tier.pick(3_500, 60_000), |rng, rep, case| pair_case(rng, rep, case, "pairs", &full, &scratch));
    // sizes at which an implementation may change strategy: member lists of up to 90 entries per side, jars of 40-120 classes
    let wide = PairCfg { classes: (1, 2), resources: (0, 0), differing_resources: false, simple_classes: true, list_max: 90, premark: 5 };
    run_cases(&slice(0.06), &replay, &mut rep, "wide-members", ctx.tier.pick(250, 4_000), |rng, rep, case| pair_case(rng, rep, case, "wide-members", &wide, &scratch));
    let many = PairCfg { classes: (40, 120), resources: (0, 20), differing_resources: false, simple_classes: true, list_max: 2, premark: 5 };
    run_cases(&slice(0.06), &replay, &mut rep, "many-classes", ctx.tier.pick(60, 1_000), |rng, rep, case| pair_case(rng, rep, case, "many-classes", &many, &scratch));
    // member order: long, cheap member lists in every shape
    let order = PairCfg { classes: (3, 8), resources: (0, 1), differing_resources: false, simple_classes: true, list_max: 12, premark: 5 };
    run_cases(&slice(1.0), &replay, &mut rep, "order", ctx.tier.pick(7_500, 150_000), |rng, rep, case| pair_case(rng, rep, case, "order", &order, &scratch));
    drop(scratch);

    let mut meta = Meta::new("exploration", "seeded client/server jar pairs: 2-9 classes per pair, each client-only / server-only / identical / same facts in other bytes / differing (both sides derived from ONE generated model by keeping, dropping and reordering fields, methods and interfaces per side in 10 shapes: interleaving, prefix, suffix, middle, permutation, disjoint, shuffled, all shared, one-sided moved, two shared swapped), placed in net/minecraft, the root package or library-looking packages; resources one-sided / equal / different; directories; MANIFEST.MF; META-INF signature files (.SF .RSA .DSA .EC and look-alikes); jars handed over as NamedMemJar, UnnamedMemJar, ParsedJar, FileJar; 1 in 5 classes (workload `premarked`: every class) arrives already carrying Environment / EnvironmentInterfaces annotations (same side, other side, both; visible or invisible list); workload `twostep`: the output of one merge is the client or server input of a second merge whose partner jar is built from copies and variants of the first output. A pair is non-trivial if it has a one-sided class or a class whose two sides differ in facts; distinct = distinct multiset of per-class shapes (category; per differing class the numbers of client-only/server-only/shared fields, methods, interfaces (capped at 3), order compatibility, server-only-before-shared)")
        .assume("the independent parser and emitter (harness/cf) implement JVMS chapter 4 correctly; parse(emit(M)) == M is checked for every generated class")
        .assume("the zip crate reads and writes archives correctly (entry names are additionally taken from the harness' own scan of the central directory)")
        .assume("'bundled server library' = a class that only the server jar has, in a package other than net/minecraft and its sub-packages; 'signature file' = META-INF/*.SF and *.RSA (what the Minecraft jars carry and the ported Java JarMerger removes); *.DSA / *.EC blocks, nested or lower-case look-alikes and SIG-* are not judged (kept or removed, counted)")
        .assume("pairs whose class headers differ (version, flags, super class, Deprecated/Synthetic, InnerClasses conflict) are outside the statement: refusals are counted, successful merges are judged on members and interfaces, panics are recorded under their own signature")
        .assume("elements that arrive marked: a one-sided element must carry a mark of its side of THIS merge and the merge may add nothing else; a shared element may not get a mark it did not arrive with; what happens to marks an element arrived with (kept, removed, duplicated) is counted, not judged")
        .assume("not judged: entry order, timestamps, MANIFEST.MF content, which side's version of a shared member or of a differing resource is taken, record components / permitted subclasses of differing classes, interface order");
    if replay.is_none() {
        let g = |k: &str| rep.get(k);
        meta.oblige("entries of more than 32 KiB of incompressible bytes (classes with a big opaque attribute, resources) in the input jars (>= 40)", g("gen.big_incompressible_entries(>32KiB)") >= 40);
        meta.oblige("client-only classes judged (>= 150)", g("classes.client_only") >= 150);
        meta.oblige("server-only classes judged (>= 100)", g("classes.server_only") >= 100);
        meta.oblige("server-only library classes expected absent (>= 50)", g("entries.server_library_class") >= 50);
        meta.oblige("identical classes judged (>= 150)", g("classes.identical") >= 150);
        meta.oblige("differing classes judged (>= 1000)", g("classes.differing") >= 1000);
        meta.oblige("same facts / other bytes classes judged (>= 30)", g("classes.same_facts_other_bytes") >= 30);
        for k in ["field", "method", "interface"] {
            meta.oblige(format!("{k}s of all three roles seen in differing classes (>= 300 each)"), g(&format!("{k}s.client_only")) >= 300 && g(&format!("{k}s.server_only")) >= 300 && g(&format!("{k}s.shared")) >= 300);
        }
        for k in ["field", "method"] {
            meta.oblige(format!("{k} lists with compatible orders (>= 300), with all three roles (>= 100), with a server-only {k} in front of a shared one (>= 100)"),
                g(&format!("order.{k}.compatible")) >= 300 && g(&format!("order.{k}.compatible.all_three_roles")) >= 100 && g(&format!("order.{k}.compatible.server_only_before_a_shared_one")) >= 100);
            meta.oblige(format!("{k} lists with incompatible orders (>= 100)"), g(&format!("order.{k}.incompatible")) >= 100);
        }
        meta.oblige("all 10 list shapes used", rep.seen_n("shapes") == 10);
        meta.oblige("one-sided marks and unmarked shared members both observed (>= 500 each)", g("marks.one_sided_marked") + g("marks.one_sided_interface_marked") >= 500 || rep.violations.keys().any(|k| k.contains("mark")) );
        meta.oblige("signature files (.SF and .RSA) present in inputs", ["SF", "RSA"].iter().all(|e| g(&format!("entries.signature.{e}")) > 0));
        meta.oblige("manifest, directories and resources on one side and on both (>= 10 each)", ["manifest", "directory", "resource"].iter().all(|k| g(&format!("entries.expected.{k}.in_both_jars")) >= 10 && g(&format!("entries.expected.{k}.client_only")) >= 10 && g(&format!("entries.expected.{k}.server_only")) >= 10));
        meta.oblige("resources with different content on the two sides (>= 20)", g("content.resource.differing.client_taken") + g("content.resource.differing.server_taken") >= 20 || rep.violations.keys().any(|k| k.contains("resource present on both sides")));
        let pm = |tags: &[&str], what: &str| -> u64 { tags.iter().map(|t| g(&format!("premarked.one_sided_{t}.arrived_with_{what}"))).sum() };
        meta.oblige("one-sided fields/methods that arrive marked: with the other side (>= 200), with their side (>= 200), with both (>= 50)", pm(&["field", "method"], "a_mark_of_the_other_side") >= 200 && pm(&["field", "method"], "a_mark_of_its_side") >= 200 && pm(&["field", "method"], "marks_of_both_sides") >= 50);
        meta.oblige("one-sided classes that arrive marked: with the other side (>= 100), with their side (>= 100)", pm(&["class"], "a_mark_of_the_other_side") >= 100 && pm(&["class"], "a_mark_of_its_side") >= 100);
        meta.oblige("one-sided interfaces that arrive marked: with the other side (>= 50), with their side (>= 50)", pm(&["interface"], "a_mark_of_the_other_side") >= 50 && pm(&["interface"], "a_mark_of_its_side") >= 50);
        meta.oblige("shared fields/methods that arrive marked equally on both sides (>= 200) and on one side or differently (>= 100)",
            g("premarked.shared_field.arrived_marked_equally_on_both_sides") + g("premarked.shared_method.arrived_marked_equally_on_both_sides") >= 200
            && ["field", "method"].iter().map(|t| g(&format!("premarked.shared_{t}.arrived_marked_on_one_side")) + g(&format!("premarked.shared_{t}.arrived_marked_differently_on_the_two_sides"))).sum::<u64>() >= 100);
        meta.oblige("marks of input elements in the visible and in the invisible annotation list (>= 500 each)", g("premarked.source_mark.visible") >= 500 && g("premarked.source_mark.invisible") >= 500);
        meta.oblige("second merges with the merged jar as client (>= 60), as server (>= 60), handed over as the ParsedJar object (>= 30)", g("twostep.second_merges.merged_jar_as_client") >= 60 && g("twostep.second_merges.merged_jar_as_server") >= 60 && g("twostep.second_merges.merged_jar_handed_over_as_the_ParsedJar_object") >= 30);
        meta.oblige("every jar representation used", ["NamedMem", "UnnamedMem", "Parsed", "NamedAndParsed", "File"].iter().all(|k| g(&format!("jar_kind.{k}")) > 0));
        meta.oblige("every header aspect exercised", ASPECTS.iter().all(|a| { let k = a.replace(' ', "_"); g(&format!("headers.{k}.panic")) + g(&format!("headers.{k}.refused")) + g(&format!("headers.{k}.merged")) > 0 }));
        meta.oblige("control pairs of the header workload merge", g("headers.nothing_(control).merged") > 0);
    }
    std::process::exit(finish(&ctx, rep, meta));
}
