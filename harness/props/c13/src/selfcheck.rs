//! Start-up self-checks of the harness (exit 3 on failure, never a verdict about the property):
//! 1. the two merge-feasibility tests agree with a brute-force search for a common supersequence (exhaustive, small lists);
//! 2. spot checks of the entry expectation table;
//! 3. canaries: the class oracle is silent on the output of a reference merge written in the harness and flags
//!    deliberately wrong outputs (mark dropped / wrong / on a shared member, member dropped / duplicated, order broken, body changed).
use crate::genpair::*;
use crate::oracle::*;
use cf::{emit, model::*};
use common::*;

fn die(msg: &str) -> ! { eprintln!("HARNESS-ERROR self-check: {msg}"); std::process::exit(3) }

fn permutations(xs: &[u8]) -> Vec<Vec<u8>> {
    if xs.is_empty() { return vec![vec![]]; }
    let mut out = vec![];
    for i in 0..xs.len() { let mut rest = xs.to_vec(); let x = rest.remove(i); for mut p in permutations(&rest) { p.insert(0, x); out.push(p); } }
    out
}
fn sequences() -> Vec<Vec<u8>> {
    // all duplicate-free sequences over {0,1,2,3}
    let mut out = vec![];
    for mask in 0u8..16 { let set: Vec<u8> = (0..4).filter(|i| mask & (1 << i) != 0).collect(); out.extend(permutations(&set)); }
    out
}

fn feasibility() {
    let seqs = sequences();
    for c in &seqs { for s in &seqs {
        let mut union: Vec<u8> = c.clone(); for x in s { if !union.contains(x) { union.push(*x); } }
        let brute = permutations(&union).into_iter().any(|o| restrict(&o, c) == *c && restrict(&o, s) == *s);
        if feasible_by_toposort(c, s) != brute || feasible_by_projection(c, s) != brute { die(&format!("feasibility tests disagree with brute force on {c:?} / {s:?}")); }
    } }
}

fn table() {
    let t = |n: &str, c: bool, s: bool, e: Expect| if expect(n, c, s) != e { die(&format!("expectation table: {n} ({c},{s}) should be {e:?}")); };
    t("META-INF/MOJANGCS.SF", true, false, Expect::Absent); t("META-INF/MOJANGCS.RSA", true, true, Expect::Absent); t("META-INF/X.DSA", false, true, Expect::Open); t("META-INF/X.EC", true, true, Expect::Open);
    t("META-INF/sub/X.SF", true, true, Expect::Open); t("META-INF/x.sf", true, true, Expect::Open); t("META-INF/SIG-A", true, true, Expect::Open);
    t("data/keys.SF", true, true, Expect::Present); t("META-INF/MANIFEST.MF", false, true, Expect::Present); t("META-INF/services/a.B", false, true, Expect::Present);
    t("com/google/A.class", false, true, Expect::Absent); t("com/google/A.class", true, true, Expect::Present); t("com/google/A.class", true, false, Expect::Present);
    t("net/minecraft/A.class", false, true, Expect::Present); t("net/minecraft/server/A.class", false, true, Expect::Present); t("a.class", false, true, Expect::Present);
    t("net/minecraftx/A.class", false, true, Expect::Absent); t("net/A.class", false, true, Expect::Absent); t("net/minecraft.class", false, true, Expect::Absent);
    t("com/google/a.properties", false, true, Expect::Present); t("com/google/", false, true, Expect::Present); t("net/minecraft/Foo.class.txt", false, true, Expect::Present);
}

fn mark(side: Side) -> Annotation { env_mark(side) }

/// two-pointer merge of duplicate-free key lists; (index in c, index in s) per output position
fn ref_merge_idx<K: PartialEq>(c: &[K], s: &[K]) -> Vec<(Option<usize>, Option<usize>)> {
    let (mut i, mut j, mut out) = (0, 0, vec![]);
    loop {
        if i < c.len() && j < s.len() && c[i] == s[j] { out.push((Some(i), Some(j))); i += 1; j += 1; }
        else if i < c.len() && !s.contains(&c[i]) { out.push((Some(i), None)); i += 1; }
        else if j < s.len() && !c.contains(&s[j]) { out.push((None, Some(j))); j += 1; }
        else { break; }
    }
    while i < c.len() { out.push((Some(i), s.iter().position(|x| *x == c[i]))); i += 1; }
    while j < s.len() { if !c.contains(&s[j]) { out.push((None, Some(j))); } j += 1; }
    out
}

/// reference merge of two sides of a class with equal headers (only used to validate the oracle)
pub fn ref_merge(c: &Class, s: &Class) -> Class {
    let mut o = c.clone();
    let fk = |f: &Field| (f.name.clone(), f.desc.clone()); let mk = |m: &Method| (m.name.clone(), m.desc.clone());
    let (cf_, sf): (Vec<_>, Vec<_>) = (c.fields.iter().map(fk).collect(), s.fields.iter().map(fk).collect());
    o.fields = ref_merge_idx(&cf_, &sf).into_iter().map(|p| match p { (Some(i), Some(_)) => c.fields[i].clone(), (Some(i), None) => { let mut f = c.fields[i].clone(); f.invis_annotations.push(mark(Side::Client)); f } (None, Some(j)) => { let mut f = s.fields[j].clone(); f.invis_annotations.push(mark(Side::Server)); f } _ => unreachable!() }).collect();
    let (cm, sm): (Vec<_>, Vec<_>) = (c.methods.iter().map(mk).collect(), s.methods.iter().map(mk).collect());
    o.methods = ref_merge_idx(&cm, &sm).into_iter().map(|p| match p { (Some(i), Some(_)) => c.methods[i].clone(), (Some(i), None) => { let mut f = c.methods[i].clone(); f.invis_annotations.push(mark(Side::Client)); f } (None, Some(j)) => { let mut f = s.methods[j].clone(); f.invis_annotations.push(mark(Side::Server)); f } _ => unreachable!() }).collect();
    let mut items = vec![]; o.interfaces.clear();
    for p in ref_merge_idx(&c.interfaces, &s.interfaces) {
        let (itf, side) = match p { (Some(i), Some(_)) => (c.interfaces[i].clone(), None), (Some(i), None) => (c.interfaces[i].clone(), Some(Side::Client)), (None, Some(j)) => (s.interfaces[j].clone(), Some(Side::Server)), _ => unreachable!() };
        if let Some(side) = side {
            let mut d = vec![b'L']; d.extend(&itf.0); d.push(b';');
            items.push(ElementValue::Annotation(Annotation { type_: JS(ENV_ITF.to_vec()), pairs: vec![(JS::new("value"), ElementValue::Enum(JS(ENV_TYPE.to_vec()), JS(side.constant().to_vec()))), (JS::new("itf"), ElementValue::Class(JS(d)))] }));
        }
        o.interfaces.push(itf);
    }
    if !items.is_empty() { o.invis_annotations.push(Annotation { type_: JS(ENV_ITFS.to_vec()), pairs: vec![(JS::new("value"), ElementValue::Array(items))] }); }
    o.record = None; o.permitted_subclasses = None;
    o
}

fn judge_model(c: &Class, s: &Class, o: &Class) -> Option<Vec<String>> {
    let l = emit::Layout::canonical();
    let (cb, sb, ob) = (emit::emit(c, &l).ok()?, emit::emit(s, &l).ok()?, emit::emit(o, &l).ok()?);
    let mut rep = Report::new();
    let cx = Cx { entry: "x.class", client: Some((c, &cb)), server: Some((s, &sb)), out: &ob };
    judge_differing(&mut rep, &cx);
    Some(rep.violations.keys().cloned().collect())
}

fn canaries() {
    let cfg = gen_cfg();
    let mut fired: std::collections::BTreeMap<&'static str, bool> = ["unmarked", "shared marked", "wrong side", "dropped", "duplicated", "server order", "client order", "body", "interface unmarked", "one-sided class unmarked", "one-sided class wrong side", "arrives with the other side's mark"].into_iter().map(|k| (k, false)).collect();
    let mut clean = 0;
    for seed in 0..400u64 {
        let mut rng = Rng::new(0xC13C_A4A7 ^ seed.wrapping_mul(0x9E37_79B9));
        let base = if seed % 2 == 0 { simple_class(&mut rng, "net/minecraft/K", 6, 6, 3) } else { rich_class(&mut rng, &cfg, "net/minecraft/K", 4, 4, 3) };
        let sh = [*rng.pick(&SHAPES), *rng.pick(&SHAPES), *rng.pick(&SHAPES)];
        let d = derive_sides(&mut rng, &base, sh, false);
        let (c, s) = (&d.client, &d.server);
        let o = ref_merge(c, s);
        let Some(v) = judge_model(c, s, &o) else { continue };
        if !v.is_empty() { die(&format!("the oracle flags the reference merge (seed {seed}): {v:?}")); }
        clean += 1;
        let mut expect_flag = |name: &'static str, wrong: &Class, needle: &str| {
            if let Some(v) = judge_model(c, s, wrong) { if v.iter().any(|x| x.contains(needle)) { fired.insert(name, true); } else { die(&format!("canary '{name}' not flagged (seed {seed}); got {v:?}")); } }
        };
        let is_marked = |m: &Method| m.invis_annotations.iter().any(|a| a.type_.0 == ENV);
        if let Some(i) = o.methods.iter().position(is_marked) {
            let mut w = o.clone(); w.methods[i].invis_annotations.retain(|a| a.type_.0 != ENV); expect_flag("unmarked", &w, "not marked with its side");
            let mut w = o.clone(); for a in &mut w.methods[i].invis_annotations { if a.type_.0 == ENV { let was_client = matches!(&a.pairs[0].1, ElementValue::Enum(_, k) if k.0 == b"CLIENT"); *a = mark(if was_client { Side::Server } else { Side::Client }); } } expect_flag("wrong side", &w, "marked with the wrong side");
            let mut w = o.clone(); w.methods.remove(i); expect_flag("dropped", &w, "missing from the output");
            let mut w = o.clone(); let dup = w.methods[i].clone(); w.methods.push(dup); expect_flag("duplicated", &w, "more than once in the output");
        }
        if let Some(i) = o.fields.iter().position(|f| !f.invis_annotations.iter().any(|a| a.type_.0 == ENV)) {
            let mut w = o.clone(); w.fields[i].vis_annotations.push(mark(Side::Client)); expect_flag("shared marked", &w, "shared field marked with a side");
        }
        if let Some(i) = o.methods.iter().position(|m| m.code.is_some()) { let mut w = o.clone(); if let Some(code) = &mut w.methods[i].code { code.max_locals ^= 1; } expect_flag("body", &w, "C13 rewritten class fact .methods[].code.max_locals"); }
        // order: move a one-sided method that stands in front of a shared one to the end (what the suspected defect does)
        let fk = |m: &Method| (m.name.clone(), m.desc.clone());
        let (ck, sk): (Vec<_>, Vec<_>) = (c.methods.iter().map(fk).collect(), s.methods.iter().map(fk).collect());
        if feasible_by_projection(&ck, &sk) {
            for (name, mine, other, needle) in [("server order", &sk, &ck, "relative order of the server's methods"), ("client order", &ck, &sk, "relative order of the client's methods")] {
                let last_shared = mine.iter().rposition(|k| other.contains(k));
                if let Some(p) = last_shared.and_then(|l| mine[..l].iter().position(|k| !other.contains(k))) {
                    let mut w = o.clone(); let at = w.methods.iter().position(|m| fk(m) == mine[p]).unwrap_or(0); let m = w.methods.remove(at); w.methods.push(m);
                    expect_flag(name, &w, needle);
                }
            }
        }
        if o.invis_annotations.iter().any(|a| a.type_.0 == ENV_ITFS) { let mut w = o.clone(); w.invis_annotations.retain(|a| a.type_.0 != ENV_ITFS); expect_flag("interface unmarked", &w, "one-sided interface not marked"); }
        // a server-only method that ARRIVES marked CLIENT (e.g. from an earlier merge): the reference merge adds SERVER and the oracle
        // is silent; an output that keeps only the mark it arrived with must be flagged
        if let Some(j) = s.methods.iter().position(|m| !ck.contains(&fk(m))) {
            let mut s2 = s.clone(); s2.methods[j].invis_annotations.push(mark(Side::Client));
            let o2 = ref_merge(c, &s2);
            if let Some(v) = judge_model(c, &s2, &o2) {
                if !v.is_empty() { die(&format!("the oracle flags the reference merge of a pre-marked input (seed {seed}): {v:?}")); }
                let mut w = o2.clone();
                for m in &mut w.methods { if fk(m) == fk(&s2.methods[j]) { m.invis_annotations.retain(|a| *a != mark(Side::Server)); } }
                if let Some(v) = judge_model(c, &s2, &w) { if v.iter().any(|x| x.contains("server-only method not marked with its side")) { fired.insert("arrives with the other side's mark", true); } else { die(&format!("canary 'arrives with the other side's mark' not flagged (seed {seed}); got {v:?}")); } }
            }
        }
        // one-sided class
        let l = emit::Layout::canonical();
        if let Ok(cb) = emit::emit(c, &l) {
            let run = |out: &Class| -> Option<Vec<String>> { let ob = emit::emit(out, &l).ok()?; let mut rep = Report::new(); judge_one_sided(&mut rep, &Cx { entry: "x.class", client: Some((c, &cb)), server: None, out: &ob }, Side::Client); Some(rep.violations.keys().cloned().collect()) };
            let mut good = c.clone(); good.vis_annotations.push(mark(Side::Client));
            if let Some(v) = run(&good) { if !v.is_empty() { die(&format!("the oracle flags a correctly marked one-sided class: {v:?}")); } }
            if let Some(v) = run(c) { if v.iter().any(|x| x.contains("client-only class not marked")) { fired.insert("one-sided class unmarked", true); } else { die("canary 'one-sided class unmarked' not flagged"); } }
            let mut bad = c.clone(); bad.vis_annotations.push(mark(Side::Server));
            if let Some(v) = run(&bad) { if v.iter().any(|x| x.contains("client-only class marked with the wrong side")) { fired.insert("one-sided class wrong side", true); } else { die("canary 'one-sided class wrong side' not flagged"); } }
        }
        if clean >= 40 && fired.values().all(|f| *f) { return; }
    }
    die(&format!("canaries that never became applicable: {:?} (clean reference merges: {clean})", fired.iter().filter(|(_, f)| !**f).map(|(k, _)| *k).collect::<Vec<_>>()));
}

pub fn run() { feasibility(); table(); canaries(); }
