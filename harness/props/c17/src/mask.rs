//! Interest masks and accept/decline choices ("K" of DESIGN.md 9a R-visitor), as plain harness data.
use common::Rng;
use duke::verif::{CodeMask, FieldInterests, Mask, RecordComponentInterests};
use duke::visitor::class::ClassInterests;
use duke::visitor::method::MethodInterests;

#[derive(Clone, Copy, PartialEq, Eq, Debug)]
pub enum Level { Class, Field, Method, Code, Record }
impl Level {
    pub fn name(self) -> &'static str { match self { Level::Class => "class", Level::Field => "field", Level::Method => "method", Level::Code => "code", Level::Record => "record" } }
}

/// every interest flag the visitor traits know, in a fixed order
pub const BITS: [(Level, &str); 51] = [
    (Level::Class, "inner_classes"), (Level::Class, "enclosing_method"), (Level::Class, "signature"), (Level::Class, "source_file"), (Level::Class, "source_debug_extension"),
    (Level::Class, "runtime_visible_annotations"), (Level::Class, "runtime_invisible_annotations"), (Level::Class, "runtime_visible_type_annotations"), (Level::Class, "runtime_invisible_type_annotations"),
    (Level::Class, "module"), (Level::Class, "module_packages"), (Level::Class, "module_main_class"), (Level::Class, "nest_host"), (Level::Class, "nest_members"), (Level::Class, "permitted_subclasses"),
    (Level::Class, "record"), (Level::Class, "unknown_attributes"), (Level::Class, "fields"), (Level::Class, "methods"),
    (Level::Field, "constant_value"), (Level::Field, "signature"), (Level::Field, "runtime_visible_annotations"), (Level::Field, "runtime_invisible_annotations"),
    (Level::Field, "runtime_visible_type_annotations"), (Level::Field, "runtime_invisible_type_annotations"), (Level::Field, "unknown_attributes"),
    (Level::Method, "code"), (Level::Method, "exceptions"), (Level::Method, "signature"), (Level::Method, "runtime_visible_annotations"), (Level::Method, "runtime_invisible_annotations"),
    (Level::Method, "runtime_visible_type_annotations"), (Level::Method, "runtime_invisible_type_annotations"), (Level::Method, "runtime_visible_parameter_annotations"), (Level::Method, "runtime_invisible_parameter_annotations"),
    (Level::Method, "annotation_default"), (Level::Method, "method_parameters"), (Level::Method, "unknown_attributes"),
    (Level::Code, "stack_map_table"), (Level::Code, "line_number_table"), (Level::Code, "local_variable_table"), (Level::Code, "local_variable_type_table"),
    (Level::Code, "runtime_visible_type_annotations"), (Level::Code, "runtime_invisible_type_annotations"), (Level::Code, "unknown_attributes"),
    (Level::Record, "signature"), (Level::Record, "runtime_visible_annotations"), (Level::Record, "runtime_invisible_annotations"),
    (Level::Record, "runtime_visible_type_annotations"), (Level::Record, "runtime_invisible_type_annotations"), (Level::Record, "unknown_attributes"),
];
pub const NBITS: usize = BITS.len();
pub fn bit(level: Level, name: &str) -> usize {
    BITS.iter().position(|(l, n)| *l == level && *n == name).unwrap_or_else(|| { eprintln!("HARNESS-ERROR unknown interest bit {level:?}.{name}"); std::process::exit(3) })
}
pub fn bit_name(i: usize) -> String { format!("{}.{}", BITS[i].0.name(), BITS[i].1) }

/// which members of a list are declined
#[derive(Clone, PartialEq, Eq, Debug)]
pub enum Pat { None, All, First, Last, Every { k: usize, offset: usize }, Random(u64) }
impl Pat {
    pub fn name(&self) -> &'static str { match self { Pat::None => "none", Pat::All => "all", Pat::First => "first", Pat::Last => "last", Pat::Every { .. } => "every_kth", Pat::Random(_) => "random" } }
    pub fn expand(&self, n: usize) -> Vec<bool> {
        match self {
            Pat::None => vec![false; n], Pat::All => vec![true; n],
            Pat::First => (0..n).map(|i| i == 0).collect(), Pat::Last => (0..n).map(|i| i + 1 == n).collect(),
            Pat::Every { k, offset } => (0..n).map(|i| i % (*k).max(1) == *offset % (*k).max(1)).collect(),
            Pat::Random(s) => { let mut r = Rng::new(*s); (0..n).map(|_| r.bool()).collect() }
        }
    }
    pub fn random(rng: &mut Rng) -> Pat {
        match rng.below(12) {
            0..=3 => Pat::None, 4 => Pat::All, 5 => Pat::First, 6 => Pat::Last,
            7 | 8 => { let k = rng.usize_in(2, 3); Pat::Every { k, offset: rng.below(k) } }
            _ => Pat::Random(rng.next_u64()),
        }
    }
    pub fn to_json(&self) -> serde_json::Value {
        match self { Pat::Every { k, offset } => serde_json::json!({"every": k, "offset": offset}), Pat::Random(s) => serde_json::json!({"random": format!("{s:#x}")}), p => serde_json::json!(p.name()) }
    }
}

#[derive(Clone, PartialEq, Eq, Debug)]
pub struct K {
    pub bits: [bool; NBITS],
    pub decline_class: bool,
    pub fields: Pat,
    pub methods: Pat,
    pub records: Pat,
    /// `visit_code` answers None for these methods (ordinal of the offered method)
    pub code: Pat,
    /// Per-member interests: entry j = what the visitor handed out for the j-th offered field / method / record component
    /// answers from `interests()` where that differs from `bits` (None or a missing entry = the common mask `bits`).
    /// `per_code[j]` = the CodeInterests of the Code visitor of the j-th offered method. Only the bits of the level
    /// in question are looked at (the others are false).
    pub per_field: Vec<Option<Bits>>,
    pub per_method: Vec<Option<Bits>>,
    pub per_code: Vec<Option<Bits>>,
    pub per_record: Vec<Option<Bits>>,
    /// how the per-member lists were drawn (for the coverage account only)
    pub drawn: Vec<(Level, PerPat)>,
}
pub type Bits = [bool; NBITS];
/// the member levels (those where a visitor answers `interests()` once per member)
pub const MEMBER_LEVELS: [Level; 4] = [Level::Field, Level::Method, Level::Code, Level::Record];

/// what the harness looks at of a class when it draws per-member masks (taken from the independent parser's model)
#[derive(Clone, Debug, Default)]
pub struct Shape { pub fields: usize, pub methods: usize, pub records: usize, pub has_code: Vec<bool> }

/// how the masks of the members of one list differ from each other
#[derive(Clone, Copy, PartialEq, Eq, Debug)]
pub enum PerPat {
    /// only the first / last member that gets to the level has its own mask
    OnlyFirst, OnlyLast,
    /// only the k-th offered member (any k, it may be a declined one)
    Kth,
    /// every second member (by ordinal, or by rank among the members that get to the level) has the other mask
    Alternating,
    /// all-off and all-on in turn along the members that get to the level
    Staircase,
    /// every member its own random mask
    AllDifferent,
    /// the first member that gets to the level has everything off, every other one everything on / the other way round
    FirstOffLaterOn, FirstOnLaterOff,
}
pub const PER_PATS: [PerPat; 8] = [PerPat::FirstOffLaterOn, PerPat::OnlyFirst, PerPat::AllDifferent, PerPat::Staircase, PerPat::OnlyLast, PerPat::Alternating, PerPat::FirstOnLaterOff, PerPat::Kth];
impl PerPat {
    pub fn name(self) -> &'static str { match self { PerPat::OnlyFirst => "only_first", PerPat::OnlyLast => "only_last", PerPat::Kth => "kth", PerPat::Alternating => "alternating", PerPat::Staircase => "staircase",
        PerPat::AllDifferent => "all_different", PerPat::FirstOffLaterOn => "first_off_later_on", PerPat::FirstOnLaterOff => "first_on_later_off" } }
}
fn level_fill(level: Level, v: bool) -> Bits { let mut b = [false; NBITS]; for i in 0..NBITS { if BITS[i].0 == level { b[i] = v; } } b }
fn level_only(level: Level, src: &Bits) -> Bits { let mut b = [false; NBITS]; for i in 0..NBITS { if BITS[i].0 == level { b[i] = src[i]; } } b }
fn level_random(rng: &mut Rng, level: Level, num: u32, den: u32) -> Bits { let mut b = [false; NBITS]; for i in 0..NBITS { if BITS[i].0 == level { b[i] = rng.chance(num, den); } } b }
/// a mask for `level` that differs from `common` in at least one flag of that level
fn level_other(rng: &mut Rng, level: Level, common: &Bits) -> Bits {
    let idx: Vec<usize> = (0..NBITS).filter(|i| BITS[*i].0 == level).collect();
    let mut b = match rng.below(6) {
        0 => level_fill(level, false), 1 => level_fill(level, true),
        2 => { let mut b = level_only(level, common); for i in &idx { b[*i] = !b[*i]; } b }                 // the complement
        3 => { let mut b = level_only(level, common); let i = *rng.pick(&idx); b[i] = !b[i]; b }            // one flag flipped
        4 => level_random(rng, level, 1, 4), _ => level_random(rng, level, 1, 2),
    };
    if idx.iter().all(|i| b[*i] == common[*i]) { for i in &idx { b[*i] = !b[*i]; } }
    b
}

/// the kinds of deviation from the full-interest, accept-everything visitor (used to name the trigger of a problem)
pub const CATEGORIES: [&str; 14] = ["class interest off", "field interest off", "method interest off", "code interest off", "record component interest off",
    "declined class", "declined field", "declined method", "declined record component", "declined Code",
    "per-member field interests", "per-member method interests", "per-member code interests", "per-member record component interests"];
/// index of the first per-member category; category FIRST_PER + j belongs to MEMBER_LEVELS[j], whose "interest off" category is 1 + j
pub const FIRST_PER: usize = 10;

impl K {
    pub fn all() -> K { K { bits: [true; NBITS], decline_class: false, fields: Pat::None, methods: Pat::None, records: Pat::None, code: Pat::None, per_field: vec![], per_method: vec![], per_code: vec![], per_record: vec![], drawn: vec![] } }
    pub fn none() -> K { K { bits: [false; NBITS], ..K::all() } }
    /// the COMMON mask (what every member answers that has no mask of its own)
    pub fn on(&self, level: Level, name: &str) -> bool { self.bits[bit(level, name)] }
    pub fn per(&self, level: Level) -> &[Option<Bits>] { match level { Level::Field => &self.per_field, Level::Method => &self.per_method, Level::Code => &self.per_code, Level::Record => &self.per_record, Level::Class => &[] } }
    fn per_mut(&mut self, level: Level) -> &mut Vec<Option<Bits>> { match level { Level::Field => &mut self.per_field, Level::Method => &mut self.per_method, Level::Code => &mut self.per_code, _ => &mut self.per_record } }
    /// flag `i` as answered by the member with ordinal `ordinal` (for Level::Code: by the Code visitor of the method with that ordinal)
    pub fn bit_at(&self, ordinal: usize, i: usize) -> bool { match self.per(BITS[i].0).get(ordinal) { Some(Some(b)) => b[i], _ => self.bits[i] } }
    pub fn on_at(&self, level: Level, ordinal: usize, name: &str) -> bool { self.bit_at(ordinal, bit(level, name)) }
    pub fn has_per_member(&self) -> bool { MEMBER_LEVELS.iter().any(|l| self.per(*l).iter().any(|o| o.is_some())) }
    /// do the members with ordinals a and b answer differently at `level`?
    pub fn differ_at(&self, level: Level, a: usize, b: usize) -> bool { (0..NBITS).any(|i| BITS[i].0 == level && self.bit_at(a, i) != self.bit_at(b, i)) }

    /// which members get to `level` under this mask: accepted, and for Code: Code present, of interest to that method's visitor, not refused
    pub fn reach(&self, level: Level, shape: &Shape) -> Vec<bool> {
        match level {
            Level::Field => self.fields.expand(shape.fields).iter().map(|d| !*d).collect(),
            Level::Record => self.records.expand(shape.records).iter().map(|d| !*d && self.on(Level::Class, "record")).collect(),
            Level::Method => self.methods.expand(shape.methods).iter().map(|d| !*d).collect(),
            Level::Code => { let dm = self.methods.expand(shape.methods); let dc = self.code.expand(shape.methods); let cb = bit(Level::Method, "code");
                (0..shape.methods).map(|j| !dm[j] && !dc[j] && shape.has_code.get(j).copied().unwrap_or(false) && self.bit_at(j, cb)).collect() }
            Level::Class => vec![],
        }
    }
    /// gives the members of one list their own masks after pattern `pat` (replaces what was there for that level)
    pub fn set_per(&mut self, rng: &mut Rng, level: Level, pat: PerPat, shape: &Shape) {
        let n = match level { Level::Field => shape.fields, Level::Record => shape.records, _ => shape.methods };
        let reach = self.reach(level, shape);
        let reaching: Vec<usize> = (0..n).filter(|j| reach[*j]).collect();
        let rank = |j: usize| reaching.iter().position(|x| *x == j);
        let common = self.bits;
        let mut list: Vec<Option<Bits>> = vec![None; n];
        match pat {
            PerPat::OnlyFirst => { if let Some(j) = reaching.first().or(if n > 0 { Some(&0) } else { None }) { list[*j] = Some(level_other(rng, level, &common)); } }
            PerPat::OnlyLast => { if let Some(j) = reaching.last().copied().or(n.checked_sub(1)) { list[j] = Some(level_other(rng, level, &common)); } }
            PerPat::Kth => { if n > 0 { let j = rng.below(n); list[j] = Some(level_other(rng, level, &common)); } }
            PerPat::Alternating => { let other = level_other(rng, level, &common); let phase = rng.below(2); let by_rank = rng.bool();
                for j in 0..n { let x = if by_rank { rank(j).unwrap_or(j) } else { j }; if x % 2 == phase { list[j] = Some(other); } } }
            PerPat::Staircase => { let phase = rng.below(2); for j in 0..n { let x = rank(j).unwrap_or(j); list[j] = Some(level_fill(level, x % 2 != phase)); } }
            PerPat::AllDifferent => { for j in 0..n { let (num, den) = *rng.pick(&[(1u32, 8u32), (1, 2), (1, 2), (7, 8)]); list[j] = Some(level_random(rng, level, num, den)); } }
            PerPat::FirstOffLaterOn | PerPat::FirstOnLaterOff => { let first_on = pat == PerPat::FirstOnLaterOff; let first = reaching.first().copied().unwrap_or(0);
                for j in 0..n { list[j] = Some(level_fill(level, if j == first { first_on } else { !first_on })); } }
        }
        *self.per_mut(level) = list;
        self.drawn.retain(|d| d.0 != level); self.drawn.push((level, pat));
    }
    /// The plainest visitors that answer differently per member at `level`: full interest everywhere, everything accepted, and along the
    /// members that get to `level`: 0 = the first one nothing, the others everything; 1, 2 = nothing / everything in turn (both phases).
    pub fn probe(level: Level, kind: usize, shape: &Shape) -> K {
        let mut k = K::all();
        let reach = k.reach(level, shape);
        let mut rank = 0usize;
        let list: Vec<Option<Bits>> = reach.iter().map(|r| { let x = rank; if *r { rank += 1; } Some(level_fill(level, if !*r { true } else if kind == 0 { x != 0 } else { x % 2 != kind - 1 })) }).collect();
        *k.per_mut(level) = list;
        k
    }
    /// K::random, and in one case of three per-member masks on some of the member levels
    pub fn random_pm(rng: &mut Rng, shape: &Shape) -> K {
        let mut k = K::random(rng);
        if rng.chance(1, 3) { k.overlay_per(rng, shape); }
        k
    }
    /// per-member masks (random pattern) on a random non-empty choice of the member levels; methods before Code, whose reach depends on them
    pub fn overlay_per(&mut self, rng: &mut Rng, shape: &Shape) {
        // only lists that have members (two or more where the class has such a list)
        let n = [shape.fields, shape.methods, shape.has_code.iter().filter(|c| **c).count(), shape.records];
        let least = if n.iter().any(|x| *x >= 2) { 2 } else { 1 };
        let mut pick: Vec<bool> = (0..4).map(|j| rng.bool() && n[j] >= least).collect();
        let cand: Vec<usize> = (0..4).filter(|j| n[*j] >= least).collect();
        if cand.is_empty() { return; }
        if !pick.iter().any(|x| *x) { pick[*rng.pick(&cand)] = true; }
        for (j, level) in MEMBER_LEVELS.iter().enumerate() { if pick[j] { let pat = *rng.pick(&PER_PATS); self.set_per(rng, *level, pat, shape); } }
        if pick[3] && rng.chance(3, 4) { self.bits[bit(Level::Class, "record")] = true; }
    }
    pub fn random(rng: &mut Rng) -> K {
        let mut k = K::all();
        // density of interest differs per level so that "everything off below an accepted member" and "almost everything on" both occur
        for level in [Level::Class, Level::Field, Level::Method, Level::Code, Level::Record] {
            let (num, den) = *rng.pick(&[(1u32, 8u32), (1, 2), (1, 2), (7, 8), (1, 1)]);
            for i in 0..NBITS { if BITS[i].0 == level { k.bits[i] = rng.chance(num, den); } }
        }
        // members are offered by the reader whatever `fields` / `methods` say; keep them on mostly so that member-level masks are judged
        if rng.chance(3, 4) { k.bits[bit(Level::Class, "fields")] = true; k.bits[bit(Level::Class, "methods")] = true; }
        if rng.chance(3, 4) { k.bits[bit(Level::Method, "code")] = true; }
        if rng.chance(1, 2) { k.bits[bit(Level::Class, "record")] = true; }
        k.fields = Pat::random(rng); k.methods = Pat::random(rng); k.records = Pat::random(rng);
        k.decline_class = rng.chance(1, 40);
        k
    }
    /// the duke-side mask for a class with the given member counts
    pub fn to_mask(&self, n_fields: usize, n_methods: usize, n_records: usize) -> Mask {
        let b = |l: Level, n: &str| self.on(l, n);
        Mask {
            class: ClassInterests {
                inner_classes: b(Level::Class, "inner_classes"), enclosing_method: b(Level::Class, "enclosing_method"), signature: b(Level::Class, "signature"),
                source_file: b(Level::Class, "source_file"), source_debug_extension: b(Level::Class, "source_debug_extension"),
                runtime_visible_annotations: b(Level::Class, "runtime_visible_annotations"), runtime_invisible_annotations: b(Level::Class, "runtime_invisible_annotations"),
                runtime_visible_type_annotations: b(Level::Class, "runtime_visible_type_annotations"), runtime_invisible_type_annotations: b(Level::Class, "runtime_invisible_type_annotations"),
                module: b(Level::Class, "module"), module_packages: b(Level::Class, "module_packages"), module_main_class: b(Level::Class, "module_main_class"),
                nest_host: b(Level::Class, "nest_host"), nest_members: b(Level::Class, "nest_members"), permitted_subclasses: b(Level::Class, "permitted_subclasses"),
                record: b(Level::Class, "record"), unknown_attributes: b(Level::Class, "unknown_attributes"), fields: b(Level::Class, "fields"), methods: b(Level::Class, "methods"),
            },
            field: field_interests(&self.bits),
            method: self.method_interests(),
            code: self.code_mask(),
            record_component: record_interests(&self.bits),
            decline_class: self.decline_class,
            decline_fields: self.fields.expand(n_fields),
            decline_methods: self.methods.expand(n_methods),
            decline_record_components: self.records.expand(n_records),
            decline_code: self.code.expand(n_methods),
            field_overrides: self.per_field.iter().map(|o| o.as_ref().map(field_interests)).collect(),
            method_overrides: self.method_overrides(),
            code_overrides: self.code_overrides(),
            record_component_overrides: self.per_record.iter().map(|o| o.as_ref().map(record_interests)).collect(),
        }
    }
    pub fn method_interests(&self) -> MethodInterests { method_interests(&self.bits) }
    pub fn code_mask(&self) -> CodeMask { code_mask(&self.bits) }
    pub fn method_overrides(&self) -> Vec<Option<MethodInterests>> { self.per_method.iter().map(|o| o.as_ref().map(method_interests)).collect() }
    pub fn code_overrides(&self) -> Vec<Option<CodeMask>> { self.per_code.iter().map(|o| o.as_ref().map(code_mask)).collect() }

    /// is deviation category `c` (index into CATEGORIES) present in this mask?
    pub fn has_category(&self, c: usize) -> bool {
        let level_off = |l: Level| (0..NBITS).any(|i| BITS[i].0 == l && !self.bits[i]);
        match c {
            0 => level_off(Level::Class), 1 => level_off(Level::Field), 2 => level_off(Level::Method), 3 => level_off(Level::Code), 4 => level_off(Level::Record),
            5 => self.decline_class, 6 => self.fields != Pat::None, 7 => self.methods != Pat::None, 8 => self.records != Pat::None, 9 => self.code != Pat::None,
            _ => self.per(MEMBER_LEVELS[c - FIRST_PER]).iter().any(|o| o.is_some()),
        }
    }
    /// the same mask with deviation category `c` removed
    pub fn without_category(&self, c: usize) -> K {
        let mut k = self.clone();
        let level_on = |k: &mut K, l: Level| for i in 0..NBITS { if BITS[i].0 == l { k.bits[i] = true; } };
        match c {
            0 => level_on(&mut k, Level::Class), 1 => level_on(&mut k, Level::Field), 2 => level_on(&mut k, Level::Method), 3 => level_on(&mut k, Level::Code), 4 => level_on(&mut k, Level::Record),
            5 => k.decline_class = false, 6 => k.fields = Pat::None, 7 => k.methods = Pat::None, 8 => k.records = Pat::None, 9 => k.code = Pat::None,
            _ => k.per_mut(MEMBER_LEVELS[c - FIRST_PER]).clear(),
        }
        k
    }
    /// The ways of removing deviation category `c`, to be tried in this order. For a per-member category: every member the
    /// common mask; then, for every distinct mask some member has, every member THAT mask (a problem that persists under one
    /// of these constant masks does not need per-member answers, it is a problem of that constant mask).
    pub fn reductions(&self, c: usize) -> Vec<K> {
        let mut out = vec![self.without_category(c)];
        if c >= FIRST_PER {
            let level = MEMBER_LEVELS[c - FIRST_PER];
            let mut seen: Vec<Bits> = vec![];
            for b in self.per(level).iter().flatten() {
                if seen.contains(b) { continue; }
                seen.push(*b);
                let mut k = self.without_category(c);
                for i in 0..NBITS { if BITS[i].0 == level { k.bits[i] = b[i]; } }
                out.push(k);
            }
        }
        out
    }
    /// the same mask with the own mask of member `ordinal` at `level` removed (that member answers the common mask)
    pub fn without_member_mask(&self, level: Level, ordinal: usize) -> K { let mut k = self.clone(); if let Some(x) = k.per_mut(level).get_mut(ordinal) { *x = None; } k }
    pub fn to_json(&self) -> serde_json::Value {
        let off: Vec<String> = (0..NBITS).filter(|i| !self.bits[*i]).map(bit_name).collect();
        let mut j = serde_json::json!({"interest_off": off, "decline_class": self.decline_class, "decline_fields": self.fields.to_json(), "decline_methods": self.methods.to_json(),
            "decline_record_components": self.records.to_json(), "decline_code": self.code.to_json()});
        // per-member masks: per ordinal "common" or the flags of that level that are off for this member
        let mut per = serde_json::Map::new();
        for level in MEMBER_LEVELS {
            let list = self.per(level);
            if list.iter().all(|o| o.is_none()) { continue; }
            let v: Vec<serde_json::Value> = list.iter().map(|o| match o {
                None => serde_json::json!("common"),
                Some(b) => serde_json::json!({"off": (0..NBITS).filter(|i| BITS[*i].0 == level && !b[*i]).map(|i| BITS[i].1).collect::<Vec<_>>()}),
            }).collect();
            per.insert(format!("{}_by_ordinal", level.name()), serde_json::Value::Array(v));
        }
        if !per.is_empty() { j["per_member_interests"] = serde_json::Value::Object(per); }
        j
    }
}

pub fn field_interests(b: &Bits) -> FieldInterests {
    let b = |n: &str| b[bit(Level::Field, n)];
    FieldInterests {
        constant_value: b("constant_value"), signature: b("signature"),
        runtime_visible_annotations: b("runtime_visible_annotations"), runtime_invisible_annotations: b("runtime_invisible_annotations"),
        runtime_visible_type_annotations: b("runtime_visible_type_annotations"), runtime_invisible_type_annotations: b("runtime_invisible_type_annotations"),
        unknown_attributes: b("unknown_attributes"),
    }
}
pub fn record_interests(b: &Bits) -> RecordComponentInterests {
    let b = |n: &str| b[bit(Level::Record, n)];
    RecordComponentInterests {
        signature: b("signature"),
        runtime_visible_annotations: b("runtime_visible_annotations"), runtime_invisible_annotations: b("runtime_invisible_annotations"),
        runtime_visible_type_annotations: b("runtime_visible_type_annotations"), runtime_invisible_type_annotations: b("runtime_invisible_type_annotations"),
        unknown_attributes: b("unknown_attributes"),
    }
}
pub fn method_interests(b: &Bits) -> MethodInterests {
    let b = |n: &str| b[bit(Level::Method, n)];
    MethodInterests {
        code: b("code"), exceptions: b("exceptions"), signature: b("signature"),
        runtime_visible_annotations: b("runtime_visible_annotations"), runtime_invisible_annotations: b("runtime_invisible_annotations"),
        runtime_visible_type_annotations: b("runtime_visible_type_annotations"), runtime_invisible_type_annotations: b("runtime_invisible_type_annotations"),
        runtime_visible_parameter_annotations: b("runtime_visible_parameter_annotations"), runtime_invisible_parameter_annotations: b("runtime_invisible_parameter_annotations"),
        annotation_default: b("annotation_default"), method_parameters: b("method_parameters"), unknown_attributes: b("unknown_attributes"),
    }
}
pub fn code_mask(b: &Bits) -> CodeMask {
    let b = |n: &str| b[bit(Level::Code, n)];
    CodeMask {
        stack_map_table: b("stack_map_table"), line_number_table: b("line_number_table"), local_variable_table: b("local_variable_table"), local_variable_type_table: b("local_variable_type_table"),
        runtime_visible_type_annotations: b("runtime_visible_type_annotations"), runtime_invisible_type_annotations: b("runtime_invisible_type_annotations"), unknown_attributes: b("unknown_attributes"),
    }
}
