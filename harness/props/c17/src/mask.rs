//! Interest masks and accept/decline choices ("K" of DESIGN.md 9a R-visitor), as plain harness data.
use common::Rng;
use duke::verif::{CodeMask, FieldInterests, Mask, RecordComponentInterests};
use duke::visitor::class::ClassInterests;
use duke::visitor::method::MethodInterests;

#[derive(Clone, Copy, PartialEq, Eq, Debug)]
pub enum Level { Class, Field, Method, Code, Record }
impl Level {
    pub fn name(self) -> &'static str { match self { Level::Class => "class", Level::Field => "field", Level::Method => "method", Level::Code => "code", Level::Record => "record" } }
}

/// every interest flag the visitor traits know, in a fixed order
pub const BITS: [(Level, &str); 51] = [
    (Level::Class, "inner_classes"), (Level::Class, "enclosing_method"), (Level::Class, "signature"), (Level::Class, "source_file"), (Level::Class, "source_debug_extension"),
    (Level::Class, "runtime_visible_annotations"), (Level::Class, "runtime_invisible_annotations"), (Level::Class, "runtime_visible_type_annotations"), (Level::Class, "runtime_invisible_type_annotations"),
    (Level::Class, "module"), (Level::Class, "module_packages"), (Level::Class, "module_main_class"), (Level::Class, "nest_host"), (Level::Class, "nest_members"), (Level::Class, "permitted_subclasses"),
    (Level::Class, "record"), (Level::Class, "unknown_attributes"), (Level::Class, "fields"), (Level::Class, "methods"),
    (Level::Field, "constant_value"), (Level::Field, "signature"), (Level::Field, "runtime_visible_annotations"), (Level::Field, "runtime_invisible_annotations"),
    (Level::Field, "runtime_visible_type_annotations"), (Level::Field, "runtime_invisible_type_annotations"), (Level::Field, "unknown_attributes"),
    (Level::Method, "code"), (Level::Method, "exceptions"), (Level::Method, "signature"), (Level::Method, "runtime_visible_annotations"), (Level::Method, "runtime_invisible_annotations"),
    (Level::Method, "runtime_visible_type_annotations"), (Level::Method, "runtime_invisible_type_annotations"), (Level::Method, "runtime_visible_parameter_annotations"), (Level::Method, "runtime_invisible_parameter_annotations"),
    (Level::Method, "annotation_default"), (Level::Method, "method_parameters"), (Level::Method, "unknown_attributes"),
    (Level::Code, "stack_map_table"), (Level::Code, "line_number_table"), (Level::Code, "local_variable_table"), (Level::Code, "local_variable_type_table"),
    (Level::Code, "runtime_visible_type_annotations"), (Level::Code, "runtime_invisible_type_annotations"), (Level::Code, "unknown_attributes"),
    (Level::Record, "signature"), (Level::Record, "runtime_visible_annotations"), (Level::Record, "runtime_invisible_annotations"),
    (Level::Record, "runtime_visible_type_annotations"), (Level::Record, "runtime_invisible_type_annotations"), (Level::Record, "unknown_attributes"),
];
pub const NBITS: usize = BITS.len();
pub fn bit(level: Level, name: &str) -> usize {
    BITS.iter().position(|(l, n)| *l == level && *n == name).unwrap_or_else(|| { eprintln!("HARNESS-ERROR unknown interest bit {level:?}.{name}"); std::process::exit(3) })
}
pub fn bit_name(i: usize) -> String { format!("{}.{}", BITS[i].0.name(), BITS[i].1) }

/// which members of a list are declined
#[derive(Clone, PartialEq, Eq, Debug)]
pub enum Pat { None, All, First, Last, Every { k: usize, offset: usize }, Random(u64) }
impl Pat {
    pub fn name(&self) -> &'static str { match self { Pat::None => "none", Pat::All => "all", Pat::First => "first", Pat::Last => "last", Pat::Every { .. } => "every_kth", Pat::Random(_) => "random" } }
    pub fn expand(&self, n: usize) -> Vec<bool> {
        match self {
            Pat::None => vec![false; n], Pat::All => vec![true; n],
            Pat::First => (0..n).map(|i| i == 0).collect(), Pat::Last => (0..n).map(|i| i + 1 == n).collect(),
            Pat::Every { k, offset } => (0..n).map(|i| i % (*k).max(1) == *offset % (*k).max(1)).collect(),
            Pat::Random(s) => { let mut r = Rng::new(*s); (0..n).map(|_| r.bool()).collect() }
        }
    }
    pub fn random(rng: &mut Rng) -> Pat {
        match rng.below(12) {
            0..=3 => Pat::None, 4 => Pat::All, 5 => Pat::First, 6 => Pat::Last,
            7 | 8 => { let k = rng.usize_in(2, 3); Pat::Every { k, offset: rng.below(k) } }
            _ => Pat::Random(rng.next_u64()),
        }
    }
    pub fn to_json(&self) -> serde_json::Value {
        match self { Pat::Every { k, offset } => serde_json::json!({"every": k, "offset": offset}), Pat::Random(s) => serde_json::json!({"random": format!("{s:#x}")}), p => serde_json::json!(p.name()) }
    }
}

#[derive(Clone, PartialEq, Eq, Debug)]
pub struct K {
    pub bits: [bool; NBITS],
    pub decline_class: bool,
    pub fields: Pat,
    pub methods: Pat,
    pub records: Pat,
    /// `visit_code` answers None for these methods (ordinal of the offered method)
    pub code: Pat,
}

/// the kinds of deviation from the full-interest, accept-everything visitor (used to name the trigger of a problem)
pub const CATEGORIES: [&str; 10] = ["class interest off", "field interest off", "method interest off", "code interest off", "record component interest off",
    "declined class", "declined field", "declined method", "declined record component", "declined Code"];

impl K {
    pub fn all() -> K { K { bits: [true; NBITS], decline_class: false, fields: Pat::None, methods: Pat::None, records: Pat::None, code: Pat::None } }
    pub fn none() -> K { K { bits: [false; NBITS], ..K::all() } }
    pub fn on(&self, level: Level, name: &str) -> bool { self.bits[bit(level, name)] }
    pub fn random(rng: &mut Rng) -> K {
        let mut k = K::all();
        // density of interest differs per level so that "everything off below an accepted member" and "almost everything on" both occur
        for level in [Level::Class, Level::Field, Level::Method, Level::Code, Level::Record] {
            let (num, den) = *rng.pick(&[(1u32, 8u32), (1, 2), (1, 2), (7, 8), (1, 1)]);
            for i in 0..NBITS { if BITS[i].0 == level { k.bits[i] = rng.chance(num, den); } }
        }
        // members are offered by the reader whatever `fields` / `methods` say; keep them on mostly so that member-level masks are judged
        if rng.chance(3, 4) { k.bits[bit(Level::Class, "fields")] = true; k.bits[bit(Level::Class, "methods")] = true; }
        if rng.chance(3, 4) { k.bits[bit(Level::Method, "code")] = true; }
        if rng.chance(1, 2) { k.bits[bit(Level::Class, "record")] = true; }
        k.fields = Pat::random(rng); k.methods = Pat::random(rng); k.records = Pat::random(rng);
        k.decline_class = rng.chance(1, 40);
        k
    }
    /// the duke-side mask for a class with the given member counts
    pub fn to_mask(&self, n_fields: usize, n_methods: usize, n_records: usize) -> Mask {
        let b = |l: Level, n: &str| self.on(l, n);
        Mask {
            class: ClassInterests {
                inner_classes: b(Level::Class, "inner_classes"), enclosing_method: b(Level::Class, "enclosing_method"), signature: b(Level::Class, "signature"),
                source_file: b(Level::Class, "source_file"), source_debug_extension: b(Level::Class, "source_debug_extension"),
                runtime_visible_annotations: b(Level::Class, "runtime_visible_annotations"), runtime_invisible_annotations: b(Level::Class, "runtime_invisible_annotations"),
                runtime_visible_type_annotations: b(Level::Class, "runtime_visible_type_annotations"), runtime_invisible_type_annotations: b(Level::Class, "runtime_invisible_type_annotations"),
                module: b(Level::Class, "module"), module_packages: b(Level::Class, "module_packages"), module_main_class: b(Level::Class, "module_main_class"),
                nest_host: b(Level::Class, "nest_host"), nest_members: b(Level::Class, "nest_members"), permitted_subclasses: b(Level::Class, "permitted_subclasses"),
                record: b(Level::Class, "record"), unknown_attributes: b(Level::Class, "unknown_attributes"), fields: b(Level::Class, "fields"), methods: b(Level::Class, "methods"),
            },
            field: FieldInterests {
                constant_value: b(Level::Field, "constant_value"), signature: b(Level::Field, "signature"),
                runtime_visible_annotations: b(Level::Field, "runtime_visible_annotations"), runtime_invisible_annotations: b(Level::Field, "runtime_invisible_annotations"),
                runtime_visible_type_annotations: b(Level::Field, "runtime_visible_type_annotations"), runtime_invisible_type_annotations: b(Level::Field, "runtime_invisible_type_annotations"),
                unknown_attributes: b(Level::Field, "unknown_attributes"),
            },
            method: self.method_interests(),
            code: self.code_mask(),
            record_component: RecordComponentInterests {
                signature: b(Level::Record, "signature"),
                runtime_visible_annotations: b(Level::Record, "runtime_visible_annotations"), runtime_invisible_annotations: b(Level::Record, "runtime_invisible_annotations"),
                runtime_visible_type_annotations: b(Level::Record, "runtime_visible_type_annotations"), runtime_invisible_type_annotations: b(Level::Record, "runtime_invisible_type_annotations"),
                unknown_attributes: b(Level::Record, "unknown_attributes"),
            },
            decline_class: self.decline_class,
            decline_fields: self.fields.expand(n_fields),
            decline_methods: self.methods.expand(n_methods),
            decline_record_components: self.records.expand(n_records),
            decline_code: self.code.expand(n_methods),
            ..Mask::default()
        }
    }
    pub fn method_interests(&self) -> MethodInterests {
        let b = |n: &str| self.on(Level::Method, n);
        MethodInterests {
            code: b("code"), exceptions: b("exceptions"), signature: b("signature"),
            runtime_visible_annotations: b("runtime_visible_annotations"), runtime_invisible_annotations: b("runtime_invisible_annotations"),
            runtime_visible_type_annotations: b("runtime_visible_type_annotations"), runtime_invisible_type_annotations: b("runtime_invisible_type_annotations"),
            runtime_visible_parameter_annotations: b("runtime_visible_parameter_annotations"), runtime_invisible_parameter_annotations: b("runtime_invisible_parameter_annotations"),
            annotation_default: b("annotation_default"), method_parameters: b("method_parameters"), unknown_attributes: b("unknown_attributes"),
        }
    }
    pub fn code_mask(&self) -> CodeMask {
        let b = |n: &str| self.on(Level::Code, n);
        CodeMask {
            stack_map_table: b("stack_map_table"), line_number_table: b("line_number_table"), local_variable_table: b("local_variable_table"), local_variable_type_table: b("local_variable_type_table"),
            runtime_visible_type_annotations: b("runtime_visible_type_annotations"), runtime_invisible_type_annotations: b("runtime_invisible_type_annotations"), unknown_attributes: b("unknown_attributes"),
        }
    }
    /// is deviation category `c` (index into CATEGORIES) present in this mask?
    pub fn has_category(&self, c: usize) -> bool {
        let level_off = |l: Level| (0..NBITS).any(|i| BITS[i].0 == l && !self.bits[i]);
        match c {
            0 => level_off(Level::Class), 1 => level_off(Level::Field), 2 => level_off(Level::Method), 3 => level_off(Level::Code), 4 => level_off(Level::Record),
            5 => self.decline_class, 6 => self.fields != Pat::None, 7 => self.methods != Pat::None, 8 => self.records != Pat::None, _ => self.code != Pat::None,
        }
    }
    /// the same mask with deviation category `c` removed
    pub fn without_category(&self, c: usize) -> K {
        let mut k = self.clone();
        let level_on = |k: &mut K, l: Level| for i in 0..NBITS { if BITS[i].0 == l { k.bits[i] = true; } };
        match c {
            0 => level_on(&mut k, Level::Class), 1 => level_on(&mut k, Level::Field), 2 => level_on(&mut k, Level::Method), 3 => level_on(&mut k, Level::Code), 4 => level_on(&mut k, Level::Record),
            5 => k.decline_class = false, 6 => k.fields = Pat::None, 7 => k.methods = Pat::None, 8 => k.records = Pat::None, _ => k.code = Pat::None,
        }
        k
    }
    pub fn to_json(&self) -> serde_json::Value {
        let off: Vec<String> = (0..NBITS).filter(|i| !self.bits[*i]).map(bit_name).collect();
        serde_json::json!({"interest_off": off, "decline_class": self.decline_class, "decline_fields": self.fields.to_json(), "decline_methods": self.methods.to_json(),
            "decline_record_components": self.records.to_json(), "decline_code": self.code.to_json()})
    }
}
