//! R-visitor oracle (DESIGN.md 9a): given the projection F of the FULL read, a mask K and what a masked visitor
//! received (headers offered + the tree its builder assembled, projected: R), decide
//!   R ⊆ F,   R ∩ interest(K) == F ∩ interest(K),   order inside every repeated kind,
//! and that members after a declined member are unaffected. The expectation E = F restricted to interest(K) is
//! computed here from F and K only; nothing of the reader / replay code is used.
//! A visitor answers `interests()` once per member it accepts, and it may answer differently every time: every field,
//! method, Code attribute and record component is restricted by ITS OWN mask (`K::on_at(level, ordinal of the offered
//! member, flag)`), never by that of another member of the same class.
use crate::mask::{Level, K};
use cf::model::*;
use serde_json::{json, Value};

#[derive(Clone, Debug, PartialEq)]
pub struct ClassHdr { pub major: u16, pub minor: u16, pub access: u16, pub this_class: JS, pub super_class: Option<JS>, pub interfaces: Vec<JS>, pub declined: bool }
#[derive(Clone, Debug, PartialEq)]
pub struct MemberHdr { pub access: u16, pub name: JS, pub desc: JS, pub declined: bool }

/// the headers a visitor was offered, per kind, in call order
#[derive(Clone, Debug, Default)]
pub struct Offered {
    pub classes: Vec<ClassHdr>,
    pub fields: Vec<MemberHdr>,
    pub methods: Vec<MemberHdr>,
    pub records: Vec<MemberHdr>,
    /// (ordinal of the offered method, number of visit_code calls, declined)
    pub code: Vec<(usize, usize, bool)>,
}

/// what one visitor observed in one read / replay of one class
#[derive(Clone, Debug)]
pub struct Obs { pub offered: Offered, pub built: Vec<Class> }

/// what a visitor observes that is offered every header of F once, accepts everything and receives everything (for canaries)
pub fn full_obs(f: &Class) -> Obs {
    let mut o = Offered { classes: vec![ClassHdr { major: f.major, minor: f.minor, access: f.access, this_class: f.this_class.clone(), super_class: f.super_class.clone(), interfaces: f.interfaces.clone(), declined: false }], ..Default::default() };
    o.fields = f.fields.iter().map(|x| MemberHdr { access: x.access, name: x.name.clone(), desc: x.desc.clone(), declined: false }).collect();
    o.methods = f.methods.iter().map(|x| MemberHdr { access: x.access, name: x.name.clone(), desc: x.desc.clone(), declined: false }).collect();
    o.records = f.record.iter().flatten().map(|x| MemberHdr { access: 0, name: x.name.clone(), desc: x.desc.clone(), declined: false }).collect();
    o.code = f.methods.iter().enumerate().filter(|(_, m)| m.code.is_some()).map(|(j, _)| (j, 1, false)).collect();
    Obs { offered: o, built: vec![f.clone()] }
}

#[derive(Clone, Debug)]
pub struct Problem { pub key: String, pub detail: Value }

struct Cx { p: Vec<Problem> }
fn is_subseq<T: PartialEq>(r: &[T], f: &[T]) -> bool { let mut it = f.iter(); r.iter().all(|x| it.any(|y| y == x)) }
impl Cx {
    fn problem(&mut self, key: String, detail: Value) { if self.p.len() < 24 { self.p.push(Problem { key, detail }); } }
    fn unexpected(&mut self, path: &str, f: Value, r: Value) { self.problem(format!("received item that the full read does not report: {path}"), json!({"full_read": f, "received": r})); }
    /// single-valued item: with interest it must equal the full read's; without, it may be absent or equal
    fn opt<T: Clone + PartialEq + serde::Serialize>(&mut self, path: &str, interest: bool, f: &Option<T>, e: &mut Option<T>, r: &mut Option<T>) {
        if interest { *e = f.clone(); } else { if r.is_some() && r != f { self.unexpected(path, json!(f), json!(r)); } *e = None; *r = None; }
    }
    fn flag(&mut self, _path: &str, f: bool, e: &mut bool) { *e = f; } // no interest flag exists for Deprecated / Synthetic: always delivered
    /// list-valued item: with interest equal (order included); without, any sub-sequence
    fn list<T: Clone + PartialEq + serde::Serialize>(&mut self, path: &str, interest: bool, f: &[T], e: &mut Vec<T>, r: &mut Vec<T>) {
        if interest { *e = f.to_vec(); } else { if !is_subseq(r, f) { self.unexpected(path, json!(f), json!(r)); } e.clear(); r.clear(); }
    }
    fn opt_list<T: Clone + PartialEq + serde::Serialize>(&mut self, path: &str, interest: bool, f: &Option<Vec<T>>, e: &mut Option<Vec<T>>, r: &mut Option<Vec<T>>) {
        if interest { *e = f.clone(); } else {
            if let Some(rv) = r { if !f.as_ref().is_some_and(|fv| is_subseq(rv, fv)) { self.unexpected(path, json!(f), json!(r)); } }
            *e = None; *r = None;
        }
    }
}

/// offered ordinal -> index in the full read's list. Equal lengths: position by position; otherwise greedy sub-sequence.
fn align(offered: &[MemberHdr], full: &[(u16, &JS, &JS)]) -> Result<Vec<usize>, (usize, &'static str)> {
    let same = |o: &MemberHdr, f: &(u16, &JS, &JS)| o.access == f.0 && &o.name == f.1 && &o.desc == f.2;
    if offered.len() == full.len() {
        for (j, (o, f)) in offered.iter().zip(full).enumerate() { if !same(o, f) { return Err((j, "header differs from the full read's member at the same position")); } }
        return Ok((0..full.len()).collect());
    }
    let mut map = vec![]; let mut i = 0;
    for (j, o) in offered.iter().enumerate() {
        while i < full.len() && !same(o, &full[i]) { i += 1; }
        if i == full.len() { return Err((j, "offered member is not in the full read (or out of order)")); }
        map.push(i); i += 1;
    }
    Ok(map)
}

fn hdr_json(h: &[MemberHdr]) -> Value { json!(h.iter().map(|m| format!("{:#06x} {} {}{}", m.access, m.name.show(), m.desc.show(), if m.declined { " (declined)" } else { "" })).collect::<Vec<_>>()) }

/// `ordinal`: of the offered method this Code belongs to (its Code visitor answers `k.on_at(Level::Code, ordinal, ..)`)
fn restrict_code(cx: &mut Cx, k: &K, ordinal: usize, f: &Code, r: &mut Code) -> Code {
    let on = |n: &str| k.on_at(Level::Code, ordinal, n);
    // max_stack / max_locals, instructions, exception table: no interest flag, always delivered
    let mut e = Code { max_stack: f.max_stack, max_locals: f.max_locals, insns: f.insns.clone(), exceptions: f.exceptions.clone(), ..Default::default() };
    cx.opt_list("methods[].code.frames", on("stack_map_table"), &f.frames, &mut e.frames, &mut r.frames);
    cx.opt_list("methods[].code.line_numbers", on("line_number_table"), &f.line_numbers, &mut e.line_numbers, &mut r.line_numbers);
    cx.opt_list("methods[].code.lvt", on("local_variable_table"), &f.lvt, &mut e.lvt, &mut r.lvt);
    cx.opt_list("methods[].code.lvtt", on("local_variable_type_table"), &f.lvtt, &mut e.lvtt, &mut r.lvtt);
    cx.list("methods[].code.vis_type_annotations", on("runtime_visible_type_annotations"), &f.vis_type_annotations, &mut e.vis_type_annotations, &mut r.vis_type_annotations);
    cx.list("methods[].code.invis_type_annotations", on("runtime_invisible_type_annotations"), &f.invis_type_annotations, &mut e.invis_type_annotations, &mut r.invis_type_annotations);
    cx.list("methods[].code.unknown", on("unknown_attributes"), &f.unknown, &mut e.unknown, &mut r.unknown);
    e
}

/// Judges one observation of ONE class. `mode` only goes into details. Returns problems with instance-free keys.
pub fn judge(f: &Class, k: &K, obs: &Obs) -> Vec<Problem> {
    let mut cx = Cx { p: vec![] };
    // ---- the class header: offered exactly once, equal to the full read's, whether accepted or declined
    if obs.offered.classes.len() != 1 {
        cx.problem(format!("visit_class called {} times for one class", if obs.offered.classes.is_empty() { "0" } else { "several" }), json!({"calls": obs.offered.classes.len()}));
        return cx.p;
    }
    let h = &obs.offered.classes[0];
    let fh = ClassHdr { major: f.major, minor: f.minor, access: f.access, this_class: f.this_class.clone(), super_class: f.super_class.clone(), interfaces: f.interfaces.clone(), declined: h.declined };
    if *h != fh { cx.problem("class header offered differs from the full read".into(), json!({"full_read": format!("{fh:?}"), "offered": format!("{h:?}")})); }
    if k.decline_class {
        if !obs.built.is_empty() || !obs.offered.fields.is_empty() || !obs.offered.methods.is_empty() || !obs.offered.records.is_empty() {
            cx.problem("declined class still delivered".into(), json!({"built": obs.built.len(), "fields": obs.offered.fields.len(), "methods": obs.offered.methods.len()}));
        }
        return cx.p;
    }
    if obs.built.len() != 1 { cx.problem("accepted class was not finished exactly once".into(), json!({"finished": obs.built.len()})); return cx.p; }
    let mut r = obs.built[0].clone();
    let con = |n: &str| k.on(Level::Class, n);
    let mut e = Class { major: f.major, minor: f.minor, access: f.access, this_class: f.this_class.clone(), super_class: f.super_class.clone(), interfaces: f.interfaces.clone(), ..Default::default() };

    // ---- class-level items
    cx.flag("deprecated", f.deprecated, &mut e.deprecated); cx.flag("synthetic", f.synthetic, &mut e.synthetic);
    cx.opt_list("inner_classes", con("inner_classes"), &f.inner_classes, &mut e.inner_classes, &mut r.inner_classes);
    cx.opt("enclosing_method", con("enclosing_method"), &f.enclosing_method, &mut e.enclosing_method, &mut r.enclosing_method);
    cx.opt("signature", con("signature"), &f.signature, &mut e.signature, &mut r.signature);
    cx.opt("source_file", con("source_file"), &f.source_file, &mut e.source_file, &mut r.source_file);
    cx.opt("source_debug_extension", con("source_debug_extension"), &f.source_debug_extension, &mut e.source_debug_extension, &mut r.source_debug_extension);
    cx.list("vis_annotations", con("runtime_visible_annotations"), &f.vis_annotations, &mut e.vis_annotations, &mut r.vis_annotations);
    cx.list("invis_annotations", con("runtime_invisible_annotations"), &f.invis_annotations, &mut e.invis_annotations, &mut r.invis_annotations);
    cx.list("vis_type_annotations", con("runtime_visible_type_annotations"), &f.vis_type_annotations, &mut e.vis_type_annotations, &mut r.vis_type_annotations);
    cx.list("invis_type_annotations", con("runtime_invisible_type_annotations"), &f.invis_type_annotations, &mut e.invis_type_annotations, &mut r.invis_type_annotations);
    cx.opt("module", con("module"), &f.module, &mut e.module, &mut r.module);
    cx.opt_list("module_packages", con("module_packages"), &f.module_packages, &mut e.module_packages, &mut r.module_packages);
    cx.opt("module_main_class", con("module_main_class"), &f.module_main_class, &mut e.module_main_class, &mut r.module_main_class);
    cx.opt("nest_host", con("nest_host"), &f.nest_host, &mut e.nest_host, &mut r.nest_host);
    cx.opt_list("nest_members", con("nest_members"), &f.nest_members, &mut e.nest_members, &mut r.nest_members);
    cx.opt_list("permitted_subclasses", con("permitted_subclasses"), &f.permitted_subclasses, &mut e.permitted_subclasses, &mut r.permitted_subclasses);
    cx.list("unknown", con("unknown_attributes"), &f.unknown, &mut e.unknown, &mut r.unknown);

    // ---- record components
    {
        let empty = vec![]; let frc = f.record.as_ref().unwrap_or(&empty);
        let full: Vec<(u16, &JS, &JS)> = frc.iter().map(|c| (0u16, &c.name, &c.desc)).collect();
        let mut rrc = r.record.take().unwrap_or_default();
        let mut erc = vec![];
        match align(&obs.offered.records, &full) {
            Err((j, why)) => cx.problem(format!("record components offered: {why}"), json!({"offered_ordinal": j, "offered": hdr_json(&obs.offered.records), "full_read": full.iter().map(|x| format!("{} {}", x.1.show(), x.2.show())).collect::<Vec<_>>() })),
            Ok(map) => {
                if con("record") && map.len() < full.len() { cx.problem("record components of interest never offered (fewer than the full read reports)".into(), json!({"offered": hdr_json(&obs.offered.records), "full_read_count": full.len()})); }
                let accepted: Vec<(usize, usize)> = obs.offered.records.iter().enumerate().filter(|(_, o)| !o.declined).map(|(j, _)| (j, map[j])).collect();
                if accepted.len() != rrc.len() { cx.problem("accepted record components and finished record components differ in number".into(), json!({"accepted": accepted.len(), "finished": rrc.len()})); }
                else {
                    for (rc, (ordinal, fi)) in rrc.iter_mut().zip(&accepted) {
                        let ron = |n: &str| k.on_at(Level::Record, *ordinal, n);
                        let fc = &frc[*fi];
                        let mut ec = RecordComponent { name: fc.name.clone(), desc: fc.desc.clone(), ..Default::default() };
                        cx.opt("record[].signature", ron("signature"), &fc.signature, &mut ec.signature, &mut rc.signature);
                        cx.list("record[].vis_annotations", ron("runtime_visible_annotations"), &fc.vis_annotations, &mut ec.vis_annotations, &mut rc.vis_annotations);
                        cx.list("record[].invis_annotations", ron("runtime_invisible_annotations"), &fc.invis_annotations, &mut ec.invis_annotations, &mut rc.invis_annotations);
                        cx.list("record[].vis_type_annotations", ron("runtime_visible_type_annotations"), &fc.vis_type_annotations, &mut ec.vis_type_annotations, &mut rc.vis_type_annotations);
                        cx.list("record[].invis_type_annotations", ron("runtime_invisible_type_annotations"), &fc.invis_type_annotations, &mut ec.invis_type_annotations, &mut rc.invis_type_annotations);
                        cx.list("record[].unknown", ron("unknown_attributes"), &fc.unknown, &mut ec.unknown, &mut rc.unknown);
                        erc.push(ec);
                    }
                }
            }
        }
        // the projection maps "no component" to None on both sides
        e.record = if erc.is_empty() { None } else { Some(erc) };
        r.record = if rrc.is_empty() { None } else { Some(rrc) };
    }

    // ---- fields
    {
        let full: Vec<(u16, &JS, &JS)> = f.fields.iter().map(|x| (x.access, &x.name, &x.desc)).collect();
        match align(&obs.offered.fields, &full) {
            Err((j, why)) => { cx.problem(format!("fields offered: {why}"), json!({"offered_ordinal": j, "offered": hdr_json(&obs.offered.fields), "full_read": f.fields.iter().map(|x| format!("{:#06x} {} {}", x.access, x.name.show(), x.desc.show())).collect::<Vec<_>>() })); r.fields.clear(); }
            Ok(map) => {
                if con("fields") && map.len() < full.len() { cx.problem("fields of interest never offered (fewer than the full read reports)".into(), json!({"offered": hdr_json(&obs.offered.fields), "full_read_count": full.len()})); }
                let accepted: Vec<(usize, usize)> = obs.offered.fields.iter().enumerate().filter(|(_, o)| !o.declined).map(|(j, _)| (j, map[j])).collect();
                if accepted.len() != r.fields.len() { cx.problem("accepted fields and finished fields differ in number".into(), json!({"accepted": accepted.len(), "finished": r.fields.len()})); r.fields.clear(); }
                else {
                    for (rf, (ordinal, fi)) in r.fields.iter_mut().zip(&accepted) {
                        let fon = |n: &str| k.on_at(Level::Field, *ordinal, n);
                        let ff = &f.fields[*fi];
                        let mut ef = Field { access: ff.access, name: ff.name.clone(), desc: ff.desc.clone(), deprecated: ff.deprecated, synthetic: ff.synthetic, ..Default::default() };
                        cx.opt("fields[].constant_value", fon("constant_value"), &ff.constant_value, &mut ef.constant_value, &mut rf.constant_value);
                        cx.opt("fields[].signature", fon("signature"), &ff.signature, &mut ef.signature, &mut rf.signature);
                        cx.list("fields[].vis_annotations", fon("runtime_visible_annotations"), &ff.vis_annotations, &mut ef.vis_annotations, &mut rf.vis_annotations);
                        cx.list("fields[].invis_annotations", fon("runtime_invisible_annotations"), &ff.invis_annotations, &mut ef.invis_annotations, &mut rf.invis_annotations);
                        cx.list("fields[].vis_type_annotations", fon("runtime_visible_type_annotations"), &ff.vis_type_annotations, &mut ef.vis_type_annotations, &mut rf.vis_type_annotations);
                        cx.list("fields[].invis_type_annotations", fon("runtime_invisible_type_annotations"), &ff.invis_type_annotations, &mut ef.invis_type_annotations, &mut rf.invis_type_annotations);
                        cx.list("fields[].unknown", fon("unknown_attributes"), &ff.unknown, &mut ef.unknown, &mut rf.unknown);
                        e.fields.push(ef);
                    }
                }
            }
        }
    }

    // ---- methods
    {
        let full: Vec<(u16, &JS, &JS)> = f.methods.iter().map(|x| (x.access, &x.name, &x.desc)).collect();
        match align(&obs.offered.methods, &full) {
            Err((j, why)) => { cx.problem(format!("methods offered: {why}"), json!({"offered_ordinal": j, "offered": hdr_json(&obs.offered.methods), "full_read": f.methods.iter().map(|x| format!("{:#06x} {} {}", x.access, x.name.show(), x.desc.show())).collect::<Vec<_>>() })); r.methods.clear(); }
            Ok(map) => {
                if con("methods") && map.len() < full.len() { cx.problem("methods of interest never offered (fewer than the full read reports)".into(), json!({"offered": hdr_json(&obs.offered.methods), "full_read_count": full.len()})); }
                let accepted: Vec<(usize, usize)> = obs.offered.methods.iter().enumerate().filter(|(_, o)| !o.declined).map(|(j, _)| (j, map[j])).collect();
                if accepted.len() != r.methods.len() { cx.problem("accepted methods and finished methods differ in number".into(), json!({"accepted": accepted.len(), "finished": r.methods.len()})); r.methods.clear(); }
                else {
                    let code_declined = k.code.expand(obs.offered.methods.len());
                    for (rm, (ordinal, fi)) in r.methods.iter_mut().zip(&accepted) {
                        let mon = |n: &str| k.on_at(Level::Method, *ordinal, n);
                        let fm = &f.methods[*fi];
                        let mut em = Method { access: fm.access, name: fm.name.clone(), desc: fm.desc.clone(), deprecated: fm.deprecated, synthetic: fm.synthetic, ..Default::default() };
                        // Code: delivered iff of interest and not refused by visit_code -> None
                        let refused = code_declined.get(*ordinal).copied().unwrap_or(false);
                        let want = mon("code") && !refused;
                        let visits = obs.offered.code.iter().find(|c| c.0 == *ordinal).map(|c| c.1).unwrap_or(0);
                        if mon("code") && fm.code.is_some() && visits != 1 { cx.problem(format!("Code of interest offered {} (visit_code calls)", if visits == 0 { "never" } else { "more than once" }), json!({"method": fm.name.show(), "visit_code_calls": visits})); }
                        if fm.code.is_none() && visits != 0 { cx.problem("visit_code called for a method without Code in the full read".into(), json!({"method": fm.name.show()})); }
                        if refused && rm.code.is_some() { cx.problem("refused Code still delivered".into(), json!({"method": fm.name.show()})); }
                        match (&fm.code, &mut rm.code) {
                            (Some(fc), Some(rc)) => { let ec = restrict_code(&mut cx, k, *ordinal, fc, rc); if want { em.code = Some(ec); } else { if *rc != ec { cx.unexpected("methods[].code", json!("(code of the full read)"), json!("(a different code)")); } rm.code = None; } }
                            (Some(fc), None) => { if want { let mut dummy = Code::default(); em.code = Some(restrict_code(&mut Cx { p: vec![] }, k, *ordinal, fc, &mut dummy)); } }
                            (None, Some(_)) => { cx.unexpected("methods[].code", json!(null), json!("(some code)")); rm.code = None; }
                            (None, None) => {}
                        }
                        cx.opt_list("methods[].exceptions", mon("exceptions"), &fm.exceptions, &mut em.exceptions, &mut rm.exceptions);
                        cx.opt("methods[].signature", mon("signature"), &fm.signature, &mut em.signature, &mut rm.signature);
                        cx.list("methods[].vis_annotations", mon("runtime_visible_annotations"), &fm.vis_annotations, &mut em.vis_annotations, &mut rm.vis_annotations);
                        cx.list("methods[].invis_annotations", mon("runtime_invisible_annotations"), &fm.invis_annotations, &mut em.invis_annotations, &mut rm.invis_annotations);
                        cx.list("methods[].vis_type_annotations", mon("runtime_visible_type_annotations"), &fm.vis_type_annotations, &mut em.vis_type_annotations, &mut rm.vis_type_annotations);
                        cx.list("methods[].invis_type_annotations", mon("runtime_invisible_type_annotations"), &fm.invis_type_annotations, &mut em.invis_type_annotations, &mut rm.invis_type_annotations);
                        // parameter annotations have no place in duke's tree (C01's business): neither side carries them
                        cx.opt("methods[].annotation_default", mon("annotation_default"), &fm.annotation_default, &mut em.annotation_default, &mut rm.annotation_default);
                        cx.opt_list("methods[].method_parameters", mon("method_parameters"), &fm.method_parameters, &mut em.method_parameters, &mut rm.method_parameters);
                        cx.list("methods[].unknown", mon("unknown_attributes"), &fm.unknown, &mut em.unknown, &mut rm.unknown);
                        e.methods.push(em);
                    }
                }
            }
        }
        if cx.p.iter().any(|p| p.key.starts_with("methods offered") || p.key.starts_with("accepted methods")) { e.methods.clear(); }
    }
    if cx.p.iter().any(|p| p.key.starts_with("fields offered") || p.key.starts_with("accepted fields")) { e.fields.clear(); }

    // ---- everything of interest must now be equal, fact by fact
    if e != r {
        for d in cf::diff::diff(&e, &r, 6) {
            let kind = match d.kind.as_str() { "missing" | "missing(empty list)" | "count(fewer)" => "item of interest missing", "extra" | "count(more)" => "item received that the full read does not report", _ => "item differs from the full read" };
            cx.problem(format!("fact {}: {} ({})", d.path, kind, d.kind), json!({"at": d.at, "expected_from_full_read": d.expected, "received": d.observed}));
        }
    }
    cx.p
}
