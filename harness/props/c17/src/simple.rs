//! Visitors written in the harness against duke's PUBLIC traits only: a `SimpleClassVisitor` (fields + methods, nothing
//! else), with a harness-defined masked `MethodVisitor` / `CodeVisitor` pair. They are a second, independent
//! implementation of "partial visitor" next to duke::verif::Masked (which lives inside duke).
use crate::oracle::{ClassHdr, MemberHdr, Obs, Offered};
use anyhow::Result;
use cf::project::js;
use duke::tree::class::{ClassAccess, ClassFile, ClassName, ObjClassName};
use duke::tree::field::{Field, FieldAccess, FieldDescriptor, FieldName};
use duke::tree::method::code::{Code, Exception, Instruction, Label, Lv};
use duke::tree::method::{Method, MethodAccess, MethodDescriptor, MethodName, MethodParameter, MethodSignature};
use duke::tree::version::Version;
use duke::verif::CodeMask;
use duke::visitor::method::code::{CodeInterests, CodeVisitor, StackMapData};
use duke::visitor::method::{MethodInterests, MethodVisitor};
use duke::visitor::simple::class::SimpleClassVisitor;
use duke::visitor::MultiClassVisitor;
use std::ops::ControlFlow;

#[derive(Clone, Debug)]
pub struct SimpleCfg { pub decline_fields: Vec<bool>, pub decline_methods: Vec<bool>, pub decline_code: Vec<bool>, pub method: MethodInterests, pub code: CodeMask,
    /// what the method visitor / its Code visitor handed out for the i-th offered method answers from `interests()` where that is not `method` / `code`
    pub method_overrides: Vec<Option<MethodInterests>>, pub code_overrides: Vec<Option<CodeMask>> }

pub struct SimpleMulti { pub cfg: SimpleCfg, pub headers: Vec<(Version, ClassAccess, ObjClassName, Option<ObjClassName>, Vec<ObjClassName>)>, pub finished: Vec<SimpleProbe> }
impl SimpleMulti { pub fn new(cfg: SimpleCfg) -> SimpleMulti { SimpleMulti { cfg, headers: vec![], finished: vec![] } } }

impl MultiClassVisitor for SimpleMulti {
    type ClassVisitor = SimpleProbe;
    type ClassResidual = SimpleMulti;
    fn visit_class(mut self, version: Version, access: ClassAccess, name: ObjClassName, super_class: Option<ObjClassName>, interfaces: Vec<ObjClassName>) -> Result<ControlFlow<Self, (Self::ClassResidual, Self::ClassVisitor)>> {
        self.headers.push((version, access, name, super_class, interfaces));
        let probe = SimpleProbe { cfg: self.cfg.clone(), offered_fields: vec![], offered_methods: vec![], fields: vec![], methods: vec![], code_visits: vec![] };
        Ok(ControlFlow::Continue((self, probe)))
    }
    fn finish_class(mut this: Self::ClassResidual, class_visitor: Self::ClassVisitor) -> Result<Self> { this.finished.push(class_visitor); Ok(this) }
}

pub struct SimpleProbe { cfg: SimpleCfg, offered_fields: Vec<MemberHdr>, offered_methods: Vec<MemberHdr>, fields: Vec<Field>, methods: Vec<Method>, code_visits: Vec<(usize, usize, bool)> }

impl SimpleClassVisitor for SimpleProbe {
    type FieldVisitor = Field;
    type MethodVisitor = HMethod;
    fn visit_field(&mut self, access: FieldAccess, name: FieldName, descriptor: FieldDescriptor) -> Result<Option<Self::FieldVisitor>> {
        let i = self.offered_fields.len();
        let declined = self.cfg.decline_fields.get(i).copied().unwrap_or(false);
        self.offered_fields.push(MemberHdr { access: access.into(), name: js(name.as_inner()), desc: js(descriptor.as_inner()), declined });
        Ok(if declined { None } else { Some(Field::new(access, name, descriptor)) })
    }
    fn finish_field(&mut self, field_visitor: Self::FieldVisitor) -> Result<()> { self.fields.push(field_visitor); Ok(()) }
    fn visit_method(&mut self, access: MethodAccess, name: MethodName, descriptor: MethodDescriptor) -> Result<Option<Self::MethodVisitor>> {
        let i = self.offered_methods.len();
        let declined = self.cfg.decline_methods.get(i).copied().unwrap_or(false);
        self.offered_methods.push(MemberHdr { access: access.into(), name: js(name.as_inner()), desc: js(descriptor.as_inner()), declined });
        // every method visitor is made with the answers of ITS method: a visitor may answer `interests()` differently for every member
        let interests = match self.cfg.method_overrides.get(i) { Some(Some(m)) => *m, _ => self.cfg.method };
        let code = match self.cfg.code_overrides.get(i) { Some(Some(c)) => *c, _ => self.cfg.code };
        Ok(if declined { None } else { Some(HMethod { interests, code, decline_code: self.cfg.decline_code.get(i).copied().unwrap_or(false), index: i, code_visits: 0, inner: Method::new(access, name, descriptor) }) })
    }
    fn finish_method(&mut self, m: Self::MethodVisitor) -> Result<()> {
        if m.code_visits > 0 { self.code_visits.push((m.index, m.code_visits, m.decline_code)); }
        self.methods.push(m.inner); Ok(())
    }
}

/// harness-defined masked method visitor (tree builder `Method` inside)
pub struct HMethod { interests: MethodInterests, code: CodeMask, decline_code: bool, index: usize, code_visits: usize, inner: Method }
type MState = (MethodInterests, CodeMask, bool, usize, usize);
impl HMethod {
    fn split(self) -> (MState, Method) { ((self.interests, self.code, self.decline_code, self.index, self.code_visits), self.inner) }
    fn join(s: MState, inner: Method) -> HMethod { HMethod { interests: s.0, code: s.1, decline_code: s.2, index: s.3, code_visits: s.4, inner } }
}
impl MethodVisitor for HMethod {
    type AnnotationsVisitor = <Method as MethodVisitor>::AnnotationsVisitor;
    type AnnotationsResidual = (MState, <Method as MethodVisitor>::AnnotationsResidual);
    type TypeAnnotationsVisitor = <Method as MethodVisitor>::TypeAnnotationsVisitor;
    type TypeAnnotationsResidual = (MState, <Method as MethodVisitor>::TypeAnnotationsResidual);
    type AnnotationDefaultVisitor = <Method as MethodVisitor>::AnnotationDefaultVisitor;
    type AnnotationDefaultResidual = (MState, <Method as MethodVisitor>::AnnotationDefaultResidual);
    type CodeVisitor = HCode;
    type UnknownAttribute = <Method as MethodVisitor>::UnknownAttribute;
    fn interests(&self) -> MethodInterests { self.interests }
    fn visit_deprecated_and_synthetic_attribute(&mut self, deprecated: bool, synthetic: bool) -> Result<()> { self.inner.visit_deprecated_and_synthetic_attribute(deprecated, synthetic) }
    fn visit_exceptions(&mut self, exceptions: Vec<ClassName>) -> Result<()> { self.inner.visit_exceptions(exceptions) }
    fn visit_signature(&mut self, signature: MethodSignature) -> Result<()> { self.inner.visit_signature(signature) }
    fn visit_annotations(self, visible: bool) -> Result<(Self::AnnotationsResidual, Self::AnnotationsVisitor)> { let (s, i) = self.split(); let (r, v) = i.visit_annotations(visible)?; Ok(((s, r), v)) }
    fn finish_annotations((s, r): Self::AnnotationsResidual, v: Self::AnnotationsVisitor) -> Result<Self> { Ok(HMethod::join(s, MethodVisitor::finish_annotations(r, v)?)) }
    fn visit_type_annotations(self, visible: bool) -> Result<(Self::TypeAnnotationsResidual, Self::TypeAnnotationsVisitor)> { let (s, i) = self.split(); let (r, v) = i.visit_type_annotations(visible)?; Ok(((s, r), v)) }
    fn finish_type_annotations((s, r): Self::TypeAnnotationsResidual, v: Self::TypeAnnotationsVisitor) -> Result<Self> { Ok(HMethod::join(s, MethodVisitor::finish_type_annotations(r, v)?)) }
    fn visit_annotation_default(self) -> Result<(Self::AnnotationDefaultResidual, Self::AnnotationDefaultVisitor)> { let (s, i) = self.split(); let (r, v) = i.visit_annotation_default()?; Ok(((s, r), v)) }
    fn finish_annotation_default((s, r): Self::AnnotationDefaultResidual, v: Self::AnnotationDefaultVisitor) -> Result<Self> { Ok(HMethod::join(s, MethodVisitor::finish_annotation_default(r, v)?)) }
    fn visit_parameters(&mut self, method_parameters: Vec<MethodParameter>) -> Result<()> { self.inner.visit_parameters(method_parameters) }
    fn visit_annotable_parameter_count(&mut self) {}
    fn visit_parameter_annotation(&mut self) {}
    fn visit_unknown_attribute(&mut self, a: Self::UnknownAttribute) -> Result<()> { self.inner.visit_unknown_attribute(a) }
    fn visit_code(&mut self) -> Result<Option<Self::CodeVisitor>> {
        self.code_visits += 1;
        if self.decline_code { return Ok(None); }
        let mask = self.code;
        Ok(self.inner.visit_code()?.map(|inner| HCode { mask, inner }))
    }
    fn finish_code(&mut self, c: Self::CodeVisitor) -> Result<()> { self.inner.finish_code(c.inner) }
}

pub struct HCode { mask: CodeMask, inner: Code }
impl CodeVisitor for HCode {
    type TypeAnnotationsVisitor = <Code as CodeVisitor>::TypeAnnotationsVisitor;
    type TypeAnnotationsResidual = (CodeMask, <Code as CodeVisitor>::TypeAnnotationsResidual);
    type UnknownAttribute = <Code as CodeVisitor>::UnknownAttribute;
    fn interests(&self) -> CodeInterests {
        let m = self.mask;
        CodeInterests { stack_map_table: m.stack_map_table, line_number_table: m.line_number_table, local_variable_table: m.local_variable_table, local_variable_type_table: m.local_variable_type_table,
            runtime_visible_type_annotations: m.runtime_visible_type_annotations, runtime_invisible_type_annotations: m.runtime_invisible_type_annotations, unknown_attributes: m.unknown_attributes }
    }
    fn visit_max_stack_and_max_locals(&mut self, max_stack: u16, max_locals: u16) -> Result<()> { self.inner.visit_max_stack_and_max_locals(max_stack, max_locals) }
    fn visit_exception_table(&mut self, t: Vec<Exception>) -> Result<()> { self.inner.visit_exception_table(t) }
    fn visit_instruction(&mut self, label: Option<Label>, frame: Option<StackMapData>, instruction: Instruction) -> Result<()> { self.inner.visit_instruction(label, frame, instruction) }
    fn visit_last_label(&mut self, l: Label) -> Result<()> { self.inner.visit_last_label(l) }
    fn visit_line_numbers(&mut self, t: Vec<(Label, u16)>) -> Result<()> { self.inner.visit_line_numbers(t) }
    fn visit_local_variables(&mut self, t: Vec<Lv>) -> Result<()> { self.inner.visit_local_variables(t) }
    fn visit_type_annotations(self, visible: bool) -> Result<(Self::TypeAnnotationsResidual, Self::TypeAnnotationsVisitor)> { let (r, v) = self.inner.visit_type_annotations(visible)?; Ok(((self.mask, r), v)) }
    fn finish_type_annotations((mask, r): Self::TypeAnnotationsResidual, v: Self::TypeAnnotationsVisitor) -> Result<Self> { Ok(HCode { mask, inner: CodeVisitor::finish_type_annotations(r, v)? }) }
    fn visit_unknown_attribute(&mut self, a: Self::UnknownAttribute) -> Result<()> { self.inner.visit_unknown_attribute(a) }
}

/// what the simple visitor saw, in the oracle's vocabulary (one entry per class it was offered)
pub fn observations(v: SimpleMulti) -> Vec<Obs> {
    let mut out = vec![];
    let mut finished = v.finished.into_iter();
    for (version, access, name, super_class, interfaces) in v.headers {
        let (major, minor) = duke::verif::version(&version);
        let hdr = ClassHdr { major, minor, access: access.into(), this_class: js(name.as_inner()), super_class: super_class.as_ref().map(|s| js(s.as_inner())), interfaces: interfaces.iter().map(|i| js(i.as_inner())).collect(), declined: false };
        let mut offered = Offered { classes: vec![hdr], ..Default::default() };
        let mut built = vec![];
        if let Some(p) = finished.next() {
            offered.fields = p.offered_fields; offered.methods = p.offered_methods; offered.code = p.code_visits;
            let mut cf = ClassFile::new(version, access, name, super_class, interfaces);
            cf.fields = p.fields; cf.methods = p.methods;
            built.push(cf::project::project(&cf));
        }
        out.push(Obs { offered, built });
    }
    out
}
