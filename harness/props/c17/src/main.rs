//! C17 — partial and replaying visitors observe the same facts as a full read.
//!
//! Observed: `duke::read_class_multi` with mask-configurable tree visitors (duke::verif::Masked), with `()`, with a
//! harness-defined SimpleClassVisitor, with `Vec<ClassFile>` over concatenated classes; `ClassFile::accept` (replay).
//! Oracle: R-visitor of DESIGN.md 9a (src/oracle.rs): F = projection of the full read, E = F restricted to interest(K) (every member by its own mask),
//! computed from F and K alone; stream position = byte length of the class as emitted / as parsed by the independent parser.
mod dense;
mod mask;
mod oracle;
mod simple;

use cf::{emit, features, gen, model::*, parse, project};
use common::{par::*, report::{finish, Meta}, *};
use duke::tree::class::ClassFile;
use duke::verif::{Masked, Offer};
use mask::{bit, bit_name, Level, Pat, Shape, BITS, CATEGORIES, FIRST_PER, K, MEMBER_LEVELS, NBITS, PER_PATS};
use oracle::{full_obs, judge, ClassHdr, MemberHdr, Obs, Offered, Problem};
use std::io::{Cursor, Read, Seek, SeekFrom};

// ------------------------------------------------------------------------------------------------ subjects

/// one class file together with everything the oracle needs to know about it
struct Subject { name: String, bytes: Vec<u8>, model: Class, tree: ClassFile, full: Class, feats: std::collections::BTreeSet<String>, /// member counts / which methods have Code, for drawing per-member masks
    shape: Shape }

fn template(msg: &str) -> String {
    let mut out = String::new(); let mut in_q = false; let mut in_num = false;
    for c in msg.chars() {
        if c == '"' { in_q = !in_q; if in_q { out.push_str("\"..\""); } continue; }
        if in_q { continue; }
        if c.is_ascii_digit() { if !in_num { out.push('#'); in_num = true; } continue; }
        in_num = false; out.push(c);
    }
    out.chars().take(100).collect()
}

/// Err(reason) = the FULL read does not succeed on this class: C01's business, the case is skipped (and counted)
fn subject(name: String, bytes: Vec<u8>, model: Class) -> Result<Subject, String> {
    let tree = match guard(|| duke::read_class(&mut Cursor::new(&bytes[..]))) { Ok(Ok(t)) => t, Ok(Err(e)) => return Err(format!("full read fails: {}", template(&format!("{e:#}")))), Err(p) => return Err(format!("full read panics: {}", p.site())) };
    let full = project::project(&tree);
    let feats = features::features(&model);
    let shape = Shape { fields: model.fields.len(), methods: model.methods.len(), records: model.record.as_ref().map(|r| r.len()).unwrap_or(0), has_code: model.methods.iter().map(|m| m.code.is_some()).collect() };
    Ok(Subject { name, bytes, model, tree, full, feats, shape })
}

// ------------------------------------------------------------------------------------------------ stream wrapper

/// Read + Seek over a byte slice that keeps its own account of the position (independent of Cursor::position)
struct Tracked<'a> { inner: Cursor<&'a [u8]>, pos: u64, max_touched: u64, reads: u64, seeks: u64, /// hand the bytes out in short reads (legal for any `Read`): every third stream
    short: bool }
impl<'a> Tracked<'a> { fn new(b: &'a [u8], start: u64) -> Tracked<'a> { let mut inner = Cursor::new(b); inner.set_position(start); Tracked { inner, pos: start, max_touched: start, reads: 0, seeks: 0, short: common::rng::fnv(b) % 3 == 0 } } }
impl Read for Tracked<'_> {
    fn read(&mut self, buf: &mut [u8]) -> std::io::Result<usize> {
        let lim = if self.short && !buf.is_empty() { (1 + ((self.pos as usize).wrapping_mul(7) + self.reads as usize) % 5).min(buf.len()) } else { buf.len() };
        let n = self.inner.read(&mut buf[..lim])?; self.pos += n as u64; self.reads += 1; if self.pos > self.max_touched { self.max_touched = self.pos; } Ok(n)
    }
}
impl Seek for Tracked<'_> {
    fn seek(&mut self, to: SeekFrom) -> std::io::Result<u64> {
        self.seeks += 1;
        let p = self.inner.seek(to)?;
        // own account: recompute from the request, then compare with what the cursor says
        let mine = match to { SeekFrom::Start(p) => p as i128, SeekFrom::Current(d) => self.pos as i128 + d as i128, SeekFrom::End(d) => self.inner.get_ref().len() as i128 + d as i128 };
        if mine != p as i128 { eprintln!("HARNESS-ERROR position accounting of the tracking reader disagrees with Cursor ({mine} vs {p})"); std::process::exit(3); }
        self.pos = p; Ok(p)
    }
}

// ------------------------------------------------------------------------------------------------ running visitors

#[derive(Clone, Debug)]
enum Visitor { Masked(K), Simple(K), Unit, Full }
impl Visitor {
    fn name(&self) -> &'static str { match self { Visitor::Masked(_) => "masked tree visitor", Visitor::Simple(_) => "SimpleClassVisitor", Visitor::Unit => "() visitor", Visitor::Full => "Vec<ClassFile> visitor" } }
    fn k(&self) -> Option<&K> { match self { Visitor::Masked(k) | Visitor::Simple(k) => Some(k), _ => None } }
}

fn hdr(o: &Offer) -> Option<ClassHdr> {
    if let Offer::Class { version, access, name, super_class, interfaces, declined } = o {
        let (major, minor) = duke::verif::version(version);
        Some(ClassHdr { major, minor, access: (*access).into(), this_class: project::js(name.as_inner()), super_class: super_class.as_ref().map(|s| project::js(s.as_inner())), interfaces: interfaces.iter().map(|i| project::js(i.as_inner())).collect(), declined: *declined })
    } else { None }
}
fn masked_obs(m: &Masked) -> Obs {
    let mut o = Offered::default();
    for off in &m.offers {
        match off {
            Offer::Class { .. } => { if let Some(h) = hdr(off) { o.classes.push(h); } }
            Offer::Field { access, name, descriptor, declined } => o.fields.push(MemberHdr { access: (*access).into(), name: project::js(name.as_inner()), desc: project::js(descriptor.as_inner()), declined: *declined }),
            Offer::Method { access, name, descriptor, declined } => o.methods.push(MemberHdr { access: (*access).into(), name: project::js(name.as_inner()), desc: project::js(descriptor.as_inner()), declined: *declined }),
            Offer::RecordComponent { name, descriptor, declined } => o.records.push(MemberHdr { access: 0, name: project::js(name.as_inner()), desc: project::js(descriptor.as_inner()), declined: *declined }),
            Offer::Code { method, visits, declined } => o.code.push((*method, *visits, *declined)),
        }
    }
    Obs { offered: o, built: m.classes.iter().map(project::project).collect() }
}

/// the K a SimpleClassVisitor probe behaves like: class level only members, fields with the full tree builder
fn simple_k(k: &K) -> K {
    let mut s = k.clone();
    for i in 0..NBITS { match BITS[i].0 { Level::Class => s.bits[i] = BITS[i].1 == "fields" || BITS[i].1 == "methods", Level::Field => s.bits[i] = true, Level::Record => s.bits[i] = false, _ => {} } }
    s.decline_class = false; s.records = Pat::None;
    // fields go into duke's full `Field` builder, there are no record components: only methods and Code have masks of their own
    s.per_field.clear(); s.per_record.clear();
    s
}
fn simple_cfg(k: &K, s: &Subject) -> simple::SimpleCfg {
    simple::SimpleCfg { decline_fields: k.fields.expand(s.full.fields.len()), decline_methods: k.methods.expand(s.full.methods.len()), decline_code: k.code.expand(s.full.methods.len()), method: k.method_interests(), code: k.code_mask(), method_overrides: k.method_overrides(), code_overrides: k.code_overrides() }
}

struct ReadResult { outcome: Result<Option<Obs>, String>, pos_cursor: u64, pos_tracked: u64, max_touched: u64 }

/// one `read_class_multi` call on `stream` starting at `start`, with a fresh visitor of the given kind
fn read_with(stream: &[u8], start: u64, v: &Visitor, s: &Subject) -> Result<ReadResult, PanicInfo> {
    guard(|| {
        let mut t = Tracked::new(stream, start);
        let n = (s.full.fields.len(), s.full.methods.len(), s.full.record.as_ref().map(|r| r.len()).unwrap_or(0));
        let outcome = match v {
            Visitor::Masked(k) => duke::read_class_multi(&mut t, Masked::new(k.to_mask(n.0, n.1, n.2))).map(|m| Some(masked_obs(&m))),
            Visitor::Simple(k) => duke::read_class_multi(&mut t, simple::SimpleMulti::new(simple_cfg(k, s))).map(|m| simple::observations(m).into_iter().next()),
            Visitor::Unit => duke::read_class_multi(&mut t, ()).map(|_| None),
            Visitor::Full => duke::read_class_multi(&mut t, Vec::<ClassFile>::new()).map(|v| Some(Obs { offered: Offered::default(), built: v.iter().map(project::project).collect() })),
        }.map_err(|e| format!("{e:#}"));
        ReadResult { outcome, pos_cursor: t.inner.position(), pos_tracked: t.pos, max_touched: t.max_touched }
    })
}

/// problems of one read of subject `s` located at `start..end` of `stream`
fn problems_of_read(stream: &[u8], start: u64, end: u64, v: &Visitor, s: &Subject) -> Vec<Problem> {
    let mut out = vec![];
    match read_with(stream, start, v, s) {
        Err(p) => out.push(Problem { key: format!("panic {}", p.site()), detail: json!({"panic": p.message, "at": format!("{}:{}", p.file, p.line)}) }),
        Ok(r) => {
            if r.pos_cursor != r.pos_tracked { eprintln!("HARNESS-ERROR tracking reader and cursor disagree after a read"); std::process::exit(3); }
            match r.outcome {
                Err(e) => out.push(Problem { key: "the read fails although the full read of the same class succeeds".into(), detail: json!({"error": e, "cursor_after": r.pos_cursor, "class_start": start, "class_end": end}) }),
                Ok(obs) => {
                    if r.pos_cursor != end {
                        out.push(Problem { key: format!("cursor is not at the end of the class after the read ({})", if r.pos_cursor < end { "before the end" } else { "past the end" }), detail: json!({"cursor_after": r.pos_cursor, "class_start": start, "class_end": end, "off_by": r.pos_cursor as i64 - end as i64}) });
                    }
                    match (v, obs) {
                        (Visitor::Masked(k), Some(o)) => out.extend(judge(&s.full, k, &o)),
                        (Visitor::Simple(k), Some(mut o)) => { for b in o.built.iter_mut() { b.deprecated = s.full.deprecated; b.synthetic = s.full.synthetic; } out.extend(judge(&s.full, &simple_k(k), &o)) } // the blanket ClassVisitor impl of a SimpleClassVisitor drops Deprecated / Synthetic of the class: nothing to compare
                        (Visitor::Simple(_), None) => out.push(Problem { key: "visit_class called 0 times for one class".into(), detail: json!({}) }),
                        (Visitor::Full, Some(o)) => { if o.built.len() != 1 || o.built[0] != s.full { out.push(Problem { key: "Vec<ClassFile> visitor on the stream does not get the class of the single read".into(), detail: json!({"classes": o.built.len()}) }); } }
                        _ => {}
                    }
                }
            }
        }
    }
    out
}

fn replay_obs(s: &Subject, k: &K) -> Result<Result<Obs, String>, PanicInfo> {
    guard(|| {
        let n = (s.full.fields.len(), s.full.methods.len(), s.full.record.as_ref().map(|r| r.len()).unwrap_or(0));
        s.tree.clone().accept(Masked::new(k.to_mask(n.0, n.1, n.2))).map(|m| masked_obs(&m)).map_err(|e| format!("{e:#}"))
    })
}
fn problems_of_replay(s: &Subject, k: &K) -> Vec<Problem> {
    match replay_obs(s, k) {
        Err(p) => vec![Problem { key: format!("panic {}", p.site()), detail: json!({"panic": p.message}) }],
        Ok(Err(e)) => vec![Problem { key: "replay into the visitor fails".into(), detail: json!({"error": e}) }],
        Ok(Ok(o)) => judge(&s.full, k, &o),
    }
}

/// The smallest set of deviations from the full-interest / accept-everything visitor under which a problem with the
/// same key still occurs (greedy, category by category; then bit by bit inside a single interest category).
fn trigger(k: &K, shape: &Shape, still: &dyn Fn(&K) -> bool) -> (String, K) {
    let mut cur = k.clone();
    // a per-member category is removed by giving every member one and the same mask (the common one, or the one of some member):
    // a problem that persists then does not need per-member answers (K::reductions)
    for c in 0..CATEGORIES.len() { if cur.has_category(c) { if let Some(t) = cur.reductions(c).into_iter().find(|t| still(t)) { cur = t; } } }
    // a per-member category that stays: drop the masks of the single members that are not needed (shows in the minimal mask only)
    for (j, level) in MEMBER_LEVELS.iter().enumerate() {
        if !cur.has_category(FIRST_PER + j) { continue; }
        for o in 0..cur.per(*level).len() { if cur.per(*level)[o].is_some() { let t = cur.without_member_mask(*level, o); if still(&t) { cur = t; } } }
    }
    // Which member's answer a faulty reader reuses shifts with the accept / decline choices, so the greedy result may keep declines (or the
    // masks of another level) that only move the fault onto a member where it shows. If one of the plainest per-member visitors of that level
    // (K::probe: full interest, everything accepted) has a problem of the same kind on this class, the per-member answers alone are the trigger.
    if (FIRST_PER..CATEGORIES.len()).any(|c| cur.has_category(c)) && (0..CATEGORIES.len()).filter(|c| cur.has_category(*c) && !(*c >= 1 && *c < 5 && cur.has_category(FIRST_PER + *c - 1))).count() > 1 {
        'probes: for (j, level) in MEMBER_LEVELS.iter().enumerate() {
            if !cur.has_category(FIRST_PER + j) { continue; }
            for kind in 0..3 { let t = K::probe(*level, kind, shape); if still(&t) { cur = t; break 'probes; } }
        }
    }
    let cats: Vec<usize> = (0..CATEGORIES.len()).filter(|c| cur.has_category(*c)).collect();
    if cats.is_empty() { return ("none: also with the full-interest, accept-everything visitor".into(), cur); }
    let mut names: Vec<String> = vec![];
    for c in &cats {
        if *c < 5 {
            // which flags are off in the common mask is part of the per-member masks of that level when those are needed: named once, below
            if *c >= 1 && cats.contains(&(FIRST_PER + *c - 1)) { continue; }
            let level = [Level::Class, Level::Field, Level::Method, Level::Code, Level::Record][*c];
            for i in 0..NBITS { if BITS[i].0 == level && !cur.bits[i] { let mut t = cur.clone(); t.bits[i] = true; if still(&t) { cur = t; } } }
            let off: Vec<usize> = (0..NBITS).filter(|i| BITS[*i].0 == level && !cur.bits[*i]).collect();
            if off.len() == 1 { names.push(format!("interest {} off", bit_name(off[0]))); } else { names.push(format!("{} (several flags)", CATEGORIES[*c])); }
        } else { names.push(CATEGORIES[*c].to_string()); }
    }
    (names.join(" + "), cur)
}

/// coarse class of an observation: what kind of thing went wrong, independent of where a derailed parse happened to stop
fn coarse(key: &str) -> &'static str { if key.starts_with("cursor is not at the end") { "cursor" } else { "disturbed" } }
fn fatal(key: &str) -> bool { key.starts_with("panic") || key.starts_with("the read fails") || key.starts_with("replay into the visitor fails") }

/// Reports the problems of one evaluation. Signatures:
///  * the problem also occurs with the full-interest / accept-everything visitor, or the mode is replay: `C17 <mode> (<visitor>): <key>` (fact path / panic site included)
///  * a read that goes wrong only under some deviation (the trigger, found by minimising the mask), or a replay that goes wrong only when the
///    members of a list answer `interests()` differently: `C17 <mode> (<visitor>) [trigger: ..]: <coarse observation>`.
///    After a skip that went wrong the parse fails, panics or delivers garbage wherever it happens to stop, so error text / fact path are detail, not signature.
fn report(rep: &mut Report, mode: &str, v: &Visitor, s: &Subject, problems: Vec<Problem>, rerun: &dyn Fn(&K) -> Vec<Problem>, extra: Value) {
    if problems.is_empty() { return; }
    for class in ["cursor", "disturbed"] {
        let mut mine: Vec<&Problem> = problems.iter().filter(|p| coarse(&p.key) == class).collect();
        if mine.is_empty() { continue; }
        // an error or a panic ends the read: the facts of that read are not there to be judged
        if let Some(f) = mine.iter().find(|p| fatal(&p.key)).copied() { mine = vec![f]; }
        let (trig, min_k) = match v.k() {
            Some(k) => { let (t, mk) = trigger(k, &s.shape, &|t: &K| rerun(t).iter().any(|p| coarse(&p.key) == class)); (Some(t), Some(mk)) }
            None => (None, None),
        };
        let detail = |p: &Problem| json!({"class": s.name, "input_hex": hex(&s.bytes), "mask": v.k().map(|k| k.to_json()), "minimal_mask": min_k.as_ref().map(|k| k.to_json()), "observed": p.key, "problem": p.detail, "context": extra});
        let untriggered = trig.as_ref().is_none_or(|t| t.starts_with("none"));
        // a replay problem keeps its fact path, except when it needs per-member answers: which facts go wrong then depends on the flags the
        // OTHER member happened to have, so the fact path is detail there as well
        let per_member = trig.as_ref().is_some_and(|t| t.contains("per-member"));
        if untriggered || (mode == "replay" && !per_member) {
            let t = match &trig { Some(t) if !t.starts_with("none") => format!(" [trigger: {t}]"), _ => String::new() };
            for p in mine.iter().take(4) { rep.violation(format!("C17 {mode} ({}): {}{}", v.name(), p.key, t), detail(p)); }
        } else {
            let what = if class == "cursor" { mine[0].key.clone() } else if mode == "replay" { "the replay fails, panics, or delivers facts that differ from the full read".to_string() } else { "the read is disturbed: it fails, panics, or delivers facts that differ from the full read".to_string() };
            rep.violation(format!("C17 {mode} ({}) [trigger: {}]: {}", v.name(), trig.unwrap_or_default(), what), detail(mine[0]));
        }
    }
}

// ------------------------------------------------------------------------------------------------ coverage accounting

struct Cov { on: [u64; NBITS], off: [u64; NBITS] }
fn class_has(m: &Class, n: &str) -> bool {
    match n {
        "inner_classes" => m.inner_classes.is_some(), "enclosing_method" => m.enclosing_method.is_some(), "signature" => m.signature.is_some(),
        "source_file" => m.source_file.is_some(), "source_debug_extension" => m.source_debug_extension.is_some(),
        "runtime_visible_annotations" => !m.vis_annotations.is_empty(), "runtime_invisible_annotations" => !m.invis_annotations.is_empty(),
        "runtime_visible_type_annotations" => !m.vis_type_annotations.is_empty(), "runtime_invisible_type_annotations" => !m.invis_type_annotations.is_empty(),
        "module" => m.module.is_some(), "module_packages" => m.module_packages.is_some(), "module_main_class" => m.module_main_class.is_some(),
        "nest_host" => m.nest_host.is_some(), "nest_members" => m.nest_members.is_some(), "permitted_subclasses" => m.permitted_subclasses.is_some(),
        "record" => m.record.as_ref().is_some_and(|r| !r.is_empty()), "unknown_attributes" => !m.unknown.is_empty(), "fields" => !m.fields.is_empty(), "methods" => !m.methods.is_empty(),
        _ => false,
    }
}
fn field_has(f: &Field, n: &str) -> bool {
    match n { "constant_value" => f.constant_value.is_some(), "signature" => f.signature.is_some(), "runtime_visible_annotations" => !f.vis_annotations.is_empty(), "runtime_invisible_annotations" => !f.invis_annotations.is_empty(),
        "runtime_visible_type_annotations" => !f.vis_type_annotations.is_empty(), "runtime_invisible_type_annotations" => !f.invis_type_annotations.is_empty(), "unknown_attributes" => !f.unknown.is_empty(), _ => false }
}
fn method_has(f: &Method, n: &str) -> bool {
    match n { "code" => f.code.is_some(), "exceptions" => f.exceptions.is_some(), "signature" => f.signature.is_some(), "runtime_visible_annotations" => !f.vis_annotations.is_empty(), "runtime_invisible_annotations" => !f.invis_annotations.is_empty(),
        "runtime_visible_type_annotations" => !f.vis_type_annotations.is_empty(), "runtime_invisible_type_annotations" => !f.invis_type_annotations.is_empty(),
        "runtime_visible_parameter_annotations" => f.vis_param_annotations.is_some(), "runtime_invisible_parameter_annotations" => f.invis_param_annotations.is_some(),
        "annotation_default" => f.annotation_default.is_some(), "method_parameters" => f.method_parameters.is_some(), "unknown_attributes" => !f.unknown.is_empty(), _ => false }
}
fn code_has(c: &Code, n: &str) -> bool {
    match n { "stack_map_table" => c.frames.is_some(), "line_number_table" => c.line_numbers.is_some(), "local_variable_table" => c.lvt.is_some(), "local_variable_type_table" => c.lvtt.is_some(),
        "runtime_visible_type_annotations" => !c.vis_type_annotations.is_empty(), "runtime_invisible_type_annotations" => !c.invis_type_annotations.is_empty(), "unknown_attributes" => !c.unknown.is_empty(), _ => false }
}
fn rec_has(r: &RecordComponent, n: &str) -> bool {
    match n { "signature" => r.signature.is_some(), "runtime_visible_annotations" => !r.vis_annotations.is_empty(), "runtime_invisible_annotations" => !r.invis_annotations.is_empty(),
        "runtime_visible_type_annotations" => !r.vis_type_annotations.is_empty(), "runtime_invisible_type_annotations" => !r.invis_type_annotations.is_empty(), "unknown_attributes" => !r.unknown.is_empty(), _ => false }
}
/// is an item governed by interest bit `i` present in member `j` of its level?
fn member_has(m: &Class, j: usize, i: usize) -> bool {
    let (level, name) = BITS[i];
    match level {
        Level::Field => m.fields.get(j).is_some_and(|f| field_has(f, name)), Level::Method => m.methods.get(j).is_some_and(|f| method_has(f, name)),
        Level::Code => m.methods.get(j).and_then(|f| f.code.as_ref()).is_some_and(|c| code_has(c, name)),
        Level::Record => m.record.as_ref().and_then(|r| r.get(j)).is_some_and(|r| rec_has(r, name)), Level::Class => false,
    }
}
/// Is an item governed by interest bit `i` present where a visitor with mask `k` gets to see it (accepted class / member; for the
/// code flags a Code that is read), (a) at a place that answers the flag ON, (b) at a place that answers it OFF? Per member: its own mask.
fn present(m: &Class, shape: &Shape, k: &K, i: usize) -> (bool, bool) {
    if k.decline_class { return (false, false); }
    let (level, name) = BITS[i];
    if level == Level::Class { let has = class_has(m, name); return (has && k.bits[i], has && !k.bits[i]); }
    let reach = k.reach(level, shape);
    let (mut on, mut off) = (false, false);
    for j in 0..reach.len() { if reach[j] && member_has(m, j, i) { if k.bit_at(j, i) { on = true; } else { off = true; } } }
    (on, off)
}
/// per-member masks: what was exercised. Counted for a level only when >= 2 members get to it (accepted; Code: read) and the list is of interest.
fn pm_account(rep: &mut Report, m: &Class, shape: &Shape, k: &K, who: &str) {
    for level in MEMBER_LEVELS {
        if k.per(level).iter().all(|o| o.is_none()) { continue; }
        let list_on = match level { Level::Field => k.on(Level::Class, "fields"), Level::Record => k.on(Level::Class, "record"), _ => k.on(Level::Class, "methods") };
        if !list_on { continue; }
        let reach = k.reach(level, shape);
        let r: Vec<usize> = (0..reach.len()).filter(|j| reach[*j]).collect();
        if r.len() < 2 { continue; }
        let name = level.name();
        if r[1..].iter().any(|b| k.differ_at(level, r[0], *b)) { rep.count(&format!("pm.{who}.{name}.masks_differ")); }
        // the deciding item: member b has an item, declares interest in it, and member a (earlier) declared none in that kind
        let decides = |a: usize, b: usize| (0..NBITS).any(|i| BITS[i].0 == level && !k.bit_at(a, i) && k.bit_at(b, i) && member_has(m, b, i));
        let vs_first = r[1..].iter().any(|b| decides(r[0], *b));
        let vs_prev = r.windows(2).any(|w| decides(w[0], w[1]));
        if vs_first { rep.count(&format!("pm.{who}.{name}.later_wants_more_than_first")); }
        if vs_prev { rep.count(&format!("pm.{who}.{name}.wants_more_than_previous")); }
        let first_declined = match level { Level::Field => k.fields.expand(shape.fields), Level::Record => k.records.expand(shape.records), _ => k.methods.expand(shape.methods) }.first().copied().unwrap_or(false);
        if first_declined && (vs_first || vs_prev) { rep.count(&format!("pm.{who}.{name}.first_declined_later_differ")); }
        if level == Level::Code || level == Level::Method {
            let refused_first = !first_declined && k.code.expand(shape.methods).first().copied().unwrap_or(false) && shape.has_code.first().copied().unwrap_or(false) && k.on_at(Level::Method, 0, "code");
            if refused_first && level == Level::Code && (vs_first || vs_prev) { rep.count(&format!("pm.{who}.code.first_code_refused_later_differ")); }
            if refused_first && level == Level::Method && (vs_first || vs_prev) { rep.count(&format!("pm.{who}.method.first_code_refused_later_differ")); }
        }
    }
}
fn account(cov: &mut Cov, rep: &mut Report, s: &Subject, k: &K, who: &str) {
    for i in 0..NBITS { let (on, off) = present(&s.model, &s.shape, k, i); if on { cov.on[i] += 1; } if off { cov.off[i] += 1; } }
    if k.decline_class { rep.count(&format!("decline.{who}.class")); return; }
    if k.has_per_member() { rep.count(&format!("pm.{who}.masks")); for (level, pat) in &k.drawn { if k.has_category(FIRST_PER + MEMBER_LEVELS.iter().position(|l| l == level).unwrap_or(0)) { rep.count(&format!("pm.{who}.pattern.{}", pat.name())); } } pm_account(rep, &s.model, &s.shape, k, who); }
    let nrec = s.model.record.as_ref().map(|r| r.len()).unwrap_or(0);
    for (kind, pat, n) in [("field", &k.fields, s.model.fields.len()), ("method", &k.methods, s.model.methods.len()), ("record_component", &k.records, nrec), ("code", &k.code, s.model.methods.len())] {
        if kind == "record_component" && !k.on(Level::Class, "record") { continue; }
        let d = pat.expand(n);
        if d.iter().any(|x| *x) {
            rep.count(&format!("decline.{who}.{kind}.{}", pat.name()));
            if let Some(first) = d.iter().position(|x| *x) { if d[first..].iter().any(|x| !*x) { rep.count(&format!("decline.{who}.{kind}.accepted_after_declined")); } }
        }
    }
}
fn flush(cov: &Cov, rep: &mut Report) { for i in 0..NBITS { if cov.on[i] > 0 { rep.add(&format!("interest.{}.on_with_item", bit_name(i)), cov.on[i]); } if cov.off[i] > 0 { rep.add(&format!("interest.{}.off_with_item", bit_name(i)), cov.off[i]); } } }

// ------------------------------------------------------------------------------------------------ per-class evaluation

/// Masks under which the members of one class get DIFFERENT answers from `interests()`, in rotation over the case index:
/// pattern (PER_PATS) x levels (fields / methods / Code / record components / all four / methods + Code) x accept / decline choices
/// (none, every decline pattern on the lists in question, `visit_code -> None` for the first method: 1, 7 and 2 of 10), on top of the all-interest or a random mask.
fn pm_masks(rng: &mut Rng, i: u64, count: usize, shape: &Shape, pats: &[Pat]) -> Vec<K> {
    let mut v = vec![];
    for j in 0..count {
        let x = (i as usize) * count + j;
        let pat = PER_PATS[x % PER_PATS.len()];
        let levels: &[Level] = match (x / PER_PATS.len()) % 6 { 0 => &[Level::Field], 1 => &[Level::Method], 2 => &[Level::Code], 3 => &[Level::Record], 4 => &MEMBER_LEVELS, _ => &[Level::Method, Level::Code] };
        let mut k = if x % 3 == 0 { K::random(rng) } else { K::all() };
        k.decline_class = false;
        // the lists and Code must be reached for the member masks to matter
        for n in ["fields", "methods", "record"] { k.bits[bit(Level::Class, n)] = true; }
        if x % 5 != 0 { k.bits[bit(Level::Method, "code")] = true; }
        let d = (x + x / 48) % (pats.len() + 3);
        if d == pats.len() + 2 || d == 1 { k.code = Pat::First; }
        else if d >= 2 {
            let p = pats[d - 2].clone();
            for level in levels { match level { Level::Field => k.fields = p.clone(), Level::Method => k.methods = p.clone(), Level::Record => k.records = p.clone(), _ => { if levels.len() == 1 || x % 2 == 0 { k.code = p.clone(); } } } }
        }
        // methods before Code: which Code attributes are read depends on the `code` flag of each method
        for level in levels { k.set_per(rng, *level, pat, shape); }
        v.push(k);
    }
    v
}

/// the masks tried on case `i`: all, none, single flags off / on in rotation, decline patterns in rotation, random ones; about one
/// third of them with per-member masks (every second decline / random mask gets them on top, plus `sizes.3` masks of `pm_masks`)
fn mask_plan(rng: &mut Rng, i: u64, sizes: (usize, usize, usize, usize), shape: &Shape) -> Vec<K> {
    let (singles, declines, randoms, per_member) = sizes;
    let mut v = vec![K::all(), K::none()];
    for j in 0..singles { let b = ((i as usize) * singles + j) % NBITS; let mut k = K::all(); k.bits[b] = false; v.push(k); let b2 = ((i as usize) * singles + j + 17) % NBITS; let mut k = K::none(); k.bits[b2] = true;
        // a flag below a member needs the member (and for code flags the Code) to be reached
        k.bits[bit(Level::Class, "fields")] = true; k.bits[bit(Level::Class, "methods")] = true; if BITS[b2].0 == Level::Code { k.bits[bit(Level::Method, "code")] = true; } if BITS[b2].0 == Level::Record { k.bits[bit(Level::Class, "record")] = true; }
        v.push(k); }
    let pats = [Pat::All, Pat::First, Pat::Last, Pat::Every { k: 2, offset: 0 }, Pat::Every { k: 2, offset: 1 }, Pat::Every { k: 3, offset: 1 }, Pat::Random(rng.next_u64())];
    for j in 0..declines {
        let x = (i as usize) * declines + j;
        let p = pats[x % pats.len()].clone();
        let mut k = if (x / pats.len()) % 2 == 0 { K::all() } else { K::random(rng) };
        match (x / pats.len()) % 4 { 0 => k.fields = p, 1 => k.methods = p, 2 => { k.records = p; k.bits[bit(Level::Class, "record")] = true; } _ => { k.fields = p.clone(); k.methods = p; } }
        if j % 2 == 1 { k.overlay_per(rng, shape); }
        v.push(k);
    }
    for j in 0..randoms { let mut k = K::random(rng); if j % 2 == 1 { k.overlay_per(rng, shape); } v.push(k); }
    v.extend(pm_masks(rng, i, per_member, shape, &pats));
    // declining a Code attribute (visit_code -> None) and declining the class: a few per case
    { let mut k = K::all(); k.code = pats[(i as usize) % pats.len()].clone(); v.push(k); }
    if i % 4 == 0 { let mut k = K::random(rng); k.code = Pat::random(rng); k.bits[bit(Level::Method, "code")] = true; if i % 8 == 0 { let pat = *rng.pick(&PER_PATS); if rng.bool() { k.set_per(rng, Level::Method, pat, shape); } k.set_per(rng, Level::Code, pat, shape); } v.push(k); }
    { let mut k = if i % 2 == 0 { K::all() } else { K::random(rng) }; k.decline_class = true; v.push(k); }
    v
}

fn evaluate_class(rep: &mut Report, rng: &mut Rng, s: &Subject, case: u64, sizes: (usize, usize, usize, usize), workload: &str) {
    let end = s.bytes.len() as u64;
    let mut cov = Cov { on: [0; NBITS], off: [0; NBITS] };
    let plan = mask_plan(rng, case, sizes, &s.shape);
    let mut partial = false;
    for k in &plan {
        // ---- read with the masked tree visitor
        let v = Visitor::Masked(k.clone());
        rep.eval(); rep.count("reads.masked"); rep.count("position.checked");
        let probs = problems_of_read(&s.bytes, 0, end, &v, s);
        if probs.is_empty() { rep.count("reads.masked.ok"); }
        report(rep, "read", &v, s, probs, &|t: &K| problems_of_read(&s.bytes, 0, end, &Visitor::Masked(t.clone()), s), json!({"workload": workload}));
        account(&mut cov, rep, s, k, "read");
        if k.bits.iter().any(|b| !*b) || k.fields != Pat::None || k.methods != Pat::None || k.records != Pat::None || k.decline_class || k.has_per_member() { partial = true; }
        // ---- replay of the full tree into the same kind of visitor
        rep.eval(); rep.count("replays.masked");
        let probs = problems_of_replay(s, k);
        if probs.is_empty() { rep.count("replays.masked.ok"); }
        report(rep, "replay", &v, s, probs, &|t: &K| problems_of_replay(s, t), json!({"workload": workload}));
        account(&mut Cov { on: [0; NBITS], off: [0; NBITS] }, rep, s, k, "replay");
    }
    flush(&cov, rep);
    // ---- () : must consume exactly one class
    { let v = Visitor::Unit; rep.eval(); rep.count("reads.unit"); rep.count("position.checked"); let p = problems_of_read(&s.bytes, 0, end, &v, s); report(rep, "read", &v, s, p, &|_| vec![], json!({"workload": workload})); }
    // ---- harness-defined SimpleClassVisitor with its own masked method / code visitors
    for j in 0..2 {
        let mut k = if j == 0 { K::all() } else { K::random(rng) };
        k.fields = Pat::random(rng); k.methods = Pat::random(rng); if rng.chance(1, 6) { k.code = Pat::random(rng); }
        // the harness-defined method / Code visitors answer per method as well: about every third probe
        if rng.chance(1, 3) {
            let pat = PER_PATS[(case as usize * 2 + j) % PER_PATS.len()];
            k.bits[bit(Level::Method, "code")] = true;
            let which = rng.below(3);
            if which != 1 { k.set_per(rng, Level::Method, pat, &s.shape); }
            if which != 0 { k.set_per(rng, Level::Code, pat, &s.shape); }
        }
        let v = Visitor::Simple(k.clone());
        rep.eval(); rep.count("reads.simple"); rep.count("position.checked");
        let p = problems_of_read(&s.bytes, 0, end, &v, s);
        if p.is_empty() { rep.count("reads.simple.ok"); }
        report(rep, "read", &v, s, p, &|t: &K| problems_of_read(&s.bytes, 0, end, &Visitor::Simple(t.clone()), s), json!({"workload": workload}));
        account(&mut Cov { on: [0; NBITS], off: [0; NBITS] }, rep, s, &simple_k(&k), "simple");
        // the same probe fed by replay of the full tree
        rep.eval(); rep.count("replays.simple");
        let replay_simple = |t: &K| -> Vec<Problem> {
            match guard(|| s.tree.clone().accept(simple::SimpleMulti::new(simple_cfg(t, s))).map(|m| simple::observations(m).into_iter().next()).map_err(|e| format!("{e:#}"))) {
                Err(p) => vec![Problem { key: format!("panic {}", p.site()), detail: json!({"panic": p.message}) }],
                Ok(Err(e)) => vec![Problem { key: "replay into the visitor fails".into(), detail: json!({"error": e}) }],
                Ok(Ok(None)) => vec![Problem { key: "visit_class called 0 times for one class".into(), detail: json!({}) }],
                Ok(Ok(Some(mut o))) => { for b in o.built.iter_mut() { b.deprecated = s.full.deprecated; b.synthetic = s.full.synthetic; } judge(&s.full, &simple_k(t), &o) }
            }
        };
        let p = replay_simple(&k);
        if p.is_empty() { rep.count("replays.simple.ok"); }
        report(rep, "replay", &v, s, p, &replay_simple, json!({"workload": workload}));
    }
    // ---- replay into the tree builder reproduces the class
    {
        rep.eval(); rep.count("replays.into_builder");
        match guard(|| s.tree.clone().accept(Vec::<ClassFile>::new()).map_err(|e| format!("{e:#}"))) {
            Err(p) => rep.violation(format!("C17 replay (Vec<ClassFile> visitor): panic {}", p.site()), json!({"class": s.name, "input_hex": hex(&s.bytes), "panic": p.message})),
            Ok(Err(e)) => rep.violation("C17 replay (Vec<ClassFile> visitor): replay into the tree builder fails", json!({"class": s.name, "input_hex": hex(&s.bytes), "error": e})),
            Ok(Ok(v)) => {
                if v.len() != 1 { rep.violation("C17 replay (Vec<ClassFile> visitor): replay into the tree builder does not produce exactly one class", json!({"class": s.name, "input_hex": hex(&s.bytes), "classes": v.len()})); }
                else {
                    let again = project::project(&v[0]);
                    if again != s.full { for d in cf::diff::diff(&s.full, &again, 4) { rep.violation(format!("C17 replay (Vec<ClassFile> visitor): rebuilt class differs from the replayed one at {}", d.signature()), json!({"class": s.name, "input_hex": hex(&s.bytes), "at": d.at, "tree": d.expected, "rebuilt": d.observed})); } }
                    else { rep.count("replays.into_builder.equal"); }
                    // "reproduces the class": besides the projected facts, the tree itself. Compared through Debug (the derived == says NaN != NaN);
                    // this sees what the fact model deliberately equates, e.g. a table that is present but empty (an event the reading visitor gets)
                    if again == s.full && s.bytes.len() <= 96 * 1024 {
                        let (a, b) = (format!("{:?}", s.tree), format!("{:?}", v[0]));
                        if a == b { rep.count("replays.into_builder.same_tree"); }
                        else {
                            let at = a.bytes().zip(b.bytes()).position(|(x, y)| x != y).unwrap_or(a.len().min(b.len()));
                            // the name of the nearest field before the first difference makes the signature (no instance data in it)
                            let field = a[..at].rfind(": ").map(|c| { let st = a[..c].rfind(|ch: char| !(ch.is_alphanumeric() || ch == '_')).map_or(0, |i| i + 1); a[st..c].to_string() }).unwrap_or_default();
                            let lo = at.saturating_sub(120); let ctx = |t: &str| t.get(lo..(at + 120).min(t.len())).unwrap_or("").to_string();
                            rep.violation(format!("C17 replay (Vec<ClassFile> visitor): rebuilt tree is not the replayed one although the facts agree (first difference near field `{field}`)"), json!({"class": s.name, "input_hex": hex(&s.bytes), "tree": ctx(&a), "rebuilt": ctx(&b)}));
                        }
                    }
                }
            }
        }
    }
    for f in &s.feats { let (set, member) = f.split_once('.').unwrap_or(("misc", f)); if set != "insn" && set != "const" && set != "ev" && set != "handle" && set != "local" { rep.seen(&format!("{workload}.{set}"), member); } }
    if partial && (!s.model.fields.is_empty() || !s.model.methods.is_empty() || s.model.module.is_some()) { rep.nontrivial(features::fingerprint(&s.feats) ^ common::rng::fnv_str(workload)); }
    if s.bytes.len() < 700 && plan.len() > 4 {
        rep.sample(|| { let k = &plan[plan.len() - 4]; let o = replay_obs(s, k).ok().and_then(|r| r.ok()); json!({"kind": "class x mask", "class": s.name, "bytes_hex": hex(&s.bytes), "mask": k.to_json(),
            "received_on_replay": o.map(|o| json!({"fields_offered": o.offered.fields.len(), "methods_offered": o.offered.methods.len(), "built": o.built})) }) });
    }
}

// ------------------------------------------------------------------------------------------------ generation

fn gen_subject(rng: &mut Rng, i: u64, small: bool) -> Result<Subject, String> {
    let mut cfg = gen::GenCfg::default();
    if small { cfg.max_insns = 12; cfg.max_methods = 3; cfg.max_fields = 3; }
    // rotate through the regions that need a particular version so that every interest flag meets an item early in the run
    match i % 8 { 1 => cfg.major = Some(*rng.pick(&[61, 65, 67])), 2 => cfg.major = Some(*rng.pick(&[55, 60, 61])), 3 => cfg.major = Some(52), _ => {} }
    let mut m = gen::gen_class(rng, &cfg);
    if i % 16 == 5 && m.module.is_none() {
        // a module descriptor (the shared generator makes one in about 3% of the classes only)
        if m.major < 53 { m.major = 61; m.minor = 0; }
        let mut g = gen::G { rng, cfg: &cfg, major: m.major };
        let module = g.module();
        m.access = 0x8000; m.this_class = JS::new("module-info"); m.super_class = None; m.interfaces.clear(); m.fields.clear(); m.methods.clear(); m.record = None;
        m.module = Some(module);
    }
    let p = match i % 4 { 0 => (1, 4), 1 => (1, 2), _ => (3, 4) };
    dense::densify(&mut m, rng, &cfg, if small { (1, 3) } else { p });
    // every fifth subject (never the module one) with names / descriptors / strings redrawn from cf::hostile
    if i % 5 == 2 && m.module.is_none() { let lm = if rng.chance(1, 25) { 5000 } else { 60 }; cf::hostile::hostilise(rng, &mut m, (1, 3), lm); }
    let layout = if i % 3 == 0 { emit::Layout::canonical() } else { let mut l = emit::Layout::random(rng.next_u64()); if rng.chance(1, 6) { l.pool_filler = 250 + rng.below(20); } l };
    let bytes = emit::emit(&m, &layout).map_err(|e| format!("emit: {}", template(&e)))?;
    // harness self-check: the independent parser reads the model back and agrees on the length
    match parse::parse_prefix(&bytes, false) {
        Ok(p) if p.class == m && p.consumed == bytes.len() => {}
        Ok(p) => { eprintln!("HARNESS-ERROR parse(emit(M)) != M or length differs ({} vs {}): {:?}", p.consumed, bytes.len(), cf::diff::diff(&m, &p.class, 3)); std::process::exit(3); }
        Err(e) => { eprintln!("HARNESS-ERROR parse(emit(M)) failed: {e}"); std::process::exit(3); }
    }
    subject(format!("generated#{i}{}", if layout.canonical { " canonical layout".to_string() } else { format!(" random layout seed={} filler={}", layout.seed, layout.pool_filler) }), bytes, m)
}

/// A small class for the Miri slice: cf::gen sized down + densify + names / descriptors / strings redrawn from cf::hostile
/// (NUL, surrogates, long names, class names filling a descriptor), emitted, self-checked and read in full like `gen_subject`.
fn slice_subject(rng: &mut Rng, i: u64, tiny: bool) -> Result<Subject, String> {
    let mut cfg = gen::GenCfg { max_insns: 4, max_methods: if tiny { 1 } else { 2 }, max_fields: if tiny { 1 } else { 2 }, ..gen::GenCfg::default() };
    match i % 4 { 1 => cfg.major = Some(*rng.pick(&[61, 65, 67])), 2 => cfg.major = Some(*rng.pick(&[55, 60, 61])), 3 => cfg.major = Some(52), _ => {} }
    let mut m = gen::gen_class(rng, &cfg);
    dense::densify(&mut m, rng, &cfg, if tiny { (1, 8) } else { (1, 5) });
    // densify grows the member lists to 0..7 each: too much for an interpreter; keep the first few
    m.fields.truncate(if tiny { 1 } else { 2 }); m.methods.truncate(if tiny { 1 } else { 2 });
    cf::hostile::hostilise(rng, &mut m, (1, 2), if i % 8 == 7 { 600 } else { 24 });
    let layout = if i % 2 == 0 { emit::Layout::canonical() } else { emit::Layout::random(rng.next_u64()) };
    let bytes = emit::emit(&m, &layout).map_err(|e| format!("emit: {}", template(&e)))?;
    match parse::parse_prefix(&bytes, false) {
        Ok(p) if p.class == m && p.consumed == bytes.len() => {}
        other => { eprintln!("HARNESS-ERROR miri slice: parse(emit(M)) != M or length differs (case {i}): {:?}", other.err()); std::process::exit(3); }
    }
    subject(format!("miri#{i}"), bytes, m)
}

/// `c17 --miri-slice <seed> <cases> <max seconds>`: single-threaded, no files. Every case builds one small class with hostile
/// names and reads it in full (duke::read_class). Case index mod 8:
///  0: the ordinary per-class evaluation (`evaluate_class`) with the shortest mask plan (all, none, declined Code, declined class):
///     read_class_multi and ClassFile::accept with the Masked visitors, (), SimpleClassVisitor, Vec<ClassFile> (14 evaluations);
///  4: two classes concatenated: a masked read at the non-zero offset and one Vec<ClassFile> visitor carried through both reads,
///     judged as in the streams workload;
///  others: one mask of the ordinary plan (decline patterns and random masks in rotation): masked read + masked replay, judged and
///     reported as in `evaluate_class`.
fn miri_slice(seed: u64, cases: usize, max_s: u64) -> i32 {
    let mut rep = Report::new();
    let deadline = std::time::Instant::now() + std::time::Duration::from_secs(max_s);
    let (mut i, mut classes, mut bytes_in, mut skipped) = (0u64, 0u64, 0usize, 0u64);
    while (i as usize) < cases && std::time::Instant::now() < deadline {
        let mut rng = Rng::new(common::rng::case_seed(seed, "C17/miri", i));
        rep.cur = ("miri".into(), i);
        if i % 8 == 0 {
            match slice_subject(&mut rng, i, true) {
                Err(_) => skipped += 1,
                Ok(s) => { classes += 1; bytes_in += s.bytes.len(); evaluate_class(&mut rep, &mut rng, &s, i + 1, (0, 0, 0, 0), "miri"); }
            }
        } else if i % 8 != 4 {
            match slice_subject(&mut rng, i, i % 2 == 1) {
                Err(_) => skipped += 1,
                Ok(s) => {
                    classes += 1; bytes_in += s.bytes.len();
                    let end = s.bytes.len() as u64;
                    let plan = mask_plan(&mut rng, i, (0, 2, 2, 1), &s.shape);
                    // plan[0], plan[1] = all, none (case 0 has them); then 2 decline patterns (the second with per-member masks on top), 2 random masks (likewise),
                    // 1 mask of `pm_masks`. The classes of the even cases have two fields / methods: they get the per-member ones.
                    let k = plan[match i % 8 { 1 => 2, 3 => 4, 5 => 5, 7 => 3, 2 => 6, _ => if i % 16 == 6 { 5 } else { 6 } }].clone();
                    if k.has_per_member() { rep.count("masks.per_member"); }
                    let v = Visitor::Masked(k.clone());
                    rep.eval(); rep.count("reads.masked");
                    let probs = problems_of_read(&s.bytes, 0, end, &v, &s);
                    if probs.is_empty() { rep.count("reads.masked.ok"); }
                    report(&mut rep, "read", &v, &s, probs, &|t: &K| problems_of_read(&s.bytes, 0, end, &Visitor::Masked(t.clone()), &s), json!({"workload": "miri"}));
                    rep.eval(); rep.count("replays.masked");
                    let probs = problems_of_replay(&s, &k);
                    if probs.is_empty() { rep.count("replays.masked.ok"); }
                    report(&mut rep, "replay", &v, &s, probs, &|t: &K| problems_of_replay(&s, t), json!({"workload": "miri"}));
                }
            }
        } else {
            let subjects: Vec<Subject> = (0..2).filter_map(|j| slice_subject(&mut rng, i * 2 + j, !(i % 16 == 4 && j == 1)).ok()).collect();
            if subjects.len() == 2 {
                let mut stream = vec![]; let mut bounds = vec![];
                for s in &subjects { let a = stream.len() as u64; stream.extend_from_slice(&s.bytes); bounds.push((a, stream.len() as u64)); }
                classes += 2; bytes_in += stream.len();
                // a masked read of the second class where it sits in the stream
                let (s, (a, b)) = (&subjects[1], bounds[1]);
                let v = Visitor::Masked(if i % 16 == 4 { let mut k = K::random(&mut rng); k.overlay_per(&mut rng, &s.shape); rep.count("masks.per_member"); k } else { K::random(&mut rng) });
                rep.eval(); rep.count("reads.in_stream");
                let probs = problems_of_read(&stream, a, b, &v, s);
                let alone = |t: &K| problems_of_read(&s.bytes, 0, s.bytes.len() as u64, &Visitor::Masked(t.clone()), s);
                let only_in_stream = !probs.is_empty() && v.k().is_some_and(|k| alone(k).is_empty());
                if only_in_stream { for p in probs.iter().take(2) { rep.violation(format!("C17 stream ({}): only when the class is not at the start of the stream: {}", v.name(), p.key), json!({"stream_hex": hex(&stream), "class_bounds": bounds, "problem": p.detail})); } }
                else { report(&mut rep, "read", &v, s, probs, &alone, json!({"workload": "miri streams", "class_bounds": bounds})); }
                // one Vec<ClassFile> visitor carried through both reads on one cursor
                rep.eval(); rep.count("streams.vec_visitor");
                let r = guard(|| {
                    let mut t = Tracked::new(&stream, 0);
                    let mut v: Vec<ClassFile> = vec![]; let mut pos = vec![];
                    for _ in 0..subjects.len() { match duke::read_class_multi(&mut t, v) { Ok(nv) => { v = nv; pos.push(t.pos); } Err(e) => return Err((format!("{e:#}"), pos)) } }
                    Ok((v, pos))
                });
                let detail = |x: Value| json!({"stream_hex": hex(&stream), "class_bounds": bounds, "observed": x});
                match r {
                    Err(p) => rep.violation(format!("C17 stream (Vec<ClassFile> visitor): panic {}", p.site()), detail(json!(p.message))),
                    Ok(Err((e, pos))) => rep.violation("C17 stream (Vec<ClassFile> visitor): a successive read fails although every class reads alone", detail(json!({"error": e, "positions_after_reads": pos}))),
                    Ok(Ok((v, pos))) => {
                        let want: Vec<u64> = bounds.iter().map(|b| b.1).collect();
                        if pos != want { rep.violation("C17 stream (Vec<ClassFile> visitor): cursor is not at the end of the class after a successive read", detail(json!({"positions_after_reads": pos, "expected": want}))); }
                        else if v.len() != subjects.len() { rep.violation("C17 stream (Vec<ClassFile> visitor): k concatenated classes are not delivered one per read", detail(json!({"classes": v.len(), "reads": subjects.len()}))); }
                        else if let Some(j) = (0..v.len()).find(|j| project::project(&v[*j]) != subjects[*j].full) { rep.violation("C17 stream (Vec<ClassFile> visitor): class delivered by a successive read differs from reading it alone", detail(json!({"read_index": j}))); }
                        else { rep.count("streams.vec_visitor.ok"); }
                    }
                }
            } else { skipped += 1; }
        }
        i += 1;
    }
    for v in rep.violations.values() { println!("SLICE-OBSERVATION {} ({}x)", v.signature, v.count); }
    println!("MIRI-SLICE done cases={} (asked for {}) evaluations={} observations={} classes={} bytes_in={} skipped={} masked_reads={} (ok {}) masked_replays={} (ok {}) simple_reads={} simple_replays={} unit_reads={} replays_into_builder={} (equal {}) stream_reads={} vec_visitor_streams={} (ok {}) per_member_masks={}",
        i, cases, rep.evaluations, rep.violations.len(), classes, bytes_in, skipped, rep.get("reads.masked"), rep.get("reads.masked.ok"), rep.get("replays.masked"), rep.get("replays.masked.ok"), rep.get("reads.simple"), rep.get("replays.simple"), rep.get("reads.unit"),
        rep.get("replays.into_builder"), rep.get("replays.into_builder.equal"), rep.get("reads.in_stream"), rep.get("streams.vec_visitor"), rep.get("streams.vec_visitor.ok"), rep.get("masks.per_member"));
    0
}

/// Canaries for per-member masks (they use F and hand-made observations only, nothing of the reader): member 1 of a list declares no
/// interest, member 2 full interest (K_true). (1) Receiving everything is fine. (2) An observation in which member 2 was filtered with
/// member 1's mask (its items of that level are missing) must be flagged as "item of interest missing", and (3) must NOT be flagged
/// when judged against the mask that really has member 2 at no interest. (4) The trigger minimiser names the per-member category when
/// the problem needs two different answers, and falls back to the constant-mask name when one member's mask alone explains it.
fn per_member_canaries() {
    let fail = |what: String| -> ! { eprintln!("HARNESS-ERROR canary (per-member masks): {what}"); std::process::exit(3) };
    let mut rng = Rng::new(12);
    let mut kept: Vec<Subject> = vec![];
    let mut found: Vec<Option<usize>> = vec![None, None, None, None];
    let wanted = |level: Level, m: &Class| -> bool {
        let second = |i: usize| BITS[i].0 == level && member_has(m, 1, i);
        match level {
            Level::Code => m.methods.len() >= 2 && m.methods[0].code.is_some() && (0..NBITS).any(second),
            _ => (0..NBITS).any(|i| second(i) && BITS[i].1 != "code"),
        }
    };
    for i in 0..600u64 {
        if found.iter().all(|f| f.is_some()) { break; }
        if let Ok(s) = gen_subject(&mut rng, i, false) {
            let fits: Vec<usize> = (0..4).filter(|j| found[*j].is_none() && wanted(MEMBER_LEVELS[*j], &s.full) && wanted(MEMBER_LEVELS[*j], &s.model)).collect();
            if !fits.is_empty() { for j in fits { found[j] = Some(kept.len()); } kept.push(s); }
        }
    }
    for (j, level) in MEMBER_LEVELS.iter().enumerate() {
        let Some(s) = found[j].map(|x| &kept[x]) else { fail(format!("no generated class with an item in the second member at level {}", level.name())) };
        let f = &s.full;
        let lv = |v: bool| -> mask::Bits { let mut b = [false; NBITS]; for i in 0..NBITS { if BITS[i].0 == *level { b[i] = v; } } b };
        let with = |list: Vec<Option<mask::Bits>>| -> K { let mut k = K::all(); match level { Level::Field => k.per_field = list, Level::Method => k.per_method = list, Level::Code => k.per_code = list, _ => k.per_record = list } k };
        let k_true = with(vec![Some(lv(false)), Some(lv(true))]);
        let k_both_off = with(vec![Some(lv(false)), Some(lv(false))]);
        // (1) everything received: member 1 got more than it asked for, which is not judged; member 2 got what it asked for
        let p = judge(f, &k_true, &full_obs(f));
        if !p.is_empty() { fail(format!("{}: the complete observation is judged wrong under [off, on]: {}", level.name(), p[0].key)); }
        // (2) member 2 filtered with member 1's mask
        let mut filtered = f.clone();
        match level {
            Level::Field => { let x = &mut filtered.fields[1]; x.constant_value = None; x.signature = None; x.vis_annotations.clear(); x.invis_annotations.clear(); x.vis_type_annotations.clear(); x.invis_type_annotations.clear(); x.unknown.clear(); }
            Level::Method => { let x = &mut filtered.methods[1]; x.exceptions = None; x.signature = None; x.vis_annotations.clear(); x.invis_annotations.clear(); x.vis_type_annotations.clear(); x.invis_type_annotations.clear(); x.annotation_default = None; x.method_parameters = None; x.unknown.clear(); x.code = None; }
            Level::Code => { if let Some(c) = filtered.methods[1].code.as_mut() { c.frames = None; c.line_numbers = None; c.lvt = None; c.lvtt = None; c.vis_type_annotations.clear(); c.invis_type_annotations.clear(); c.unknown.clear(); } }
            _ => { if let Some(x) = filtered.record.as_mut().and_then(|r| r.get_mut(1)) { x.signature = None; x.vis_annotations.clear(); x.invis_annotations.clear(); x.vis_type_annotations.clear(); x.invis_type_annotations.clear(); x.unknown.clear(); } }
        }
        let mut wrong = full_obs(f); wrong.built = vec![filtered];
        if *level == Level::Method { wrong.offered.code.retain(|c| c.0 != 1); }
        let keys: Vec<String> = judge(f, &k_true, &wrong).into_iter().map(|p| p.key).collect();
        let path = match level { Level::Field => ".fields[]", Level::Method => ".methods[]", Level::Code => ".code", _ => ".record" };
        if !keys.iter().any(|k| k.contains("item of interest missing") && k.contains(path)) && !(*level == Level::Method && keys.iter().any(|k| k.starts_with("Code of interest offered never")))
            { fail(format!("{}: member 2 filtered with member 1's mask is not flagged: {keys:?}", level.name())); }
        // (3) the same observation is right for the visitor whose member 2 really declared no interest
        let p = judge(f, &k_both_off, &wrong);
        if !p.is_empty() { fail(format!("{}: correct observation under [off, off] judged wrong: {}", level.name(), p[0].key)); }
        // (4) trigger naming
        let want = format!("per-member {} interests", if *level == Level::Record { "record component" } else { level.name() });
        let mut noisy = k_true.clone(); noisy.fields = Pat::Last; noisy.bits[bit(Level::Class, "source_file")] = false;
        let (t, _) = trigger(&noisy, &s.shape, &|k: &K| k.differ_at(*level, 0, 1));
        if t != want { fail(format!("trigger minimisation gives {t:?}, expected {want:?}")); }
        // a decline that only shifts the fault: the plainest per-member visitor shows it as well, the decline is not named
        let mut shifted = k_true.clone(); shifted.methods = Pat::Last; shifted.records = Pat::First;
        let (t, mk) = trigger(&shifted, &s.shape, &|k: &K| k.differ_at(*level, 0, 1) && (k.methods != Pat::None || k.records == Pat::None));
        if mk.methods != Pat::None { fail("the probe step of the trigger minimisation was not taken".into()); }
        if t != want { fail(format!("trigger minimisation gives {t:?}, expected {want:?}")); }
        let i0 = (0..NBITS).find(|i| BITS[*i].0 == *level).unwrap_or(0);
        let mut one = K::all(); let mut b = lv(true); b[i0] = false; match level { Level::Field => one.per_field = vec![None, Some(b)], Level::Method => one.per_method = vec![None, Some(b)], Level::Code => one.per_code = vec![None, Some(b)], _ => one.per_record = vec![None, Some(b)] }
        let (t, _) = trigger(&one, &s.shape, &|k: &K| (0..4).any(|o| !k.bit_at(o, i0)));
        if t != format!("interest {} off", bit_name(i0)) { fail(format!("trigger minimisation of a constant-mask problem under per-member masks gives {t:?}")); }
    }
    // the masks really reach the visitors: K -> duke Mask -> what the visitor of member j answers (to_mask fills the override lists)
    let mut k = K::all(); let mut b = [false; NBITS]; b[bit(Level::Method, "signature")] = true; k.per_method = vec![None, Some(b)]; let mut c = [false; NBITS]; c[bit(Level::Code, "line_number_table")] = true; k.per_code = vec![Some(c)];
    let m = k.to_mask(2, 2, 0);
    let ok = m.method_overrides.len() == 2 && m.method_overrides[0].is_none() && m.method_overrides[1].as_ref().is_some_and(|x| x.signature && !x.code && !x.exceptions)
        && m.code_overrides.len() == 1 && m.code_overrides[0].as_ref().is_some_and(|x| x.line_number_table && !x.stack_map_table) && m.field_overrides.is_empty() && m.method.exceptions;
    if !ok { fail("K::to_mask does not carry the per-member masks".into()); }
}

fn main() {
    if let Some((seed, n, max_s)) = common::miri::slice_args() { std::process::exit(miri_slice(seed, n, max_s)); }
    let mut ctx = Ctx::from_args("C17", 40, 480);
    let replay = load_replay(&mut ctx);
    let mut rep = Report::new();

    // ---- self-checks and canaries: the oracle must accept a correct observation and flag wrong ones
    {
        let mut rng = Rng::new(11);
        let mut found = None;
        for i in 0..200u64 { if let Ok(s) = gen_subject(&mut rng, i * 8 + 4, false) { if s.full.fields.len() >= 2 && s.full.methods.iter().any(|m| m.code.as_ref().is_some_and(|c| c.line_numbers.is_some())) && s.full.source_file.is_some() { found = Some(s); break; } } }
        let Some(s) = found else { eprintln!("HARNESS-ERROR canary: no suitable generated class"); std::process::exit(3) };
        let end = s.bytes.len() as u64;
        let all = K::all();
        let ok = problems_of_read(&s.bytes, 0, end, &Visitor::Masked(all.clone()), &s);
        if !ok.is_empty() { eprintln!("note: canary class already shows a problem with the full-interest visitor: {}", ok[0].key); }
        // (a) wrong position expectation must be flagged
        if !problems_of_read(&s.bytes, 0, end - 1, &Visitor::Unit, &s).iter().any(|p| p.key.starts_with("cursor is not at the end")) { eprintln!("HARNESS-ERROR canary: wrong end position not flagged"); std::process::exit(3); }
        // (b) an observation made with mask A judged against mask B (B wants more) must be flagged as missing
        let mut a = K::all(); a.bits[bit(Level::Class, "source_file")] = false; a.bits[bit(Level::Code, "line_number_table")] = false; a.fields = Pat::First;
        let Ok(Ok(obs_a)) = replay_obs(&s, &a) else { eprintln!("HARNESS-ERROR canary: replay failed"); std::process::exit(3) };
        let Ok(r) = read_with(&s.bytes, 0, &Visitor::Masked(a.clone()), &s) else { eprintln!("HARNESS-ERROR canary: read panicked"); std::process::exit(3) };
        let Ok(Some(obs_r)) = r.outcome else { eprintln!("HARNESS-ERROR canary: masked read failed"); std::process::exit(3) };
        if !judge(&s.full, &a, &obs_a).is_empty() || !judge(&s.full, &a, &obs_r).is_empty() { eprintln!("HARNESS-ERROR canary: correct masked observation judged wrong: {:?}", judge(&s.full, &a, &obs_r).first().map(|p| &p.key)); std::process::exit(3); }
        let keys: Vec<String> = judge(&s.full, &all, &obs_r).into_iter().map(|p| p.key).collect();
        if !keys.iter().any(|k| k.contains("source_file")) || !keys.iter().any(|k| k.contains("line_numbers")) { eprintln!("HARNESS-ERROR canary: missing items not flagged: {keys:?}"); std::process::exit(3); }
        // (c) a received item that the full read does not report must be flagged (F altered)
        let mut wrong = s.full.clone(); wrong.source_file = Some(JS::new("Other.java")); wrong.fields[1].access ^= 1;
        let mut none = K::none(); none.bits[bit(Level::Class, "fields")] = true;
        let Ok(Ok(obs_all)) = replay_obs(&s, &all) else { eprintln!("HARNESS-ERROR canary: replay failed"); std::process::exit(3) };
        let keys: Vec<String> = judge(&wrong, &none, &obs_all).into_iter().map(|p| p.key).collect();
        if !keys.iter().any(|k| k.contains("received item") && k.contains("source_file")) || !keys.iter().any(|k| k.starts_with("fields offered")) { eprintln!("HARNESS-ERROR canary: foreign items not flagged: {keys:?}"); std::process::exit(3); }
        // (d) trigger minimisation names the single deviation that matters
        let (t, _) = trigger(&a, &s.shape, &|k: &K| !k.on(Level::Code, "line_number_table"));
        if t != "interest code.line_number_table off" { eprintln!("HARNESS-ERROR canary: trigger minimisation gives {t:?}"); std::process::exit(3); }
        per_member_canaries();
    }

    let sizes = ctx.tier.pick((6, 6, 12, 6), (8, 8, 24, 8));
    // ---- workload 1: javac corpus x masks (more masks per class: few classes)
    let corpus = cf::corpus::load(&ctx.verif_dir);
    let rounds = ctx.tier.pick(2u64, 12u64);
    run_cases(&ctx, &replay, &mut rep, "corpus", corpus.len() as u64 * rounds, |rng, rep, i| {
        let (name, bytes) = &corpus[(i % corpus.len() as u64) as usize];
        let model = match parse::parse(bytes) { Ok(m) => m, Err(e) => { eprintln!("HARNESS-ERROR independent parser rejects corpus class {name}: {e}"); std::process::exit(3); } };
        match subject(format!("corpus {name}"), bytes.clone(), model) {
            Err(why) => { rep.count("skipped.corpus"); rep.note(format!("corpus class {name} skipped: {why}")); }
            Ok(s) => { rep.count("classes.corpus"); evaluate_class(rep, rng, &s, i, sizes, "corpus"); }
        }
    });

    // ---- workload 2: 2..6 classes concatenated in one stream, one per successive read, a different visitor per read
    let n = ctx.tier.pick(600, 12_000);
    run_cases(&ctx, &replay, &mut rep, "streams", n, |rng, rep, i| {
        let k = rng.usize_in(2, 6);
        let mut subjects = vec![];
        for j in 0..k { let small = !rng.chance(1, 4); match gen_subject(rng, i * 8 + j as u64, small) { Ok(s) => subjects.push(s), Err(why) => { rep.count("skipped.streams"); rep.note(format!("generated class skipped: {why}")); return; } } }
        if rng.chance(1, 3) && !corpus.is_empty() { let (name, bytes) = rng.pick(&corpus); if let Ok(m) = parse::parse(bytes) { if let Ok(s) = subject(format!("corpus {name}"), bytes.clone(), m) { let at = rng.below(subjects.len() + 1); subjects.insert(at, s); subjects.truncate(6); } } }
        let mut stream = vec![]; let mut bounds = vec![];
        for s in &subjects { let a = stream.len() as u64; stream.extend_from_slice(&s.bytes); bounds.push((a, stream.len() as u64)); }
        rep.count(&format!("streams.of_{}", subjects.len()));
        // (a) a different fresh visitor for every read; every read starts where the previous class ends
        let mut kinds = vec![];
        for (j, s) in subjects.iter().enumerate() {
            let v = match rng.below(10) { 0 => Visitor::Unit, 1 => Visitor::Full, 2 => { let mut k = K::random(rng); k.decline_class = true; Visitor::Masked(k) } 3 => Visitor::Masked(K::none()), 4 | 5 => { let mut k = K::random_pm(rng, &s.shape); k.records = Pat::None; k.per_field.clear(); k.per_record.clear(); Visitor::Simple(k) } _ => Visitor::Masked(K::random_pm(rng, &s.shape)) };
            kinds.push(v.name());
            rep.eval(); rep.count("reads.in_stream"); rep.count("position.checked"); if j > 0 { rep.count("reads.in_stream.not_first"); }
            let (a, b) = bounds[j];
            let probs = problems_of_read(&stream, a, b, &v, s);
            let derailed = probs.iter().any(|p| p.key.starts_with("the read fails") || p.key.starts_with("cursor is not") || p.key.starts_with("panic"));
            // the same visitor on the class alone: a problem that only shows up inside the stream is a stream problem
            let alone = |t: &K| problems_of_read(&s.bytes, 0, s.bytes.len() as u64, &match &v { Visitor::Simple(_) => Visitor::Simple(t.clone()), _ => Visitor::Masked(t.clone()) }, s);
            let only_in_stream = !probs.is_empty() && v.k().is_some_and(|k| alone(k).is_empty());
            if only_in_stream { for p in probs.iter().take(2) { rep.violation(format!("C17 stream ({}): only when the class is not at the start of the stream: {}", v.name(), p.key), json!({"stream_hex": hex(&stream), "class_bounds": bounds, "read_index": j, "mask": v.k().map(|k| k.to_json()), "problem": p.detail})); } }
            else { report(rep, "read", &v, s, probs, &alone, json!({"workload": "streams", "read_index": j, "class_bounds": bounds, "visitors": kinds})); }
            if let Some(k) = v.k() { let kk = if matches!(v, Visitor::Simple(_)) { simple_k(k) } else { k.clone() }; account(&mut Cov { on: [0; NBITS], off: [0; NBITS] }, rep, s, &kk, "stream"); }
            if derailed { rep.count("streams.abandoned_after_derailed_read"); return; }
        }
        // (b) one Vec<ClassFile> visitor carried through k successive reads on one cursor
        rep.eval(); rep.count("streams.vec_visitor");
        let r = guard(|| {
            let mut t = Tracked::new(&stream, 0);
            let mut v: Vec<ClassFile> = vec![]; let mut pos = vec![];
            for _ in 0..subjects.len() { match duke::read_class_multi(&mut t, v) { Ok(nv) => { v = nv; pos.push(t.pos); } Err(e) => return Err((format!("{e:#}"), pos)) } }
            Ok((v, pos))
        });
        let detail = |x: Value| json!({"stream_hex": hex(&stream), "class_bounds": bounds, "observed": x});
        match r {
            Err(p) => rep.violation(format!("C17 stream (Vec<ClassFile> visitor): panic {}", p.site()), detail(json!(p.message))),
            Ok(Err((e, pos))) => rep.violation("C17 stream (Vec<ClassFile> visitor): a successive read fails although every class reads alone", detail(json!({"error": e, "positions_after_reads": pos}))),
            Ok(Ok((v, pos))) => {
                rep.add("position.checked", pos.len() as u64);
                let want: Vec<u64> = bounds.iter().map(|b| b.1).collect();
                if pos != want { rep.violation("C17 stream (Vec<ClassFile> visitor): cursor is not at the end of the class after a successive read", detail(json!({"positions_after_reads": pos, "expected": want}))); }
                else if v.len() != subjects.len() { rep.violation("C17 stream (Vec<ClassFile> visitor): k concatenated classes are not delivered one per read", detail(json!({"classes": v.len(), "reads": subjects.len()}))); }
                else if let Some(j) = (0..v.len()).find(|j| project::project(&v[*j]) != subjects[*j].full) { rep.violation("C17 stream (Vec<ClassFile> visitor): class delivered by a successive read differs from reading it alone", detail(json!({"read_index": j}))); }
                else { rep.count("streams.vec_visitor.ok"); }
            }
        }
        let mut fp = String::new(); for s in &subjects { fp.push_str(&format!("{:x}|", features::fingerprint(&s.feats))); }
        rep.nontrivial(common::rng::fnv_str(&fp));
        if stream.len() < 1500 { rep.sample(|| json!({"kind": "stream", "classes": subjects.len(), "class_bounds": bounds, "visitors": kinds, "stream_hex": hex(&stream)})); }
    });

    // ---- workload 3: generated dense classes x masks (last: the only one a time cut may shorten; its obligations are met within the first few hundred cases)
    let n = ctx.tier.pick(2_000, 40_000);
        run_cases(&ctx, &replay, &mut rep, "generated", n, |rng, rep, i| {
        match gen_subject(rng, i, false) {
            Err(why) => { rep.count("skipped.generated"); rep.note(format!("generated class skipped: {why}")); }
            Ok(s) => { rep.count("classes.generated"); evaluate_class(rep, rng, &s, i, sizes, "generated"); }
        }
    });

    let mut meta = Meta::new("exploration", "generated dense classes (cf::gen + c17 densify: most attribute kinds at class / field / method / Code / record-component level, 0-7 members, versions 45-67, module descriptors) under canonical and random layouts, the javac corpus, and streams of 2-6 concatenated classes; every class is read and replayed under all/none/single-flag-off/single-flag-on/random interest masks and none/all/first/last/every-k-th/random decline patterns for fields, methods, record components, Code and the class; in about one third of the masks the members of one class answer interests() differently (per-member masks for fields, methods, Code, record components: only first / last / k-th, alternating, nothing and everything in turn, all different, first nothing and later everything and the reverse; combined with the decline patterns and visit_code -> None for the first method), every member judged against its own mask; further visitors: (), a harness-defined SimpleClassVisitor with harness-defined masked method/code visitors (per method as well), Vec<ClassFile>. A case is non-trivial if a partial mask or a decline met a class with members (or a module); distinct = feature-set fingerprint of the class per workload (streams: tuple of fingerprints)")
        .assume("F (the full read) is the reference: whether F itself is right is C01's business; classes on which the full read fails are skipped and counted")
        .assume("the masked visitors forward what they accept unchanged to duke's own tree builders, so the built tree records exactly what was received (duke::verif::Masked inside duke; the SimpleClassVisitor probe outside)")
        .assume("presence of an item (for the coverage obligations) is taken from the independent parser's model of the same bytes");
    if replay.is_none() {
        let mut missing_on = vec![]; let mut missing_off = vec![];
        for i in 0..NBITS { if rep.get(&format!("interest.{}.on_with_item", bit_name(i))) == 0 { missing_on.push(bit_name(i)); } if rep.get(&format!("interest.{}.off_with_item", bit_name(i))) == 0 { missing_off.push(bit_name(i)); } }
        meta.oblige(format!("every one of the {NBITS} interest flags seen ON with an item present (missing: {missing_on:?})"), missing_on.is_empty());
        meta.oblige(format!("every one of the {NBITS} interest flags seen OFF with an item present (missing: {missing_off:?})"), missing_off.is_empty());
        let mut missing = vec![];
        for who in ["read", "replay"] { for kind in ["field", "method", "record_component"] { for p in ["all", "first", "last", "every_kth", "random", "accepted_after_declined"] { let key = format!("decline.{who}.{kind}.{p}"); if rep.get(&key) == 0 { missing.push(key); } } } }
        for key in ["decline.read.class", "decline.replay.class", "decline.read.code.first", "decline.read.code.all", "decline.simple.field.first", "decline.simple.method.last", "decline.stream.method.random"] { if rep.get(key) == 0 { missing.push(key.to_string()); } }
        meta.oblige(format!("every decline pattern executed for fields, methods and record components, on read and on replay, with an accepted member after a declined one (missing: {missing:?})"), missing.is_empty());
        // per-member masks: for every member level, on read and on replay, classes where a later member declares interest in an item it has and
        // an earlier member of the same list (the first one that gets there / the one just before) declared none; the same with the first member
        // declined, and with visit_code -> None for the first method
        let mut missing = vec![];
        for who in ["read", "replay"] {
            for level in ["field", "method", "code", "record"] { for (what, least) in [("later_wants_more_than_first", PM_MIN), ("wants_more_than_previous", PM_MIN), ("first_declined_later_differ", PM_MIN / 2)] { let key = format!("pm.{who}.{level}.{what}"); if rep.get(&key) < least { missing.push(format!("{key}={}", rep.get(&key))); } } }
            for key in [format!("pm.{who}.code.first_code_refused_later_differ"), format!("pm.{who}.method.first_code_refused_later_differ")] { if rep.get(&key) < PM_MIN / 2 { missing.push(format!("{key}={}", rep.get(&key))); } }
            for pat in PER_PATS { let key = format!("pm.{who}.pattern.{}", pat.name()); if rep.get(&key) < PM_MIN { missing.push(format!("{key}={}", rep.get(&key))); } }
        }
        for key in ["pm.simple.method.later_wants_more_than_first", "pm.simple.code.later_wants_more_than_first", "pm.simple.method.wants_more_than_previous", "pm.simple.code.wants_more_than_previous",
            "pm.stream.field.later_wants_more_than_first", "pm.stream.method.later_wants_more_than_first", "pm.stream.code.later_wants_more_than_first"] { if rep.get(key) < PM_MIN_SMALL { missing.push(format!("{key}={}", rep.get(key))); } }
        meta.oblige(format!("per-member interest masks: for fields, methods, Code and record components, on read and on replay, at least {PM_MIN} evaluations (class x mask) each where a later member declares interest in an item it has and the first / the previous member of the list declared none, at least {} each of these after a declined first member and after visit_code -> None for the first method; every per-member pattern; the harness-defined visitors and the streams likewise (at least {PM_MIN_SMALL}) (short: {missing:?})", PM_MIN / 2), missing.is_empty());
        let share = (rep.get("pm.read.masks") * 100).checked_div(rep.get("reads.masked")).unwrap_or(0);
        meta.oblige(format!("about one third of the masked reads use per-member masks ({share}%)"), (25..=50).contains(&share));
        let reads = rep.get("reads.masked") + rep.get("reads.unit") + rep.get("reads.simple") + rep.get("reads.in_stream") + rep.get("streams.vec_visitor.ok") * 0;
        meta.oblige("the position check was executed on every read", rep.get("position.checked") >= reads && reads > 0);
        meta.oblige("reads at a non-zero stream offset were observed (streams of 2..6 classes)", rep.get("reads.in_stream.not_first") >= 100 && (2..=6).all(|k| rep.get(&format!("streams.of_{k}")) > 0));
        meta.oblige("corpus classes were evaluated", rep.get("classes.corpus") >= 100);
        meta.oblige("replay into the tree builder was compared", rep.get("replays.into_builder") >= 100);
        meta.oblige("(), SimpleClassVisitor and Vec<ClassFile> visitors were exercised", rep.get("reads.unit") > 0 && rep.get("reads.simple") > 0 && rep.get("streams.vec_visitor") > 0);
    }
    if replay.is_none() {
        if ctx.tier == Tier::Thorough {
            let r = common::miri::run_slice(&ctx, "c17", env!("CARGO_MANIFEST_DIR"), MIRI_CASES, 150, 300);
            if let Some(line) = r.ub { rep.cur = ("miri".into(), 0); rep.violation(format!("miri: {line}"), json!({"how": format!("cargo +nightly miri run --offline -p c17 -- --miri-slice <seed> {MIRI_CASES} 150"), "seed": ctx.seed as i64, "status": r.status})); }
            meta.extra.insert("miri_slice".into(), json!(r.status));
        } else { meta.extra.insert("miri_slice".into(), json!("not run in the quick tier")); }
    }
    std::process::exit(finish(&ctx, rep, meta));
}
/// cases asked of the Miri slice in the thorough tier; it stops by itself after 150 s, checked between cases: one `evaluate_class` case can take 60 s (see NOTES.md)
const MIRI_CASES: usize = 16;
/// minimum number of evaluations (class x mask) per per-member coverage region (read / replay); the harness-defined visitors and the streams see fewer masks
const PM_MIN: u64 = 10;
const PM_MIN_SMALL: u64 = 3;
