//! C17 — partial and replaying visitors observe the same facts as a full read.
//!
//! Observed: `duke::read_class_multi` with mask-configurable tree visitors (duke::verif::Masked), with `()`, with a
//! harness-defined SimpleClassVisitor, with `Vec<ClassFile>` over concatenated classes; `ClassFile::accept` (replay).
//! Oracle: R-visitor of DESIGN.md 9a (src/oracle.rs): F = projection of the full read, E = F restricted to interest(K),
//! computed from F and K alone; stream position = byte length of the class as emitted / as parsed by the independent parser.
mod dense;
mod mask;
mod oracle;
mod simple;

use cf::{emit, features, gen, model::*, parse, project};
use common::{par::*, report::{finish, Meta}, *};
use duke::tree::class::ClassFile;
use duke::verif::{Masked, Offer};
use mask::{bit, bit_name, Level, Pat, BITS, CATEGORIES, K, NBITS};
use oracle::{judge, ClassHdr, MemberHdr, Obs, Offered, Problem};
use std::io::{Cursor, Read, Seek, SeekFrom};

// ------------------------------------------------------------------------------------------------ subjects

/// one class file together with everything the oracle needs to know about it
struct Subject { name: String, bytes: Vec<u8>, model: Class, tree: ClassFile, full: Class, feats: std::collections::BTreeSet<String> }

fn template(msg: &str) -> String {
    let mut out = String::new(); let mut in_q = false; let mut in_num = false;
    for c in msg.chars() {
        if c == '"' { in_q = !in_q; if in_q { out.push_str("\"..\""); } continue; }
        if in_q { continue; }
        if c.is_ascii_digit() { if !in_num { out.push('#'); in_num = true; } continue; }
        in_num = false; out.push(c);
    }
    out.chars().take(100).collect()
}

/// Err(reason) = the FULL read does not succeed on this class: C01's business, the case is skipped (and counted)
fn subject(name: String, bytes: Vec<u8>, model: Class) -> Result<Subject, String> {
    let tree = match guard(|| duke::read_class(&mut Cursor::new(&bytes[..]))) { Ok(Ok(t)) => t, Ok(Err(e)) => return Err(format!("full read fails: {}", template(&format!("{e:#}")))), Err(p) => return Err(format!("full read panics: {}", p.site())) };
    let full = project::project(&tree);
    let feats = features::features(&model);
    Ok(Subject { name, bytes, model, tree, full, feats })
}

// ------------------------------------------------------------------------------------------------ stream wrapper

/// Read + Seek over a byte slice that keeps its own account of the position (independent of Cursor::position)
struct Tracked<'a> { inner: Cursor<&'a [u8]>, pos: u64, max_touched: u64, reads: u64, seeks: u64, /// hand the bytes out in short reads (legal for any `Read`): every third stream
    short: bool }
impl<'a> Tracked<'a> { fn new(b: &'a [u8], start: u64) -> Tracked<'a> { let mut inner = Cursor::new(b); inner.set_position(start); Tracked { inner, pos: start, max_touched: start, reads: 0, seeks: 0, short: common::rng::fnv(b) % 3 == 0 } } }
impl Read for Tracked<'_> {
    fn read(&mut self, buf: &mut [u8]) -> std::io::Result<usize> {
        let lim = if self.short && !buf.is_empty() { (1 + ((self.pos as usize).wrapping_mul(7) + self.reads as usize) % 5).min(buf.len()) } else { buf.len() };
        let n = self.inner.read(&mut buf[..lim])?; self.pos += n as u64; self.reads += 1; if self.pos > self.max_touched { self.max_touched = self.pos; } Ok(n)
    }
}
impl Seek for Tracked<'_> {
    fn seek(&mut self, to: SeekFrom) -> std::io::Result<u64> {
        self.seeks += 1;
        let p = self.inner.seek(to)?;
        // own account: recompute from the request, then compare with what the cursor says
        let mine = match to { SeekFrom::Start(p) => p as i128, SeekFrom::Current(d) => self.pos as i128 + d as i128, SeekFrom::End(d) => self.inner.get_ref().len() as i128 + d as i128 };
        if mine != p as i128 { eprintln!("HARNESS-ERROR position accounting of the tracking reader disagrees with Cursor ({mine} vs {p})"); std::process::exit(3); }
        self.pos = p; Ok(p)
    }
}

// ------------------------------------------------------------------------------------------------ running visitors

#[derive(Clone, Debug)]
enum Visitor { Masked(K), Simple(K), Unit, Full }
impl Visitor {
    fn name(&self) -> &'static str { match self { Visitor::Masked(_) => "masked tree visitor", Visitor::Simple(_) => "SimpleClassVisitor", Visitor::Unit => "() visitor", Visitor::Full => "Vec<ClassFile> visitor" } }
    fn k(&self) -> Option<&K> { match self { Visitor::Masked(k) | Visitor::Simple(k) => Some(k), _ => None } }
}

fn hdr(o: &Offer) -> Option<ClassHdr> {
    if let Offer::Class { version, access, name, super_class, interfaces, declined } = o {
        let (major, minor) = duke::verif::version(version);
        Some(ClassHdr { major, minor, access: (*access).into(), this_class: project::js(name.as_inner()), super_class: super_class.as_ref().map(|s| project::js(s.as_inner())), interfaces: interfaces.iter().map(|i| project::js(i.as_inner())).collect(), declined: *declined })
    } else { None }
}
fn masked_obs(m: &Masked) -> Obs {
    let mut o = Offered::default();
    for off in &m.offers {
        match off {
            Offer::Class { .. } => { if let Some(h) = hdr(off) { o.classes.push(h); } }
            Offer::Field { access, name, descriptor, declined } => o.fields.push(MemberHdr { access: (*access).into(), name: project::js(name.as_inner()), desc: project::js(descriptor.as_inner()), declined: *declined }),
            Offer::Method { access, name, descriptor, declined } => o.methods.push(MemberHdr { access: (*access).into(), name: project::js(name.as_inner()), desc: project::js(descriptor.as_inner()), declined: *declined }),
            Offer::RecordComponent { name, descriptor, declined } => o.records.push(MemberHdr { access: 0, name: project::js(name.as_inner()), desc: project::js(descriptor.as_inner()), declined: *declined }),
            Offer::Code { method, visits, declined } => o.code.push((*method, *visits, *declined)),
        }
    }
    Obs { offered: o, built: m.classes.iter().map(project::project).collect() }
}

/// the K a SimpleClassVisitor probe behaves like: class level only members, fields with the full tree builder
fn simple_k(k: &K) -> K {
    let mut s = k.clone();
    for i in 0..NBITS { match BITS[i].0 { Level::Class => s.bits[i] = BITS[i].1 == "fields" || BITS[i].1 == "methods", Level::Field => s.bits[i] = true, Level::Record => s.bits[i] = false, _ => {} } }
    s.decline_class = false; s.records = Pat::None;
    s
}
fn simple_cfg(k: &K, s: &Subject) -> simple::SimpleCfg {
    simple::SimpleCfg { decline_fields: k.fields.expand(s.full.fields.len()), decline_methods: k.methods.expand(s.full.methods.len()), decline_code: k.code.expand(s.full.methods.len()), method: k.method_interests(), code: k.code_mask() }
}

struct ReadResult { outcome: Result<Option<Obs>, String>, pos_cursor: u64, pos_tracked: u64, max_touched: u64 }

/// one `read_class_multi` call on `stream` starting at `start`, with a fresh visitor of the given kind
fn read_with(stream: &[u8], start: u64, v: &Visitor, s: &Subject) -> Result<ReadResult, PanicInfo> {
    guard(|| {
        let mut t = Tracked::new(stream, start);
        let n = (s.full.fields.len(), s.full.methods.len(), s.full.record.as_ref().map(|r| r.len()).unwrap_or(0));
        let outcome = match v {
            Visitor::Masked(k) => duke::read_class_multi(&mut t, Masked::new(k.to_mask(n.0, n.1, n.2))).map(|m| Some(masked_obs(&m))),
            Visitor::Simple(k) => duke::read_class_multi(&mut t, simple::SimpleMulti::new(simple_cfg(k, s))).map(|m| simple::observations(m).into_iter().next()),
            Visitor::Unit => duke::read_class_multi(&mut t, ()).map(|_| None),
            Visitor::Full => duke::read_class_multi(&mut t, Vec::<ClassFile>::new()).map(|v| Some(Obs { offered: Offered::default(), built: v.iter().map(project::project).collect() })),
        }.map_err(|e| format!("{e:#}"));
        ReadResult { outcome, pos_cursor: t.inner.position(), pos_tracked: t.pos, max_touched: t.max_touched }
    })
}

/// problems of one read of subject `s` located at `start..end` of `stream`
fn problems_of_read(stream: &[u8], start: u64, end: u64, v: &Visitor, s: &Subject) -> Vec<Problem> {
    let mut out = vec![];
    match read_with(stream, start, v, s) {
        Err(p) => out.push(Problem { key: format!("panic {}", p.site()), detail: json!({"panic": p.message, "at": format!("{}:{}", p.file, p.line)}) }),
        Ok(r) => {
            if r.pos_cursor != r.pos_tracked { eprintln!("HARNESS-ERROR tracking reader and cursor disagree after a read"); std::process::exit(3); }
            match r.outcome {
                Err(e) => out.push(Problem { key: "the read fails although the full read of the same class succeeds".into(), detail: json!({"error": e, "cursor_after": r.pos_cursor, "class_start": start, "class_end": end}) }),
                Ok(obs) => {
                    if r.pos_cursor != end {
                        out.push(Problem { key: format!("cursor is not at the end of the class after the read ({})", if r.pos_cursor < end { "before the end" } else { "past the end" }), detail: json!({"cursor_after": r.pos_cursor, "class_start": start, "class_end": end, "off_by": r.pos_cursor as i64 - end as i64}) });
                    }
                    match (v, obs) {
                        (Visitor::Masked(k), Some(o)) => out.extend(judge(&s.full, k, &o)),
                        (Visitor::Simple(k), Some(mut o)) => { for b in o.built.iter_mut() { b.deprecated = s.full.deprecated; b.synthetic = s.full.synthetic; } out.extend(judge(&s.full, &simple_k(k), &o)) } // the blanket ClassVisitor impl of a SimpleClassVisitor drops Deprecated / Synthetic of the class: nothing to compare
                        (Visitor::Simple(_), None) => out.push(Problem { key: "visit_class called 0 times for one class".into(), detail: json!({}) }),
                        (Visitor::Full, Some(o)) => { if o.built.len() != 1 || o.built[0] != s.full { out.push(Problem { key: "Vec<ClassFile> visitor on the stream does not get the class of the single read".into(), detail: json!({"classes": o.built.len()}) }); } }
                        _ => {}
                    }
                }
            }
        }
    }
    out
}

fn replay_obs(s: &Subject, k: &K) -> Result<Result<Obs, String>, PanicInfo> {
    guard(|| {
        let n = (s.full.fields.len(), s.full.methods.len(), s.full.record.as_ref().map(|r| r.len()).unwrap_or(0));
        s.tree.clone().accept(Masked::new(k.to_mask(n.0, n.1, n.2))).map(|m| masked_obs(&m)).map_err(|e| format!("{e:#}"))
    })
}
fn problems_of_replay(s: &Subject, k: &K) -> Vec<Problem> {
    match replay_obs(s, k) {
        Err(p) => vec![Problem { key: format!("panic {}", p.site()), detail: json!({"panic": p.message}) }],
        Ok(Err(e)) => vec![Problem { key: "replay into the visitor fails".into(), detail: json!({"error": e}) }],
        Ok(Ok(o)) => judge(&s.full, k, &o),
    }
}

/// The smallest set of deviations from the full-interest / accept-everything visitor under which a problem with the
/// same key still occurs (greedy, category by category; then bit by bit inside a single interest category).
fn trigger(k: &K, still: &dyn Fn(&K) -> bool) -> (String, K) {
    let mut cur = k.clone();
    for c in 0..CATEGORIES.len() { if cur.has_category(c) { let t = cur.without_category(c); if still(&t) { cur = t; } } }
    let cats: Vec<usize> = (0..CATEGORIES.len()).filter(|c| cur.has_category(*c)).collect();
    if cats.is_empty() { return ("none: also with the full-interest, accept-everything visitor".into(), cur); }
    let mut names: Vec<String> = vec![];
    for c in &cats {
        if *c < 5 {
            let level = [Level::Class, Level::Field, Level::Method, Level::Code, Level::Record][*c];
            for i in 0..NBITS { if BITS[i].0 == level && !cur.bits[i] { let mut t = cur.clone(); t.bits[i] = true; if still(&t) { cur = t; } } }
            let off: Vec<usize> = (0..NBITS).filter(|i| BITS[*i].0 == level && !cur.bits[*i]).collect();
            if off.len() == 1 { names.push(format!("interest {} off", bit_name(off[0]))); } else { names.push(format!("{} (several flags)", CATEGORIES[*c])); }
        } else { names.push(CATEGORIES[*c].to_string()); }
    }
    (names.join(" + "), cur)
}

/// coarse class of an observation: what kind of thing went wrong, independent of where a derailed parse happened to stop
fn coarse(key: &str) -> &'static str { if key.starts_with("cursor is not at the end") { "cursor" } else { "disturbed" } }
fn fatal(key: &str) -> bool { key.starts_with("panic") || key.starts_with("the read fails") || key.starts_with("replay into the visitor fails") }

/// Reports the problems of one evaluation. Signatures:
///  * the problem also occurs with the full-interest / accept-everything visitor, or the mode is replay: `C17 <mode> (<visitor>): <key>` (fact path / panic site included)
///  * a read that goes wrong only under some deviation (the trigger, found by minimising the mask): `C17 read (<visitor>) [trigger: ..]: <coarse observation>`.
///    After a skip that went wrong the parse fails, panics or delivers garbage wherever it happens to stop, so error text / fact path are detail, not signature.
fn report(rep: &mut Report, mode: &str, v: &Visitor, s: &Subject, problems: Vec<Problem>, rerun: &dyn Fn(&K) -> Vec<Problem>, extra: Value) {
    if problems.is_empty() { return; }
    for class in ["cursor", "disturbed"] {
        let mut mine: Vec<&Problem> = problems.iter().filter(|p| coarse(&p.key) == class).collect();
        if mine.is_empty() { continue; }
        // an error or a panic ends the read: the facts of that read are not there to be judged
        if let Some(f) = mine.iter().find(|p| fatal(&p.key)).copied() { mine = vec![f]; }
        let (trig, min_k) = match v.k() {
            Some(k) => { let (t, mk) = trigger(k, &|t: &K| rerun(t).iter().any(|p| coarse(&p.key) == class)); (Some(t), Some(mk)) }
            None => (None, None),
        };
        let detail = |p: &Problem| json!({"class": s.name, "input_hex": hex(&s.bytes), "mask": v.k().map(|k| k.to_json()), "minimal_mask": min_k.as_ref().map(|k| k.to_json()), "observed": p.key, "problem": p.detail, "context": extra});
        let untriggered = trig.as_ref().is_none_or(|t| t.starts_with("none"));
        if untriggered || mode == "replay" {
            let t = match &trig { Some(t) if !t.starts_with("none") => format!(" [trigger: {t}]"), _ => String::new() };
            for p in mine.iter().take(4) { rep.violation(format!("C17 {mode} ({}): {}{}", v.name(), p.key, t), detail(p)); }
        } else {
            let what = if class == "cursor" { mine[0].key.clone() } else { "the read is disturbed: it fails, panics, or delivers facts that differ from the full read".to_string() };
            rep.violation(format!("C17 {mode} ({}) [trigger: {}]: {}", v.name(), trig.unwrap_or_default(), what), detail(mine[0]));
        }
    }
}

// ------------------------------------------------------------------------------------------------ coverage accounting

struct Cov { on: [u64; NBITS], off: [u64; NBITS] }
fn any_code<'a>(m: &'a Class, k: &K, nm: usize) -> impl Iterator<Item = &'a Code> + 'a {
    let dm = k.methods.expand(nm); let dc = k.code.expand(nm);
    m.methods.iter().enumerate().filter(move |(i, _)| !dm[*i] && !dc[*i]).filter_map(|(_, x)| x.code.as_ref())
}
/// is an item governed by interest bit `i` present where a visitor with mask `k` gets to see it (accepted class / member)?
fn present(m: &Class, k: &K, i: usize) -> bool {
    if k.decline_class { return false; }
    let (level, name) = BITS[i];
    let df = k.fields.expand(m.fields.len()); let dm = k.methods.expand(m.methods.len());
    let fields = || m.fields.iter().enumerate().filter(|(j, _)| !df[*j]).map(|(_, f)| f);
    let methods = || m.methods.iter().enumerate().filter(|(j, _)| !dm[*j]).map(|(_, f)| f);
    let nrec = m.record.as_ref().map(|r| r.len()).unwrap_or(0); let dr = k.records.expand(nrec);
    let recs = || m.record.iter().flatten().enumerate().filter(|(j, _)| !dr[*j] && k.on(Level::Class, "record")).map(|(_, r)| r);
    let code_on = k.on(Level::Method, "code");
    match (level, name) {
        (Level::Class, "inner_classes") => m.inner_classes.is_some(), (Level::Class, "enclosing_method") => m.enclosing_method.is_some(), (Level::Class, "signature") => m.signature.is_some(),
        (Level::Class, "source_file") => m.source_file.is_some(), (Level::Class, "source_debug_extension") => m.source_debug_extension.is_some(),
        (Level::Class, "runtime_visible_annotations") => !m.vis_annotations.is_empty(), (Level::Class, "runtime_invisible_annotations") => !m.invis_annotations.is_empty(),
        (Level::Class, "runtime_visible_type_annotations") => !m.vis_type_annotations.is_empty(), (Level::Class, "runtime_invisible_type_annotations") => !m.invis_type_annotations.is_empty(),
        (Level::Class, "module") => m.module.is_some(), (Level::Class, "module_packages") => m.module_packages.is_some(), (Level::Class, "module_main_class") => m.module_main_class.is_some(),
        (Level::Class, "nest_host") => m.nest_host.is_some(), (Level::Class, "nest_members") => m.nest_members.is_some(), (Level::Class, "permitted_subclasses") => m.permitted_subclasses.is_some(),
        (Level::Class, "record") => nrec > 0, (Level::Class, "unknown_attributes") => !m.unknown.is_empty(), (Level::Class, "fields") => !m.fields.is_empty(), (Level::Class, "methods") => !m.methods.is_empty(),
        (Level::Field, "constant_value") => fields().any(|f| f.constant_value.is_some()), (Level::Field, "signature") => fields().any(|f| f.signature.is_some()),
        (Level::Field, "runtime_visible_annotations") => fields().any(|f| !f.vis_annotations.is_empty()), (Level::Field, "runtime_invisible_annotations") => fields().any(|f| !f.invis_annotations.is_empty()),
        (Level::Field, "runtime_visible_type_annotations") => fields().any(|f| !f.vis_type_annotations.is_empty()), (Level::Field, "runtime_invisible_type_annotations") => fields().any(|f| !f.invis_type_annotations.is_empty()),
        (Level::Field, "unknown_attributes") => fields().any(|f| !f.unknown.is_empty()),
        (Level::Method, "code") => methods().any(|f| f.code.is_some()), (Level::Method, "exceptions") => methods().any(|f| f.exceptions.is_some()), (Level::Method, "signature") => methods().any(|f| f.signature.is_some()),
        (Level::Method, "runtime_visible_annotations") => methods().any(|f| !f.vis_annotations.is_empty()), (Level::Method, "runtime_invisible_annotations") => methods().any(|f| !f.invis_annotations.is_empty()),
        (Level::Method, "runtime_visible_type_annotations") => methods().any(|f| !f.vis_type_annotations.is_empty()), (Level::Method, "runtime_invisible_type_annotations") => methods().any(|f| !f.invis_type_annotations.is_empty()),
        (Level::Method, "runtime_visible_parameter_annotations") => methods().any(|f| f.vis_param_annotations.is_some()), (Level::Method, "runtime_invisible_parameter_annotations") => methods().any(|f| f.invis_param_annotations.is_some()),
        (Level::Method, "annotation_default") => methods().any(|f| f.annotation_default.is_some()), (Level::Method, "method_parameters") => methods().any(|f| f.method_parameters.is_some()),
        (Level::Method, "unknown_attributes") => methods().any(|f| !f.unknown.is_empty()),
        (Level::Code, n) => code_on && any_code(m, k, m.methods.len()).any(|c| match n {
            "stack_map_table" => c.frames.is_some(), "line_number_table" => c.line_numbers.is_some(), "local_variable_table" => c.lvt.is_some(), "local_variable_type_table" => c.lvtt.is_some(),
            "runtime_visible_type_annotations" => !c.vis_type_annotations.is_empty(), "runtime_invisible_type_annotations" => !c.invis_type_annotations.is_empty(), _ => !c.unknown.is_empty() }),
        (Level::Record, "signature") => recs().any(|r| r.signature.is_some()),
        (Level::Record, "runtime_visible_annotations") => recs().any(|r| !r.vis_annotations.is_empty()), (Level::Record, "runtime_invisible_annotations") => recs().any(|r| !r.invis_annotations.is_empty()),
        (Level::Record, "runtime_visible_type_annotations") => recs().any(|r| !r.vis_type_annotations.is_empty()), (Level::Record, "runtime_invisible_type_annotations") => recs().any(|r| !r.invis_type_annotations.is_empty()),
        (Level::Record, _) => recs().any(|r| !r.unknown.is_empty()),
        _ => false,
    }
}
fn account(cov: &mut Cov, rep: &mut Report, s: &Subject, k: &K, who: &str) {
    for i in 0..NBITS { if present(&s.model, k, i) { if k.bits[i] { cov.on[i] += 1; } else { cov.off[i] += 1; } } }
    if k.decline_class { rep.count(&format!("decline.{who}.class")); return; }
    let nrec = s.model.record.as_ref().map(|r| r.len()).unwrap_or(0);
    for (kind, pat, n) in [("field", &k.fields, s.model.fields.len()), ("method", &k.methods, s.model.methods.len()), ("record_component", &k.records, nrec), ("code", &k.code, s.model.methods.len())] {
        if kind == "record_component" && !k.on(Level::Class, "record") { continue; }
        let d = pat.expand(n);
        if d.iter().any(|x| *x) {
            rep.count(&format!("decline.{who}.{kind}.{}", pat.name()));
            if let Some(first) = d.iter().position(|x| *x) { if d[first..].iter().any(|x| !*x) { rep.count(&format!("decline.{who}.{kind}.accepted_after_declined")); } }
        }
    }
}
fn flush(cov: &Cov, rep: &mut Report) { for i in 0..NBITS { if cov.on[i] > 0 { rep.add(&format!("interest.{}.on_with_item", bit_name(i)), cov.on[i]); } if cov.off[i] > 0 { rep.add(&format!("interest.{}.off_with_item", bit_name(i)), cov.off[i]); } } }

// ------------------------------------------------------------------------------------------------ per-class evaluation

/// the masks tried on case `i`: all, none, single flags off / on in rotation, decline patterns in rotation, random ones
fn mask_plan(rng: &mut Rng, i: u64, singles: usize, declines: usize, randoms: usize) -> Vec<K> {
    let mut v = vec![K::all(), K::none()];
    for j in 0..singles { let b = ((i as usize) * singles + j) % NBITS; let mut k = K::all(); k.bits[b] = false; v.push(k); let b2 = ((i as usize) * singles + j + 17) % NBITS; let mut k = K::none(); k.bits[b2] = true;
        // a flag below a member needs the member (and for code flags the Code) to be reached
        k.bits[bit(Level::Class, "fields")] = true; k.bits[bit(Level::Class, "methods")] = true; if BITS[b2].0 == Level::Code { k.bits[bit(Level::Method, "code")] = true; } if BITS[b2].0 == Level::Record { k.bits[bit(Level::Class, "record")] = true; }
        v.push(k); }
    let pats = [Pat::All, Pat::First, Pat::Last, Pat::Every { k: 2, offset: 0 }, Pat::Every { k: 2, offset: 1 }, Pat::Every { k: 3, offset: 1 }, Pat::Random(rng.next_u64())];
    for j in 0..declines {
        let x = (i as usize) * declines + j;
        let p = pats[x % pats.len()].clone();
        let mut k = if (x / pats.len()) % 2 == 0 { K::all() } else { K::random(rng) };
        match (x / pats.len()) % 4 { 0 => k.fields = p, 1 => k.methods = p, 2 => { k.records = p; k.bits[bit(Level::Class, "record")] = true; } _ => { k.fields = p.clone(); k.methods = p; } }
        v.push(k);
    }
    for _ in 0..randoms { v.push(K::random(rng)); }
    // declining a Code attribute (visit_code -> None) and declining the class: a few per case
    { let mut k = K::all(); k.code = pats[(i as usize) % pats.len()].clone(); v.push(k); }
    if i % 4 == 0 { let mut k = K::random(rng); k.code = Pat::random(rng); k.bits[bit(Level::Method, "code")] = true; v.push(k); }
    { let mut k = if i % 2 == 0 { K::all() } else { K::random(rng) }; k.decline_class = true; v.push(k); }
    v
}

fn evaluate_class(rep: &mut Report, rng: &mut Rng, s: &Subject, case: u64, sizes: (usize, usize, usize), workload: &str) {
    let end = s.bytes.len() as u64;
    let mut cov = Cov { on: [0; NBITS], off: [0; NBITS] };
    let plan = mask_plan(rng, case, sizes.0, sizes.1, sizes.2);
    let mut partial = false;
    for k in &plan {
        // ---- read with the masked tree visitor
        let v = Visitor::Masked(k.clone());
        rep.eval(); rep.count("reads.masked"); rep.count("position.checked");
        let probs = problems_of_read(&s.bytes, 0, end, &v, s);
        if probs.is_empty() { rep.count("reads.masked.ok"); }
        report(rep, "read", &v, s, probs, &|t: &K| problems_of_read(&s.bytes, 0, end, &Visitor::Masked(t.clone()), s), json!({"workload": workload}));
        account(&mut cov, rep, s, k, "read");
        if k.bits.iter().any(|b| !*b) || k.fields != Pat::None || k.methods != Pat::None || k.records != Pat::None || k.decline_class { partial = true; }
        // ---- replay of the full tree into the same kind of visitor
        rep.eval(); rep.count("replays.masked");
        let probs = problems_of_replay(s, k);
        if probs.is_empty() { rep.count("replays.masked.ok"); }
        report(rep, "replay", &v, s, probs, &|t: &K| problems_of_replay(s, t), json!({"workload": workload}));
        account(&mut Cov { on: [0; NBITS], off: [0; NBITS] }, rep, s, k, "replay");
    }
    flush(&cov, rep);
    // ---- () : must consume exactly one class
    { let v = Visitor::Unit; rep.eval(); rep.count("reads.unit"); rep.count("position.checked"); let p = problems_of_read(&s.bytes, 0, end, &v, s); report(rep, "read", &v, s, p, &|_| vec![], json!({"workload": workload})); }
    // ---- harness-defined SimpleClassVisitor with its own masked method / code visitors
    for j in 0..2 {
        let mut k = if j == 0 { K::all() } else { K::random(rng) };
        k.fields = Pat::random(rng); k.methods = Pat::random(rng); if rng.chance(1, 6) { k.code = Pat::random(rng); }
        let v = Visitor::Simple(k.clone());
        rep.eval(); rep.count("reads.simple"); rep.count("position.checked");
        let p = problems_of_read(&s.bytes, 0, end, &v, s);
        if p.is_empty() { rep.count("reads.simple.ok"); }
        report(rep, "read", &v, s, p, &|t: &K| problems_of_read(&s.bytes, 0, end, &Visitor::Simple(t.clone()), s), json!({"workload": workload}));
        account(&mut Cov { on: [0; NBITS], off: [0; NBITS] }, rep, s, &simple_k(&k), "simple");
        // the same probe fed by replay of the full tree
        rep.eval(); rep.count("replays.simple");
        let replay_simple = |t: &K| -> Vec<Problem> {
            match guard(|| s.tree.clone().accept(simple::SimpleMulti::new(simple_cfg(t, s))).map(|m| simple::observations(m).into_iter().next()).map_err(|e| format!("{e:#}"))) {
                Err(p) => vec![Problem { key: format!("panic {}", p.site()), detail: json!({"panic": p.message}) }],
                Ok(Err(e)) => vec![Problem { key: "replay into the visitor fails".into(), detail: json!({"error": e}) }],
                Ok(Ok(None)) => vec![Problem { key: "visit_class called 0 times for one class".into(), detail: json!({}) }],
                Ok(Ok(Some(mut o))) => { for b in o.built.iter_mut() { b.deprecated = s.full.deprecated; b.synthetic = s.full.synthetic; } judge(&s.full, &simple_k(t), &o) }
            }
        };
        let p = replay_simple(&k);
        if p.is_empty() { rep.count("replays.simple.ok"); }
        report(rep, "replay", &v, s, p, &replay_simple, json!({"workload": workload}));
    }
    // ---- replay into the tree builder reproduces the class
    {
        rep.eval(); rep.count("replays.into_builder");
        match guard(|| s.tree.clone().accept(Vec::<ClassFile>::new()).map_err(|e| format!("{e:#}"))) {
            Err(p) => rep.violation(format!("C17 replay (Vec<ClassFile> visitor): panic {}", p.site()), json!({"class": s.name, "input_hex": hex(&s.bytes), "panic": p.message})),
            Ok(Err(e)) => rep.violation("C17 replay (Vec<ClassFile> visitor): replay into the tree builder fails", json!({"class": s.name, "input_hex": hex(&s.bytes), "error": e})),
            Ok(Ok(v)) => {
                if v.len() != 1 { rep.violation("C17 replay (Vec<ClassFile> visitor): replay into the tree builder does not produce exactly one class", json!({"class": s.name, "input_hex": hex(&s.bytes), "classes": v.len()})); }
                else {
                    let again = project::project(&v[0]);
                    if again != s.full { for d in cf::diff::diff(&s.full, &again, 4) { rep.violation(format!("C17 replay (Vec<ClassFile> visitor): rebuilt class differs from the replayed one at {}", d.signature()), json!({"class": s.name, "input_hex": hex(&s.bytes), "at": d.at, "tree": d.expected, "rebuilt": d.observed})); } }
                    else { rep.count("replays.into_builder.equal"); }
                }
            }
        }
    }
    for f in &s.feats { let (set, member) = f.split_once('.').unwrap_or(("misc", f)); if set != "insn" && set != "const" && set != "ev" && set != "handle" && set != "local" { rep.seen(&format!("{workload}.{set}"), member); } }
    if partial && (!s.model.fields.is_empty() || !s.model.methods.is_empty() || s.model.module.is_some()) { rep.nontrivial(features::fingerprint(&s.feats) ^ common::rng::fnv_str(workload)); }
    if s.bytes.len() < 700 && plan.len() > 4 {
        rep.sample(|| { let k = &plan[plan.len() - 4]; let o = replay_obs(s, k).ok().and_then(|r| r.ok()); json!({"kind": "class x mask", "class": s.name, "bytes_hex": hex(&s.bytes), "mask": k.to_json(),
            "received_on_replay": o.map(|o| json!({"fields_offered": o.offered.fields.len(), "methods_offered": o.offered.methods.len(), "built": o.built})) }) });
    }
}

// ------------------------------------------------------------------------------------------------ generation

fn gen_subject(rng: &mut Rng, i: u64, small: bool) -> Result<Subject, String> {
    let mut cfg = gen::GenCfg::default();
    if small { cfg.max_insns = 12; cfg.max_methods = 3; cfg.max_fields = 3; }
    // rotate through the regions that need a particular version so that every interest flag meets an item early in the run
    match i % 8 { 1 => cfg.major = Some(*rng.pick(&[61, 65, 67])), 2 => cfg.major = Some(*rng.pick(&[55, 60, 61])), 3 => cfg.major = Some(52), _ => {} }
    let mut m = gen::gen_class(rng, &cfg);
    if i % 16 == 5 && m.module.is_none() {
        // a module descriptor (the shared generator makes one in about 3% of the classes only)
        if m.major < 53 { m.major = 61; m.minor = 0; }
        let mut g = gen::G { rng, cfg: &cfg, major: m.major };
        let module = g.module();
        m.access = 0x8000; m.this_class = JS::new("module-info"); m.super_class = None; m.interfaces.clear(); m.fields.clear(); m.methods.clear(); m.record = None;
        m.module = Some(module);
    }
    let p = match i % 4 { 0 => (1, 4), 1 => (1, 2), _ => (3, 4) };
    dense::densify(&mut m, rng, &cfg, if small { (1, 3) } else { p });
    // every fifth subject (never the module one) with names / descriptors / strings redrawn from cf::hostile
    if i % 5 == 2 && m.module.is_none() { let lm = if rng.chance(1, 25) { 5000 } else { 60 }; cf::hostile::hostilise(rng, &mut m, (1, 3), lm); }
    let layout = if i % 3 == 0 { emit::Layout::canonical() } else { let mut l = emit::Layout::random(rng.next_u64()); if rng.chance(1, 6) { l.pool_filler = 250 + rng.below(20); } l };
    let bytes = emit::emit(&m, &layout).map_err(|e| format!("emit: {}", template(&e)))?;
    // harness self-check: the independent parser reads the model back and agrees on the length
    match parse::parse_prefix(&bytes, false) {
        Ok(p) if p.class == m && p.consumed == bytes.len() => {}
        Ok(p) => { eprintln!("HARNESS-ERROR parse(emit(M)) != M or length differs ({} vs {}): {:?}", p.consumed, bytes.len(), cf::diff::diff(&m, &p.class, 3)); std::process::exit(3); }
        Err(e) => { eprintln!("HARNESS-ERROR parse(emit(M)) failed: {e}"); std::process::exit(3); }
    }
    subject(format!("generated#{i}{}", if layout.canonical { " canonical layout".to_string() } else { format!(" random layout seed={} filler={}", layout.seed, layout.pool_filler) }), bytes, m)
}

/// A small class for the Miri slice: cf::gen sized down + densify + names / descriptors / strings redrawn from cf::hostile
/// (NUL, surrogates, long names, class names filling a descriptor), emitted, self-checked and read in full like `gen_subject`.
fn slice_subject(rng: &mut Rng, i: u64, tiny: bool) -> Result<Subject, String> {
    let mut cfg = gen::GenCfg { max_insns: 4, max_methods: if tiny { 1 } else { 2 }, max_fields: if tiny { 1 } else { 2 }, ..gen::GenCfg::default() };
    match i % 4 { 1 => cfg.major = Some(*rng.pick(&[61, 65, 67])), 2 => cfg.major = Some(*rng.pick(&[55, 60, 61])), 3 => cfg.major = Some(52), _ => {} }
    let mut m = gen::gen_class(rng, &cfg);
    dense::densify(&mut m, rng, &cfg, if tiny { (1, 8) } else { (1, 5) });
    // densify grows the member lists to 0..7 each: too much for an interpreter; keep the first few
    m.fields.truncate(if tiny { 1 } else { 2 }); m.methods.truncate(if tiny { 1 } else { 2 });
    cf::hostile::hostilise(rng, &mut m, (1, 2), if i % 8 == 7 { 600 } else { 24 });
    let layout = if i % 2 == 0 { emit::Layout::canonical() } else { emit::Layout::random(rng.next_u64()) };
    let bytes = emit::emit(&m, &layout).map_err(|e| format!("emit: {}", template(&e)))?;
    match parse::parse_prefix(&bytes, false) {
        Ok(p) if p.class == m && p.consumed == bytes.len() => {}
        other => { eprintln!("HARNESS-ERROR miri slice: parse(emit(M)) != M or length differs (case {i}): {:?}", other.err()); std::process::exit(3); }
    }
    subject(format!("miri#{i}"), bytes, m)
}

/// `c17 --miri-slice <seed> <cases> <max seconds>`: single-threaded, no files. Every case builds one small class with hostile
/// names and reads it in full (duke::read_class). Case index mod 8:
///  0: the ordinary per-class evaluation (`evaluate_class`) with the shortest mask plan (all, none, declined Code, declined class):
///     read_class_multi and ClassFile::accept with the Masked visitors, (), SimpleClassVisitor, Vec<ClassFile> (14 evaluations);
///  4: two classes concatenated: a masked read at the non-zero offset and one Vec<ClassFile> visitor carried through both reads,
///     judged as in the streams workload;
///  others: one mask of the ordinary plan (decline patterns and random masks in rotation): masked read + masked replay, judged and
///     reported as in `evaluate_class`.
fn miri_slice(seed: u64, cases: usize, max_s: u64) -> i32 {
    let mut rep = Report::new();
    let deadline = std::time::Instant::now() + std::time::Duration::from_secs(max_s);
    let (mut i, mut classes, mut bytes_in, mut skipped) = (0u64, 0u64, 0usize, 0u64);
    while (i as usize) < cases && std::time::Instant::now() < deadline {
        let mut rng = Rng::new(common::rng::case_seed(seed, "C17/miri", i));
        rep.cur = ("miri".into(), i);
        if i % 8 == 0 {
            match slice_subject(&mut rng, i, true) {
                Err(_) => skipped += 1,
                Ok(s) => { classes += 1; bytes_in += s.bytes.len(); evaluate_class(&mut rep, &mut rng, &s, i + 1, (0, 0, 0), "miri"); }
            }
        } else if i % 8 != 4 {
            match slice_subject(&mut rng, i, i % 2 == 1) {
                Err(_) => skipped += 1,
                Ok(s) => {
                    classes += 1; bytes_in += s.bytes.len();
                    let end = s.bytes.len() as u64;
                    let plan = mask_plan(&mut rng, i, 0, 2, 2);
                    let k = plan[2 + (i as usize) % 4].clone(); // plan[0], plan[1] = all, none (case 0 has them); then 2 decline patterns, 2 random masks
                    let v = Visitor::Masked(k.clone());
                    rep.eval(); rep.count("reads.masked");
                    let probs = problems_of_read(&s.bytes, 0, end, &v, &s);
                    if probs.is_empty() { rep.count("reads.masked.ok"); }
                    report(&mut rep, "read", &v, &s, probs, &|t: &K| problems_of_read(&s.bytes, 0, end, &Visitor::Masked(t.clone()), &s), json!({"workload": "miri"}));
                    rep.eval(); rep.count("replays.masked");
                    let probs = problems_of_replay(&s, &k);
                    if probs.is_empty() { rep.count("replays.masked.ok"); }
                    report(&mut rep, "replay", &v, &s, probs, &|t: &K| problems_of_replay(&s, t), json!({"workload": "miri"}));
                }
            }
        } else {
            let subjects: Vec<Subject> = (0..2).filter_map(|j| slice_subject(&mut rng, i * 2 + j, true).ok()).collect();
            if subjects.len() == 2 {
                let mut stream = vec![]; let mut bounds = vec![];
                for s in &subjects { let a = stream.len() as u64; stream.extend_from_slice(&s.bytes); bounds.push((a, stream.len() as u64)); }
                classes += 2; bytes_in += stream.len();
                // a masked read of the second class where it sits in the stream
                let (s, (a, b)) = (&subjects[1], bounds[1]);
                let v = Visitor::Masked(K::random(&mut rng));
                rep.eval(); rep.count("reads.in_stream");
                let probs = problems_of_read(&stream, a, b, &v, s);
                let alone = |t: &K| problems_of_read(&s.bytes, 0, s.bytes.len() as u64, &Visitor::Masked(t.clone()), s);
                let only_in_stream = !probs.is_empty() && v.k().is_some_and(|k| alone(k).is_empty());
                if only_in_stream { for p in probs.iter().take(2) { rep.violation(format!("C17 stream ({}): only when the class is not at the start of the stream: {}", v.name(), p.key), json!({"stream_hex": hex(&stream), "class_bounds": bounds, "problem": p.detail})); } }
                else { report(&mut rep, "read", &v, s, probs, &alone, json!({"workload": "miri streams", "class_bounds": bounds})); }
                // one Vec<ClassFile> visitor carried through both reads on one cursor
                rep.eval(); rep.count("streams.vec_visitor");
                let r = guard(|| {
                    let mut t = Tracked::new(&stream, 0);
                    let mut v: Vec<ClassFile> = vec![]; let mut pos = vec![];
                    for _ in 0..subjects.len() { match duke::read_class_multi(&mut t, v) { Ok(nv) => { v = nv; pos.push(t.pos); } Err(e) => return Err((format!("{e:#}"), pos)) } }
                    Ok((v, pos))
                });
                let detail = |x: Value| json!({"stream_hex": hex(&stream), "class_bounds": bounds, "observed": x});
                match r {
                    Err(p) => rep.violation(format!("C17 stream (Vec<ClassFile> visitor): panic {}", p.site()), detail(json!(p.message))),
                    Ok(Err((e, pos))) => rep.violation("C17 stream (Vec<ClassFile> visitor): a successive read fails although every class reads alone", detail(json!({"error": e, "positions_after_reads": pos}))),
                    Ok(Ok((v, pos))) => {
                        let want: Vec<u64> = bounds.iter().map(|b| b.1).collect();
                        if pos != want { rep.violation("C17 stream (Vec<ClassFile> visitor): cursor is not at the end of the class after a successive read", detail(json!({"positions_after_reads": pos, "expected": want}))); }
                        else if v.len() != subjects.len() { rep.violation("C17 stream (Vec<ClassFile> visitor): k concatenated classes are not delivered one per read", detail(json!({"classes": v.len(), "reads": subjects.len()}))); }
                        else if let Some(j) = (0..v.len()).find(|j| project::project(&v[*j]) != subjects[*j].full) { rep.violation("C17 stream (Vec<ClassFile> visitor): class delivered by a successive read differs from reading it alone", detail(json!({"read_index": j}))); }
                        else { rep.count("streams.vec_visitor.ok"); }
                    }
                }
            } else { skipped += 1; }
        }
        i += 1;
    }
    for v in rep.violations.values() { println!("SLICE-OBSERVATION {} ({}x)", v.signature, v.count); }
    println!("MIRI-SLICE done cases={} (asked for {}) evaluations={} observations={} classes={} bytes_in={} skipped={} masked_reads={} (ok {}) masked_replays={} (ok {}) simple_reads={} simple_replays={} unit_reads={} replays_into_builder={} (equal {}) stream_reads={} vec_visitor_streams={} (ok {})",
        i, cases, rep.evaluations, rep.violations.len(), classes, bytes_in, skipped, rep.get("reads.masked"), rep.get("reads.masked.ok"), rep.get("replays.masked"), rep.get("replays.masked.ok"), rep.get("reads.simple"), rep.get("replays.simple"), rep.get("reads.unit"),
        rep.get("replays.into_builder"), rep.get("replays.into_builder.equal"), rep.get("reads.in_stream"), rep.get("streams.vec_visitor"), rep.get("streams.vec_visitor.ok"));
    0
}

fn main() {
    if let Some((seed, n, max_s)) = common::miri::slice_args() { std::process::exit(miri_slice(seed, n, max_s)); }
    let mut ctx = Ctx::from_args("C17", 40, 480);
    let replay = load_replay(&mut ctx);
    let mut rep = Report::new();

    // ---- self-checks and canaries: the oracle must accept a correct observation and flag wrong ones
    {
        let mut rng = Rng::new(11);
        let mut found = None;
        for i in 0..200u64 { if let Ok(s) = gen_subject(&mut rng, i * 8 + 4, false) { if s.full.fields.len() >= 2 && s.full.methods.iter().any(|m| m.code.as_ref().is_some_and(|c| c.line_numbers.is_some())) && s.full.source_file.is_some() { found = Some(s); break; } } }
        let Some(s) = found else { eprintln!("HARNESS-ERROR canary: no suitable generated class"); std::process::exit(3) };
        let end = s.bytes.len() as u64;
        let all = K::all();
        let ok = problems_of_read(&s.bytes, 0, end, &Visitor::Masked(all.clone()), &s);
        if !ok.is_empty() { eprintln!("note: canary class already shows a problem with the full-interest visitor: {}", ok[0].key); }
        // (a) wrong position expectation must be flagged
        if !problems_of_read(&s.bytes, 0, end - 1, &Visitor::Unit, &s).iter().any(|p| p.key.starts_with("cursor is not at the end")) { eprintln!("HARNESS-ERROR canary: wrong end position not flagged"); std::process::exit(3); }
        // (b) an observation made with mask A judged against mask B (B wants more) must be flagged as missing
        let mut a = K::all(); a.bits[bit(Level::Class, "source_file")] = false; a.bits[bit(Level::Code, "line_number_table")] = false; a.fields = Pat::First;
        let Ok(Ok(obs_a)) = replay_obs(&s, &a) else { eprintln!("HARNESS-ERROR canary: replay failed"); std::process::exit(3) };
        let Ok(r) = read_with(&s.bytes, 0, &Visitor::Masked(a.clone()), &s) else { eprintln!("HARNESS-ERROR canary: read panicked"); std::process::exit(3) };
        let Ok(Some(obs_r)) = r.outcome else { eprintln!("HARNESS-ERROR canary: masked read failed"); std::process::exit(3) };
        if !judge(&s.full, &a, &obs_a).is_empty() || !judge(&s.full, &a, &obs_r).is_empty() { eprintln!("HARNESS-ERROR canary: correct masked observation judged wrong: {:?}", judge(&s.full, &a, &obs_r).first().map(|p| &p.key)); std::process::exit(3); }
        let keys: Vec<String> = judge(&s.full, &all, &obs_r).into_iter().map(|p| p.key).collect();
        if !keys.iter().any(|k| k.contains("source_file")) || !keys.iter().any(|k| k.contains("line_numbers")) { eprintln!("HARNESS-ERROR canary: missing items not flagged: {keys:?}"); std::process::exit(3); }
        // (c) a received item that the full read does not report must be flagged (F altered)
        let mut wrong = s.full.clone(); wrong.source_file = Some(JS::new("Other.java")); wrong.fields[1].access ^= 1;
        let mut none = K::none(); none.bits[bit(Level::Class, "fields")] = true;
        let Ok(Ok(obs_all)) = replay_obs(&s, &all) else { eprintln!("HARNESS-ERROR canary: replay failed"); std::process::exit(3) };
        let keys: Vec<String> = judge(&wrong, &none, &obs_all).into_iter().map(|p| p.key).collect();
        if !keys.iter().any(|k| k.contains("received item") && k.contains("source_file")) || !keys.iter().any(|k| k.starts_with("fields offered")) { eprintln!("HARNESS-ERROR canary: foreign items not flagged: {keys:?}"); std::process::exit(3); }
        // (d) trigger minimisation names the single deviation that matters
        let (t, _) = trigger(&a, &|k: &K| !k.on(Level::Code, "line_number_table"));
        if t != "interest code.line_number_table off" { eprintln!("HARNESS-ERROR canary: trigger minimisation gives {t:?}"); std::process::exit(3); }
    }

    let sizes = ctx.tier.pick((6, 6, 14), (8, 8, 28));
    // ---- workload 1: javac corpus x masks (more masks per class: few classes)
    let corpus = cf::corpus::load(&ctx.verif_dir);
    let rounds = ctx.tier.pick(2u64, 12u64);
    run_cases(&ctx, &replay, &mut rep, "corpus", corpus.len() as u64 * rounds, |rng, rep, i| {
        let (name, bytes) = &corpus[(i % corpus.len() as u64) as usize];
        let model = match parse::parse(bytes) { Ok(m) => m, Err(e) => { eprintln!("HARNESS-ERROR independent parser rejects corpus class {name}: {e}"); std::process::exit(3); } };
        match subject(format!("corpus {name}"), bytes.clone(), model) {
            Err(why) => { rep.count("skipped.corpus"); rep.note(format!("corpus class {name} skipped: {why}")); }
            Ok(s) => { rep.count("classes.corpus"); evaluate_class(rep, rng, &s, i, sizes, "corpus"); }
        }
    });

    // ---- workload 2: 2..6 classes concatenated in one stream, one per successive read, a different visitor per read
    let n = ctx.tier.pick(600, 12_000);
    run_cases(&ctx, &replay, &mut rep, "streams", n, |rng, rep, i| {
        let k = rng.usize_in(2, 6);
        let mut subjects = vec![];
        for j in 0..k { let small = !rng.chance(1, 4); match gen_subject(rng, i * 8 + j as u64, small) { Ok(s) => subjects.push(s), Err(why) => { rep.count("skipped.streams"); rep.note(format!("generated class skipped: {why}")); return; } } }
        if rng.chance(1, 3) && !corpus.is_empty() { let (name, bytes) = rng.pick(&corpus); if let Ok(m) = parse::parse(bytes) { if let Ok(s) = subject(format!("corpus {name}"), bytes.clone(), m) { let at = rng.below(subjects.len() + 1); subjects.insert(at, s); subjects.truncate(6); } } }
        let mut stream = vec![]; let mut bounds = vec![];
        for s in &subjects { let a = stream.len() as u64; stream.extend_from_slice(&s.bytes); bounds.push((a, stream.len() as u64)); }
        rep.count(&format!("streams.of_{}", subjects.len()));
        // (a) a different fresh visitor for every read; every read starts where the previous class ends
        let mut kinds = vec![];
        for (j, s) in subjects.iter().enumerate() {
            let v = match rng.below(10) { 0 => Visitor::Unit, 1 => Visitor::Full, 2 => { let mut k = K::random(rng); k.decline_class = true; Visitor::Masked(k) } 3 => Visitor::Masked(K::none()), 4 | 5 => { let mut k = K::random(rng); k.records = Pat::None; Visitor::Simple(k) } _ => Visitor::Masked(K::random(rng)) };
            kinds.push(v.name());
            rep.eval(); rep.count("reads.in_stream"); rep.count("position.checked"); if j > 0 { rep.count("reads.in_stream.not_first"); }
            let (a, b) = bounds[j];
            let probs = problems_of_read(&stream, a, b, &v, s);
            let derailed = probs.iter().any(|p| p.key.starts_with("the read fails") || p.key.starts_with("cursor is not") || p.key.starts_with("panic"));
            // the same visitor on the class alone: a problem that only shows up inside the stream is a stream problem
            let alone = |t: &K| problems_of_read(&s.bytes, 0, s.bytes.len() as u64, &match &v { Visitor::Simple(_) => Visitor::Simple(t.clone()), _ => Visitor::Masked(t.clone()) }, s);
            let only_in_stream = !probs.is_empty() && v.k().is_some_and(|k| alone(k).is_empty());
            if only_in_stream { for p in probs.iter().take(2) { rep.violation(format!("C17 stream ({}): only when the class is not at the start of the stream: {}", v.name(), p.key), json!({"stream_hex": hex(&stream), "class_bounds": bounds, "read_index": j, "mask": v.k().map(|k| k.to_json()), "problem": p.detail})); } }
            else { report(rep, "read", &v, s, probs, &alone, json!({"workload": "streams", "read_index": j, "class_bounds": bounds, "visitors": kinds})); }
            if let Some(k) = v.k() { let kk = if matches!(v, Visitor::Simple(_)) { simple_k(k) } else { k.clone() }; account(&mut Cov { on: [0; NBITS], off: [0; NBITS] }, rep, s, &kk, "stream"); }
            if derailed { rep.count("streams.abandoned_after_derailed_read"); return; }
        }
        // (b) one Vec<ClassFile> visitor carried through k successive reads on one cursor
        rep.eval(); rep.count("streams.vec_visitor");
        let r = guard(|| {
            let mut t = Tracked::new(&stream, 0);
            let mut v: Vec<ClassFile> = vec![]; let mut pos = vec![];
            for _ in 0..subjects.len() { match duke::read_class_multi(&mut t, v) { Ok(nv) => { v = nv; pos.push(t.pos); } Err(e) => return Err((format!("{e:#}"), pos)) } }
            Ok((v, pos))
        });
        let detail = |x: Value| json!({"stream_hex": hex(&stream), "class_bounds": bounds, "observed": x});
        match r {
            Err(p) => rep.violation(format!("C17 stream (Vec<ClassFile> visitor): panic {}", p.site()), detail(json!(p.message))),
            Ok(Err((e, pos))) => rep.violation("C17 stream (Vec<ClassFile> visitor): a successive read fails although every class reads alone", detail(json!({"error": e, "positions_after_reads": pos}))),
            Ok(Ok((v, pos))) => {
                rep.add("position.checked", pos.len() as u64);
                let want: Vec<u64> = bounds.iter().map(|b| b.1).collect();
                if pos != want { rep.violation("C17 stream (Vec<ClassFile> visitor): cursor is not at the end of the class after a successive read", detail(json!({"positions_after_reads": pos, "expected": want}))); }
                else if v.len() != subjects.len() { rep.violation("C17 stream (Vec<ClassFile> visitor): k concatenated classes are not delivered one per read", detail(json!({"classes": v.len(), "reads": subjects.len()}))); }
                else if let Some(j) = (0..v.len()).find(|j| project::project(&v[*j]) != subjects[*j].full) { rep.violation("C17 stream (Vec<ClassFile> visitor): class delivered by a successive read differs from reading it alone", detail(json!({"read_index": j}))); }
                else { rep.count("streams.vec_visitor.ok"); }
            }
        }
        let mut fp = String::new(); for s in &subjects { fp.push_str(&format!("{:x}|", features::fingerprint(&s.feats))); }
        rep.nontrivial(common::rng::fnv_str(&fp));
        if stream.len() < 1500 { rep.sample(|| json!({"kind": "stream", "classes": subjects.len(), "class_bounds": bounds, "visitors": kinds, "stream_hex": hex(&stream)})); }
    });

    // ---- workload 3: generated dense classes x masks (last: the only one a time cut may shorten; its obligations are met within the first few hundred cases)
    let n = ctx.tier.pick(2_000, 40_000);
        run_cases(&ctx, &replay, &mut rep, "generated", n, |rng, rep, i| {
        match gen_subject(rng, i, false) {
            Err(why) => { rep.count("skipped.generated"); rep.note(format!("generated class skipped: {why}")); }
            Ok(s) => { rep.count("classes.generated"); evaluate_class(rep, rng, &s, i, sizes, "generated"); }
        }
    });

    let mut meta = Meta::new("exploration", "generated dense classes (cf::gen + c17 densify: most attribute kinds at class / field / method / Code / record-component level, 0-7 members, versions 45-67, module descriptors) under canonical and random layouts, the javac corpus, and streams of 2-6 concatenated classes; every class is read and replayed under all/none/single-flag-off/single-flag-on/random interest masks and none/all/first/last/every-k-th/random decline patterns for fields, methods, record components, Code and the class; further visitors: (), a harness-defined SimpleClassVisitor with harness-defined masked method/code visitors, Vec<ClassFile>. A case is non-trivial if a partial mask or a decline met a class with members (or a module); distinct = feature-set fingerprint of the class per workload (streams: tuple of fingerprints)")
        .assume("F (the full read) is the reference: whether F itself is right is C01's business; classes on which the full read fails are skipped and counted")
        .assume("the masked visitors forward what they accept unchanged to duke's own tree builders, so the built tree records exactly what was received (duke::verif::Masked inside duke; the SimpleClassVisitor probe outside)")
        .assume("presence of an item (for the coverage obligations) is taken from the independent parser's model of the same bytes");
    if replay.is_none() {
        let mut missing_on = vec![]; let mut missing_off = vec![];
        for i in 0..NBITS { if rep.get(&format!("interest.{}.on_with_item", bit_name(i))) == 0 { missing_on.push(bit_name(i)); } if rep.get(&format!("interest.{}.off_with_item", bit_name(i))) == 0 { missing_off.push(bit_name(i)); } }
        meta.oblige(format!("every one of the {NBITS} interest flags seen ON with an item present (missing: {missing_on:?})"), missing_on.is_empty());
        meta.oblige(format!("every one of the {NBITS} interest flags seen OFF with an item present (missing: {missing_off:?})"), missing_off.is_empty());
        let mut missing = vec![];
        for who in ["read", "replay"] { for kind in ["field", "method", "record_component"] { for p in ["all", "first", "last", "every_kth", "random", "accepted_after_declined"] { let key = format!("decline.{who}.{kind}.{p}"); if rep.get(&key) == 0 { missing.push(key); } } } }
        for key in ["decline.read.class", "decline.replay.class", "decline.read.code.first", "decline.read.code.all", "decline.simple.field.first", "decline.simple.method.last", "decline.stream.method.random"] { if rep.get(key) == 0 { missing.push(key.to_string()); } }
        meta.oblige(format!("every decline pattern executed for fields, methods and record components, on read and on replay, with an accepted member after a declined one (missing: {missing:?})"), missing.is_empty());
        let reads = rep.get("reads.masked") + rep.get("reads.unit") + rep.get("reads.simple") + rep.get("reads.in_stream") + rep.get("streams.vec_visitor.ok") * 0;
        meta.oblige("the position check was executed on every read", rep.get("position.checked") >= reads && reads > 0);
        meta.oblige("reads at a non-zero stream offset were observed (streams of 2..6 classes)", rep.get("reads.in_stream.not_first") >= 100 && (2..=6).all(|k| rep.get(&format!("streams.of_{k}")) > 0));
        meta.oblige("corpus classes were evaluated", rep.get("classes.corpus") >= 100);
        meta.oblige("replay into the tree builder was compared", rep.get("replays.into_builder") >= 100);
        meta.oblige("(), SimpleClassVisitor and Vec<ClassFile> visitors were exercised", rep.get("reads.unit") > 0 && rep.get("reads.simple") > 0 && rep.get("streams.vec_visitor") > 0);
    }
    if replay.is_none() {
        if ctx.tier == Tier::Thorough {
            let r = common::miri::run_slice(&ctx, "c17", env!("CARGO_MANIFEST_DIR"), MIRI_CASES, 150, 300);
            if let Some(line) = r.ub { rep.cur = ("miri".into(), 0); rep.violation(format!("miri: {line}"), json!({"how": format!("cargo +nightly miri run --offline -p c17 -- --miri-slice <seed> {MIRI_CASES} 150"), "seed": ctx.seed as i64, "status": r.status})); }
            meta.extra.insert("miri_slice".into(), json!(r.status));
        } else { meta.extra.insert("miri_slice".into(), json!("not run in the quick tier")); }
    }
    std::process::exit(finish(&ctx, rep, meta));
}
/// cases asked of the Miri slice in the thorough tier; it stops by itself after 150 s, checked between cases: one `evaluate_class` case can take 60 s (see NOTES.md)
const MIRI_CASES: usize = 16;
