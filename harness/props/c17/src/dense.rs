//! Makes a generated class "dense": most attribute kinds present at every level and enough members for the decline
//! patterns. The shared generator draws each attribute with a small probability (good for C01); for C17 every
//! interest bit needs an item to skip or to deliver, in one class together with many others.
use cf::gen::{GenCfg, G};
use cf::model::*;
use common::Rng;

const SIGS: [&str; 4] = ["TT;", "Ljava/util/List<TT;>;", "<T:Ljava/lang/Object;>(TT;)V", "<T:Ljava/lang/Object;>Ljava/lang/Object;"];

fn anns(g: &mut G, p: (u32, u32)) -> Vec<Annotation> { if g.major >= 49 && g.rng.chance(p.0, p.1) { let n = g.rng.usize_in(1, 3); (0..n).map(|_| g.annotation(1)).collect() } else { vec![] } }
fn path(g: &mut G) -> Vec<(u8, u8)> { let n = g.rng.small(3); (0..n).map(|_| { let k = g.rng.below(4) as u8; (k, if k == 3 { g.rng.below(4) as u8 } else { 0 }) }).collect() }
fn tanns(g: &mut G, p: (u32, u32), mut target: impl FnMut(&mut G) -> Target) -> Vec<TypeAnnotation> {
    if g.major >= 52 && g.rng.chance(p.0, p.1) { let n = g.rng.usize_in(1, 2); (0..n).map(|_| { let t = target(g); TypeAnnotation { target: t, path: path(g), annotation: g.annotation(2) } }).collect() } else { vec![] }
}
fn unknown(g: &mut G, p: (u32, u32)) -> Vec<(JS, Bytes)> {
    if !g.rng.chance(p.0, p.1) { return vec![]; }
    let n = g.rng.usize_in(1, 3);
    (0..n).map(|_| {
        // names close to known ones on purpose: only an exact match may be treated as the known attribute
        let name = *g.rng.pick(&["org.example.Custom", "Foo", "ScalaSig", "x", "Code2", "deprecated", "Signatur", "LineNumberTables", "RuntimeVisibleAnnotation", "StackMapTable2", ""]);
        let len = *g.rng.pick(&[0usize, 1, 2, 3, 7, 20, 300]); let bytes = (0..len).map(|_| g.rng.next_u32() as u8).collect();
        (JS::new(name), Bytes(bytes))
    }).collect()
}
fn sig(g: &mut G, p: (u32, u32)) -> Option<JS> { if g.major >= 49 && g.rng.chance(p.0, p.1) { Some(JS::new(*g.rng.pick(&SIGS))) } else { None } }
fn vtype(g: &mut G, n: usize) -> VType {
    match g.rng.below(9) { 0 => VType::Top, 1 => VType::Int, 2 => VType::Float, 3 => VType::Double, 4 => VType::Long, 5 => VType::Null, 6 => VType::UninitThis, 7 => VType::Object(g.class_name()), _ => VType::Uninit(g.rng.below(n) as Pos) }
}

fn dense_code(g: &mut G, c: &mut Code, p: (u32, u32)) {
    let n = c.insns.len(); if n == 0 { return; }
    if c.line_numbers.is_none() && g.rng.chance(p.0, p.1) { let k = g.rng.usize_in(1, 6); c.line_numbers = Some((0..k).map(|_| (g.rng.below(n) as Pos, g.rng.next_u32() as u16)).collect()); }
    let lv = |g: &mut G, sig: bool| -> LocalVar {
        let s = g.rng.below(n); let e = if g.rng.chance(1, 3) { n } else { g.rng.usize_in(s, n) };
        LocalVar { start: s as Pos, end: e as Pos, name: g.js_ident(), desc_or_sig: if sig { JS::new("TT;") } else { g.field_desc() }, index: *g.rng.pick(&[0, 1, 2, 3, 4, 255, 256, 65535]) }
    };
    if c.lvt.is_none() && g.rng.chance(p.0, p.1) { let k = g.rng.usize_in(1, 4); c.lvt = Some((0..k).map(|_| lv(g, false)).collect()); }
    if c.lvtt.is_none() && g.major >= 49 && g.rng.chance(p.0, p.1) { let k = g.rng.usize_in(1, 3); c.lvtt = Some((0..k).map(|_| lv(g, true)).collect()); }
    if c.frames.is_none() && g.major >= 50 && g.rng.chance(p.0, p.1) {
        let k = g.rng.usize_in(1, 5).min(n);
        let mut at: Vec<usize> = (0..k).map(|_| g.rng.below(n)).collect(); at.sort(); at.dedup();
        c.frames = Some(at.into_iter().map(|pos| {
            let kind = match g.rng.below(6) {
                0 | 1 => FrameKind::Same, 2 => FrameKind::SameLocals1(vtype(g, n)), 3 => FrameKind::Chop(g.rng.usize_in(1, 3) as u8),
                4 => { let k = g.rng.usize_in(1, 3); FrameKind::Append((0..k).map(|_| vtype(g, n)).collect()) }
                _ => { let a = g.rng.small(4); let b = g.rng.small(3); FrameKind::Full { locals: (0..a).map(|_| vtype(g, n)).collect(), stack: (0..b).map(|_| vtype(g, n)).collect() } }
            };
            Frame { at: pos as Pos, kind }
        }).collect());
    }
    let nexc = c.exceptions.len();
    let mut tgt = |g: &mut G| match g.rng.below(if nexc > 0 { 4 } else { 3 }) {
        0 => { let k = g.rng.small(3); Target::LocalVar(0x40 + g.rng.below(2) as u8, (0..k).map(|_| { let s = g.rng.below(n); (s as Pos, g.rng.usize_in(s, n) as Pos, g.rng.below(300) as u16) }).collect()) }
        1 => Target::Offset(g.rng.usize_in(0x43, 0x46) as u8, g.rng.below(n) as Pos),
        2 => Target::TypeArgument(g.rng.usize_in(0x47, 0x4B) as u8, g.rng.below(n) as Pos, g.rng.below(4) as u8),
        _ => Target::Catch(g.rng.below(nexc) as u16),
    };
    if c.vis_type_annotations.is_empty() { c.vis_type_annotations = tanns(g, p, &mut tgt); }
    if c.invis_type_annotations.is_empty() { c.invis_type_annotations = tanns(g, p, &mut tgt); }
    if c.unknown.is_empty() { c.unknown = unknown(g, p); }
}

/// `p` = probability of adding each attribute kind that is still absent
pub fn densify(m: &mut Class, rng: &mut Rng, cfg: &GenCfg, p: (u32, u32)) {
    let mut g = G { rng, cfg, major: m.major };
    let g = &mut g;
    if m.module.is_some() {
        if m.module_packages.is_none() && g.rng.chance(p.0, p.1) { m.module_packages = Some(vec![JS::new("a/b"), JS::new("p")]); }
        if m.module_main_class.is_none() && g.rng.chance(p.0, p.1) { m.module_main_class = Some(g.class_name()); }
    } else {
        let nf = g.rng.usize_in(0, 7); while m.fields.len() < nf { let f = g.field(); m.fields.push(f); }
        let nm = g.rng.usize_in(0, 7); while m.methods.len() < nm { let x = g.method(); m.methods.push(x); }
    }
    if m.inner_classes.is_none() && g.rng.chance(p.0, p.1) { let k = g.rng.usize_in(1, 3); m.inner_classes = Some((0..k).map(|_| InnerClass { inner: g.class_name(), outer: if g.rng.bool() { Some(g.class_name()) } else { None }, name: if g.rng.bool() { Some(g.js_ident()) } else { None }, flags: 0x0008 }).collect()); }
    if m.enclosing_method.is_none() && g.major >= 49 && g.rng.chance(p.0, p.1) { m.enclosing_method = Some(EnclosingMethod { class: g.class_name(), method: if g.rng.bool() { Some((g.member_name(), g.method_desc())) } else { None } }); }
    if m.signature.is_none() { m.signature = sig(g, p); }
    if m.source_file.is_none() && g.rng.chance(p.0, p.1) { m.source_file = Some(JS::new("Bar.java")); }
    if m.source_debug_extension.is_none() && g.major >= 49 && g.rng.chance(p.0, p.1) { m.source_debug_extension = Some(Bytes(g.any_string().0)); }
    if m.vis_annotations.is_empty() { m.vis_annotations = anns(g, p); }
    if m.invis_annotations.is_empty() { m.invis_annotations = anns(g, p); }
    let mut ct = |g: &mut G| match g.rng.below(3) { 0 => Target::TypeParameter(0x00, g.rng.below(3) as u8), 1 => Target::Supertype(if g.rng.bool() { 65535 } else { g.rng.below(3) as u16 }), _ => Target::TypeParameterBound(0x11, g.rng.below(3) as u8, g.rng.below(3) as u8) };
    if m.vis_type_annotations.is_empty() { m.vis_type_annotations = tanns(g, p, &mut ct); }
    if m.invis_type_annotations.is_empty() { m.invis_type_annotations = tanns(g, p, &mut ct); }
    if g.major >= 55 && m.nest_host.is_none() && m.nest_members.is_none() && g.rng.chance(p.0, p.1) { if g.rng.bool() { m.nest_host = Some(g.class_name()); } else { let k = g.rng.usize_in(1, 3); m.nest_members = Some((0..k).map(|_| g.class_name()).collect()); } }
    if g.major >= 61 && m.permitted_subclasses.is_none() && g.rng.chance(p.0, p.1) { let k = g.rng.usize_in(1, 3); m.permitted_subclasses = Some((0..k).map(|_| g.class_name()).collect()); }
    if g.major >= 60 && m.module.is_none() && g.rng.chance(p.0, p.1) {
        let have = m.record.take().unwrap_or_default();
        let k = g.rng.usize_in(1, 5).max(have.len());
        let mut rcs = have; while rcs.len() < k { rcs.push(RecordComponent { name: g.js_ident(), desc: g.field_desc(), ..Default::default() }); }
        m.record = Some(rcs);
    }
    if let Some(rcs) = &mut m.record {
        for rc in rcs.iter_mut() {
            if rc.signature.is_none() { rc.signature = sig(g, p); }
            if rc.vis_annotations.is_empty() { rc.vis_annotations = anns(g, p); }
            if rc.invis_annotations.is_empty() { rc.invis_annotations = anns(g, p); }
            if rc.vis_type_annotations.is_empty() { rc.vis_type_annotations = tanns(g, p, |_| Target::Empty(0x13)); }
            if rc.invis_type_annotations.is_empty() { rc.invis_type_annotations = tanns(g, p, |_| Target::Empty(0x13)); }
            if rc.unknown.is_empty() { rc.unknown = unknown(g, p); }
        }
    }
    if m.unknown.is_empty() { m.unknown = unknown(g, p); }
    for f in m.fields.iter_mut() {
        if f.constant_value.is_none() && g.rng.chance(p.0, p.1) { f.constant_value = Some(match g.rng.below(3) { 0 => Const::Int(g.rng.next_u32() as i32), 1 => Const::Str(g.any_string()), _ => Const::Float(g.rng.next_u32()) }); }
        if f.signature.is_none() { f.signature = sig(g, p); }
        if f.vis_annotations.is_empty() { f.vis_annotations = anns(g, p); }
        if f.invis_annotations.is_empty() { f.invis_annotations = anns(g, p); }
        if f.vis_type_annotations.is_empty() { f.vis_type_annotations = tanns(g, p, |_| Target::Empty(0x13)); }
        if f.invis_type_annotations.is_empty() { f.invis_type_annotations = tanns(g, p, |_| Target::Empty(0x13)); }
        if f.unknown.is_empty() { f.unknown = unknown(g, p); }
    }
    for x in m.methods.iter_mut() {
        if x.exceptions.is_none() && g.rng.chance(p.0, p.1) { let k = g.rng.usize_in(1, 3); x.exceptions = Some((0..k).map(|_| g.class_name()).collect()); }
        if x.signature.is_none() { x.signature = sig(g, p); }
        if x.vis_annotations.is_empty() { x.vis_annotations = anns(g, p); }
        if x.invis_annotations.is_empty() { x.invis_annotations = anns(g, p); }
        let mut mt = |g: &mut G| match g.rng.below(6) {
            0 => Target::TypeParameter(0x01, g.rng.below(3) as u8), 1 => Target::TypeParameterBound(0x12, g.rng.below(3) as u8, g.rng.below(3) as u8),
            2 => Target::Empty(0x14), 3 => Target::Empty(0x15), 4 => Target::FormalParameter(g.rng.below(4) as u8), _ => Target::Throws(g.rng.below(3) as u16),
        };
        if x.vis_type_annotations.is_empty() { x.vis_type_annotations = tanns(g, p, &mut mt); }
        if x.invis_type_annotations.is_empty() { x.invis_type_annotations = tanns(g, p, &mut mt); }
        if g.major >= 49 {
            let mk = |g: &mut G| -> Vec<Vec<Annotation>> { let np = g.rng.usize_in(1, 3); (0..np).map(|_| { let k = g.rng.small(2); (0..k).map(|_| g.annotation(2)).collect() }).collect() };
            if x.vis_param_annotations.is_none() && g.rng.chance(p.0, 2 * p.1) { x.vis_param_annotations = Some(mk(g)); }
            if x.invis_param_annotations.is_none() && g.rng.chance(p.0, 2 * p.1) { x.invis_param_annotations = Some(mk(g)); }
            if x.annotation_default.is_none() && g.rng.chance(p.0, 2 * p.1) { x.annotation_default = Some(g.element_value(1)); }
        }
        if g.major >= 52 && x.method_parameters.is_none() && g.rng.chance(p.0, p.1) { let k = g.rng.usize_in(1, 4); x.method_parameters = Some((0..k).map(|_| (if g.rng.chance(1, 4) { None } else { Some(g.js_ident()) }, 0x0010u16)).collect()); }
        if x.unknown.is_empty() { x.unknown = unknown(g, p); }
        if let Some(c) = &mut x.code { dense_code(g, c, p); }
    }
}
