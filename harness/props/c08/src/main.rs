//! C08 — reordering namespaces is a faithful permutation.
//!
//! Judged: reorder(π)(M) equals the reference (rows permuted, keys and descriptors re-expressed in the new first
//! namespace, comments and parameter indices untouched) for every permutation π of the namespaces; identity changes
//! nothing; reorder(π⁻¹)∘reorder(π) = id; a class / field / method without a name in the new first namespace makes
//! the call fail (an `Ok` would have to drop or mis-key it); two entries that would get the same key make it fail.
//! Not judged: a *parameter* without a name in the new first namespace (parameters are keyed by index; a parameter
//! without a first name is a legal entry) — `Ok` must then equal the reference; unknown namespace names.
use common::{par::*, report::{finish, Meta}, *};
use maps::{cmp, desc, gen, GenCfg, Ins, Maps};
use std::collections::{BTreeMap, BTreeSet};

#[derive(Clone, Debug, PartialEq, Eq)]
enum RefErr { Missing(&'static str), Collision(&'static str) }

fn perm_row(r: &maps::model::Row, p: &[usize]) -> maps::model::Row { p.iter().map(|&i| r[i].clone()).collect() }

/// Reference reorder, written from the property statement.
fn ref_reorder(m: &Maps, p: &[usize]) -> Result<Maps, RefErr> {
    let first = p[0];
    // class names of the old first namespace -> new first namespace (classes that have both)
    let cmap: BTreeMap<&str, &str> = m.classes.iter().filter_map(|(k, c)| c.names[first].as_deref().map(|t| (k.as_str(), t))).collect();
    let tr = |d: &str| desc::map_desc(d, |c| cmap.get(c).map(|s| s.to_string()).unwrap_or_else(|| c.to_string()));
    let mut out = Maps { namespaces: p.iter().map(|&i| m.namespaces[i].clone()).collect(), classes: BTreeMap::new() };
    let mut err: Option<RefErr> = None;
    let mut note = |e: RefErr| { if err.is_none() || matches!((&err, &e), (Some(RefErr::Collision(_)), RefErr::Missing(_))) { err = Some(e); } };
    for c in m.classes.values() {
        let names = perm_row(&c.names, p);
        let Some(key) = names[0].clone() else { note(RefErr::Missing("class")); continue };
        let mut nc = maps::Class { names, comment: c.comment.clone(), ..Default::default() };
        for ((_, d), f) in &c.fields {
            let names = perm_row(&f.names, p);
            let Some(n) = names[0].clone() else { note(RefErr::Missing("field")); continue };
            if nc.fields.insert((n, tr(d)), maps::Field { names, comment: f.comment.clone() }).is_some() { note(RefErr::Collision("field")); }
        }
        for ((_, d), me) in &c.methods {
            let names = perm_row(&me.names, p);
            let Some(n) = names[0].clone() else { note(RefErr::Missing("method")); continue };
            let params = me.params.iter().map(|(i, q)| (*i, maps::Param { names: perm_row(&q.names, p), comment: q.comment.clone() })).collect();
            if nc.methods.insert((n, tr(d)), maps::Method { names, comment: me.comment.clone(), params }).is_some() { note(RefErr::Collision("method")); }
        }
        if out.classes.insert(key, nc).is_some() { note(RefErr::Collision("class")); }
    }
    match err { Some(e) => Err(e), None => Ok(out) }
}

/// The comparison function: expectation vs. observation of one reorder call.
fn judge(what: &str, expected: &Result<Maps, RefErr>, observed: &Result<Maps, String>) -> Vec<(String, String)> {
    match (expected, observed) {
        (Ok(e), Ok(o)) => cmp::kinds(&cmp::diff_maps(e, o)).into_iter().map(|(k, w)| (format!("C08 {what}: {k}"), w)).collect(),
        (Ok(_), Err(msg)) => vec![(format!("C08 {what}: fails although every class, field and method has a name in the new first namespace"), msg.clone())],
        (Err(RefErr::Missing(l)), Ok(_)) => vec![(format!("C08 {what}: succeeds although a {l} has no name in the new first namespace"), String::new())],
        (Err(RefErr::Collision(l)), Ok(_)) => vec![(format!("C08 {what}: succeeds although two {l} entries get the same key"), String::new())],
        (Err(_), Err(_)) => vec![],
    }
}

fn permutations(n: usize) -> Vec<Vec<usize>> {
    fn rec(cur: &mut Vec<usize>, n: usize, out: &mut Vec<Vec<usize>>) {
        if cur.len() == n { out.push(cur.clone()); return; }
        for i in 0..n { if !cur.contains(&i) { cur.push(i); rec(cur, n, out); cur.pop(); } }
    }
    let mut out = vec![]; rec(&mut vec![], n, &mut out); out
}
fn inverse(p: &[usize]) -> Vec<usize> { let mut q = vec![0; p.len()]; for (i, &x) in p.iter().enumerate() { q[x] = i; } q }

fn call<const N: usize>(q: &quill::tree::mappings::Mappings<N, ()>, ns: &[String]) -> Result<Result<quill::tree::mappings::Mappings<N, ()>, String>, PanicInfo> {
    let arr: [&str; N] = std::array::from_fn(|i| ns[i].as_str());
    guard(|| q.reorder::<()>(arr).map_err(|e| format!("{e:#}")))
}

fn case<const N: usize>(rng: &mut Rng, rep: &mut Report, cfg: &GenCfg) {
    let mut m = gen::gen_maps(rng, &cfg.clone().with_n(N));
    // Planted key collisions (every 12th set): two fields / methods of one class with the SAME complete name row whose descriptors
    // differ only in a class X vs. the name Z that X has in another namespace t (no entry is keyed Z). Both are distinct entries
    // today; with namespace t in front both descriptors read `..Z..`, so the two entries cannot both be kept: the statement's "the
    // same entries" leaves only a refusal. (An implementation that quietly keeps one of two "equal" entries loses the other one's
    // comment and parameters.)
    if rng.chance(1, 12) {
        let t = 1 + rng.below(N - 1);
        let cands: Vec<(String, String)> = m.classes.iter().filter_map(|(k, c)| c.names[t].clone().map(|z| (k.clone(), z))).filter(|(k, z)| k != z && !m.classes.contains_key(z) && !k.contains('[') ).collect();
        if !cands.is_empty() && !m.classes.is_empty() {
            let (x, z) = cands[rng.below(cands.len())].clone();
            let host = m.classes.keys().nth(rng.below(m.classes.len())).unwrap().clone();
            let row: maps::model::Row = (0..N).map(|i| Some(format!("twin{i}"))).collect();
            let c = m.classes.get_mut(&host).unwrap();
            if rng.bool() {
                let (dx, dz) = if rng.bool() { (format!("L{x};"), format!("L{z};")) } else { (format!("[[L{x};"), format!("[[L{z};")) };
                c.fields.insert(("twin0".into(), dx), maps::Field { names: row.clone(), comment: Some("first twin".into()) });
                c.fields.insert(("twin0".into(), dz), maps::Field { names: row.clone(), comment: None });
                rep.count("planted.collision.field");
            } else {
                let (dx, dz) = (format!("(L{x};I)V"), format!("(L{z};I)V"));
                let params: BTreeMap<usize, maps::Param> = [(1usize, maps::Param { names: (0..N).map(|i| Some(format!("arg{i}"))).collect(), comment: Some("of the first twin".into()) })].into_iter().collect();
                c.methods.insert(("twin0".into(), dx), maps::Method { names: row.clone(), comment: None, params });
                c.methods.insert(("twin0".into(), dz), maps::Method { names: row.clone(), comment: Some("second twin".into()), params: BTreeMap::new() });
                rep.count("planted.collision.method");
            }
        }
    }
    let m = m;
    let mut q = maps::to_quill::<N, ()>(&m, &mut Ins::Shuffle(&mut rng.fork())).expect("expressible");
    // the comment of the mapping set itself (no file format carries it, callers set the public field): "comments untouched"
    if rng.chance(1, 3) { q.javadoc = Some(quill::tree::mappings::JavadocMapping(format!("set-level comment {}\nsecond line", rng.below(1000)))); rep.count("set_level_comment.present"); }
    let mapped: BTreeSet<&str> = m.classes.keys().map(|s| s.as_str()).collect();
    let (mut d_mapped, mut d_unmapped, mut d_array) = (false, false, false);
    for c in m.classes.values() { for (_, d) in c.fields.keys().chain(c.methods.keys()) {
        if d.contains('[') { d_array = true; }
        for cl in desc::classes_of(d) { if mapped.contains(cl.as_str()) { d_mapped = true } else { d_unmapped = true } }
    } }
    if d_mapped { rep.count("descriptor.mentions_mapped_class"); } if d_unmapped { rep.count("descriptor.mentions_unmapped_class"); } if d_array { rep.count("descriptor.array"); }
    rep.count(&format!("namespaces.{N}"));
    for p in permutations(N) {
        rep.eval();
        let pname = p.iter().map(|i| i.to_string()).collect::<String>();
        rep.seen("permutations", &format!("{N}:{pname}"));
        let is_id = p.iter().enumerate().all(|(i, &x)| i == x);
        let new_ns: Vec<String> = p.iter().map(|&i| m.namespaces[i].clone()).collect();
        let expected = ref_reorder(&m, &p);
        if is_id && expected.as_ref() != Ok(&m) { eprintln!("HARNESS-ERROR C08 reference: identity permutation changes the set"); std::process::exit(3); }
        let input = || json!({"set": m.render(), "new_namespace_order": new_ns, "permutation": pname});
        let observed_q = match call::<N>(&q, &new_ns) {
            Err(pi) => { rep.violation(format!("C08 panic {}", pi.site()), json!({"panic": pi.message, "input": input()})); continue; }
            Ok(r) => r,
        };
        if let Ok(r) = &observed_q {
            maps::watch(rep, "C08", "reorder", r, input);
            if r.javadoc.as_ref().map(|j| &j.0) != q.javadoc.as_ref().map(|j| &j.0) { rep.violation(format!("C08 {}: comment of the mapping set itself {}", if is_id { "identity" } else { "reorder" }, if r.javadoc.is_none() { "lost" } else { "changed or invented" }), json!({"input": input(), "set_level_comment": q.javadoc.as_ref().map(|j| j.0.clone()), "observed": r.javadoc.as_ref().map(|j| j.0.clone())})); }
        }
        let observed = observed_q.as_ref().map(|r| maps::from_quill(r)).map_err(|e| e.clone());
        let what = if is_id { "identity" } else { "reorder" };
        let v = judge(what, &expected, &observed);
        for (sig, w) in &v {
            rep.violation(sig.clone(), json!({"where": w, "input": input(), "expected": expected.as_ref().map(|e| e.render()).map_err(|e| format!("{e:?}")), "observed": observed.as_ref().map(|o| o.render())}));
        }
        match &expected {
            Ok(e) => {
                rep.count(if is_id { "outcome.ok.identity" } else { "outcome.ok" });
                let mut param_lacks = false; e.visit(|l, n, _| if l == 3 && n[0].is_none() { param_lacks = true });
                if param_lacks { rep.count("outcome.ok.parameter_without_new_first_name"); }
                let changed = e.classes.iter().any(|(k, c)| c.fields.keys().chain(c.methods.keys()).any(|(_, d)| desc::classes_of(d).iter().any(|x| e.classes.contains_key(x))) || k.is_empty());
                if !is_id && changed && d_mapped { rep.count("nontrivial.descriptor_translated"); rep.nontrivial(m.shape_fingerprint() ^ common::rng::fnv_str(&pname)); }
                if rep.want_sample() && !is_id && d_mapped && m.classes.len() <= 3 { rep.sample(|| json!({"input": input(), "expected_and_observed": e.render()})); }
                // inverse law
                if !v.is_empty() { continue; }
                let Ok(rq) = &observed_q else { continue };
                let inv = inverse(&p);
                if ref_reorder(e, &inv).as_ref() != Ok(&m) { rep.count("inverse.skipped_ambiguous_descriptor_class"); continue; }
                rep.count("inverse.checked");
                match call::<N>(rq, &m.namespaces) {
                    Err(pi) => rep.violation(format!("C08 panic {}", pi.site()), json!({"panic": pi.message, "call": "inverse", "input": input()})),
                    Ok(back) => {
                        if let Ok(b) = &back { maps::watch(rep, "C08", "reorder (inverse)", b, input); }
                        let back = back.as_ref().map(|r| maps::from_quill(r)).map_err(|e| e.clone());
                        for (sig, w) in judge("inverse (reorder by the inverse permutation after reorder)", &Ok(m.clone()), &back) {
                            rep.violation(sig, json!({"where": w, "input": input(), "after_first_reorder": e.render(), "after_inverse": back.as_ref().map(|o| o.render())}));
                        }
                    }
                }
            }
            Err(RefErr::Missing(l)) => rep.count(&format!("outcome.err.missing_{l}")),
            Err(RefErr::Collision(l)) => rep.count(&format!("outcome.err.collision_{l}")),
        }
    }
}

/// cases of the Miri slice the thorough tier asks for (measured: see NOTES.md)
const MIRI_CASES: usize = 30;

fn canaries() {
    let bad = |s: &str| -> ! { eprintln!("HARNESS-ERROR C08 self-check failed: {s}"); std::process::exit(3) };
    if let Err(e) = maps::self_test(8, 40) { bad(&e); }
    // hand-written example from the documentation of reorder
    let mut m = Maps::new(&["namespaceA", "namespaceB", "namespaceC"]);
    let s = |x: &str| Some(x.to_string());
    let mut c = maps::Class { names: vec![s("A"), s("B"), s("C")], ..Default::default() };
    c.fields.insert(("a".into(), "LA;".into()), maps::Field { names: vec![s("a"), s("b"), s("c")], comment: None });
    c.methods.insert(("a".into(), "(LA;)V".into()), maps::Method { names: vec![s("a"), s("b"), s("c")], ..Default::default() });
    m.classes.insert("A".into(), c);
    let e = ref_reorder(&m, &[2, 1, 0]).unwrap();
    if !e.render().contains("\tf\tLC;\tc\tb\ta\n") || !e.render().contains("\tm\t(LC;)V\tc\tb\ta\n") || e.namespaces != ["namespaceC", "namespaceB", "namespaceA"] { bad("reference disagrees with the documented example"); }
    if ref_reorder(&e, &[2, 1, 0]) != Ok(m.clone()) { bad("reference: inverse law fails on the documented example"); }
    // deliberately wrong expectations must be flagged
    let wrong_desc = ref_reorder(&m, &[1, 2, 0]).unwrap(); // descriptors in namespace B instead of C, rows differ too
    if judge("reorder", &Ok(e.clone()), &Ok(wrong_desc)).is_empty() { bad("wrong permutation not flagged"); }
    let mut only_desc = e.clone();
    let cl = only_desc.classes.get_mut("C").unwrap();
    let f = cl.fields.remove(&("c".to_string(), "LC;".to_string())).unwrap(); cl.fields.insert(("c".into(), "LB;".into()), f);
    if !judge("reorder", &Ok(e.clone()), &Ok(only_desc)).iter().any(|(s, _)| s.contains("descriptor differs")) { bad("untranslated descriptor not flagged as such"); }
    if judge("reorder", &Err(RefErr::Missing("field")), &Ok(e.clone())).is_empty() { bad("Ok on a missing first name not flagged"); }
    if judge("reorder", &Ok(e.clone()), &Err("x".into())).is_empty() { bad("spurious failure not flagged"); }
    let mut no_comment = e.clone(); no_comment.classes.get_mut("C").unwrap().comment = Some("x".into());
    if judge("reorder", &Ok(e.clone()), &Ok(no_comment)).is_empty() { bad("changed comment not flagged"); }
    let mut m2 = m.clone(); m2.classes.get_mut("A").unwrap().fields.values_mut().next().unwrap().names[2] = None;
    if ref_reorder(&m2, &[2, 1, 0]) != Err(RefErr::Missing("field")) { bad("reference does not refuse a field without new first name"); }
}

/// `c08 --miri-slice <seed> <cases> <max seconds>`: single-threaded, no files. The ordinary case function (every permutation of
/// the namespaces through the real `reorder`, reference comparison, inverse law, key invariant) on small sets in which a third of
/// the simple names are hostile (NUL, boundary / supplementary code points, descriptor letters, names of 40..1300 bytes); every
/// fourth case carries lone surrogates (U+FFFD of the model = a lone surrogate in the tree), which reach the descriptor
/// translation (`map_desc` slices `L<name>;` out of descriptors and puns the slice into a class-name type).
fn miri_slice(seed: u64, cases: usize, max_s: u64) -> i32 {
    // a reorder evaluation (real call, reference, two conversions, inverse) of a 2-class set costs 3..8 s of Miri time
    let small = GenCfg { max_classes: 2, max_fields: 1, max_params: 1, ..maps::slice::small(GenCfg::default()) };
    let full = GenCfg { fully_named: true, comment_chance: (1, 3), ..small.clone() };
    let partial = GenCfg { absent: (1, 10), ..small.clone() };
    let loose = GenCfg { unique_per_namespace: false, fully_named: true, ..small.clone() };
    let one_class = GenCfg { max_classes: 1, ..full.clone() };
    maps::slice::run("C08", seed, cases, max_s, 4, |rng, rep, i, _| {
        let cfg = match i % 7 { 0..=3 => &full, 4 | 5 => &partial, _ => &loose };
        // N = 4 means 24 reorder calls (+ inverses) per case: one case in twelve, on a set of at most one class
        match i % 12 { 5 => case::<4>(rng, rep, &one_class), x if x % 2 == 0 => case::<2>(rng, rep, cfg), _ => case::<3>(rng, rep, cfg) }
    })
}

fn main() {
    if let Some((seed, n, max_s)) = common::miri::slice_args() { std::process::exit(miri_slice(seed, n, max_s)); }
    let mut ctx = Ctx::from_args("C08", 40, 420);
    let replay = load_replay(&mut ctx);
    canaries();
    let mut rep = Report::new();
    let full = GenCfg { fully_named: true, comment_chance: (1, 3), ..GenCfg::default() };
    let partial = GenCfg { absent: (1, 10), ..GenCfg::default() };
    let loose = GenCfg { unique_per_namespace: false, fully_named: true, max_classes: 4, ..GenCfg::default() };
    let n = ctx.tier.pick(50_000, 300_000);
    run_cases(&ctx, &replay, &mut rep, "reorder", n, |rng, rep, i| {
        let cfg = match i % 7 { 0..=3 => &full, 4 | 5 => &partial, _ => &loose };
        match i % 3 { 0 => case::<2>(rng, rep, cfg), 1 => case::<3>(rng, rep, cfg), _ => case::<4>(rng, rep, cfg) }
    });
    let mut meta = Meta::new("exploration",
        "sets from maps::gen (names unique per namespace; fully named, partially named and colliding variants), every one of the N! permutations applied by the real reorder and by the reference; \
         evaluations = reorder calls judged; non-trivial = non-identity permutation that succeeds on a set whose descriptors mention a class of the set; distinct = structural fingerprint x permutation")
        .assume("names contain no white space; namespace names passed to reorder are exactly the set's namespaces")
        .assume("a parameter without a name in the new first namespace is a legal entry (keyed by index): Ok is accepted and compared with the reference");
    if ctx.replay.is_none() {
        meta.oblige("all 2! + 3! + 4! = 32 permutations applied", rep.seen_n("permutations") == 32);
        meta.oblige("sets carrying a comment of their own (set level)", rep.get("set_level_comment.present") >= 100);
        meta.oblige("planted key collisions (two entries whose keys coincide only in the new first namespace): >= 50 on fields, >= 50 on methods, and the refusal expected for them seen", rep.get("planted.collision.field") >= 50 && rep.get("planted.collision.method") >= 50 && rep.get("outcome.err.collision_field") >= 50 && rep.get("outcome.err.collision_method") >= 50);
        for k in ["outcome.ok", "outcome.ok.identity", "outcome.err.missing_class", "outcome.err.missing_field", "outcome.err.missing_method", "outcome.err.collision_class",
            "outcome.ok.parameter_without_new_first_name", "descriptor.mentions_mapped_class", "descriptor.mentions_unmapped_class", "descriptor.array", "inverse.checked", "nontrivial.descriptor_translated"] {
            meta.oblige(format!("at least one case with {k}"), rep.get(k) > 0);
        }
        if ctx.tier == Tier::Thorough {
            let r = common::miri::run_slice(&ctx, "c08", env!("CARGO_MANIFEST_DIR"), MIRI_CASES, 170, 285);
            if let Some(line) = r.ub { rep.cur = ("miri".into(), 0); rep.violation(format!("miri: {line}"), json!({"how": format!("cargo +nightly miri run --offline -p c08 -- --miri-slice <seed> {MIRI_CASES} 170"), "seed": ctx.seed as i64, "status": r.status})); }
            meta.extra.insert("miri_slice".into(), json!(r.status));
        } else { meta.extra.insert("miri_slice".into(), json!("not run in the quick tier")); }
    }
    std::process::exit(finish(&ctx, rep, meta));
}
