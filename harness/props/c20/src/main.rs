//! C20 — raw_class_file reads and writes class files byte-exactly.
//! Oracle: byte equality with the input (well-formed files), value equality after write/read (raw values),
//! announced length == bytes written; differences are localised to the attribute that contains the first differing byte.
use cf::{emit, features, gen, model::hex, parse};
use common::{par::*, report::{finish, Meta}, *};
use raw_class_file::ClassFile;
use std::io::Cursor;

fn template(msg: &str) -> String {
    let mut out = String::new(); let mut in_num = false; let mut in_dbg = 0i32;
    for c in msg.chars() {
        if c == '{' || c == '[' { in_dbg += 1; if in_dbg == 1 { out.push_str("{..}"); } continue; }
        if c == '}' || c == ']' { in_dbg -= 1; continue; }
        if in_dbg > 0 { continue; }
        if c.is_ascii_digit() { if !in_num { out.push('#'); in_num = true; } continue; }
        in_num = false; out.push(c);
    }
    out.chars().take(120).collect()
}
fn pool_has_two_slot(bytes: &[u8]) -> bool {
    // own scan of the constant pool for tags 5/6
    let n = u16::from_be_bytes([bytes[8], bytes[9]]) as usize; let mut p = 10; let mut i = 1;
    while i < n && p < bytes.len() {
        let t = bytes[p];
        let sz = match t { 1 => 3 + u16::from_be_bytes([bytes[p + 1], bytes[p + 2]]) as usize, 3 | 4 => 5, 5 | 6 => { return true; } 7 | 8 | 16 | 19 | 20 => 3, 15 => 4, _ => 5 };
        p += sz; i += 1;
    }
    false
}
/// innermost attribute containing byte offset `at`
fn locate(spans: &parse::SpanMap, at: usize) -> String {
    let mut best: Option<&(usize, usize, String)> = None;
    for a in &spans.attrs { if a.0 <= at && at < a.1 && best.is_none_or(|b| a.1 - a.0 <= b.1 - b.0) { best = Some(a); } }
    match best { Some(a) => { let known = KNOWN.contains(&a.2.as_str()); format!("inside attribute {}", if known { a.2.as_str() } else { "<unknown attribute>" }) } None => "outside any attribute (header, pool or member table)".into() }
}
const KNOWN: [&str; 30] = ["ConstantValue", "Code", "StackMapTable", "Exceptions", "InnerClasses", "EnclosingMethod", "Synthetic", "Signature", "SourceFile", "SourceDebugExtension", "LineNumberTable",
    "LocalVariableTable", "LocalVariableTypeTable", "Deprecated", "RuntimeVisibleAnnotations", "RuntimeInvisibleAnnotations", "RuntimeVisibleParameterAnnotations", "RuntimeInvisibleParameterAnnotations",
    "RuntimeVisibleTypeAnnotations", "RuntimeInvisibleTypeAnnotations", "AnnotationDefault", "BootstrapMethods", "MethodParameters", "Module", "ModulePackages", "ModuleMainClass", "NestHost", "NestMembers", "Record", "PermittedSubclasses"];

/// `ClassFile::write` into an arbitrary `io::Write` must deliver what `to_bytes()` returns ("the announced length equals the number
/// of bytes written"): every case also writes into a writer that accepts only a few bytes per call (legal for any `Write`; a
/// `write` where `write_all` is needed loses bytes only there, a `Vec<u8>` takes everything).
/// a sink that takes `room` bytes and then fails (a full disk, a closed pipe, a buffer that is too short)
struct FullAfter { room: usize, taken: usize }
impl std::io::Write for FullAfter {
    fn write(&mut self, buf: &[u8]) -> std::io::Result<usize> {
        if buf.is_empty() { return Ok(0); }
        let n = buf.len().min(self.room - self.taken);
        if n == 0 { return Err(std::io::Error::new(std::io::ErrorKind::StorageFull, "sink is full")); }
        self.taken += n; Ok(n)
    }
    fn flush(&mut self) -> std::io::Result<()> { Ok(()) }
}

fn write_entry_point(rep: &mut Report, v: &ClassFile, to_bytes: &[u8], len: usize, ctx: &dyn Fn() -> Value) {
    let seed = common::rng::fnv(to_bytes);
    // every fourth value also goes into a sink that is full before the last byte (room = length - 1, - 7, half, 0): `Ok` would announce
    // `length()` bytes as written although fewer were taken
    if seed % 4 == 0 && len > 0 {
        let room = match (seed >> 8) % 4 { 0 => len - 1, 1 => len.saturating_sub(7), 2 => len / 2, _ => 0 };
        let r = guard(|| { let mut w = FullAfter { room, taken: 0 }; v.write(&mut w).map(|_| w.taken).map_err(|e| e.to_string()) });
        rep.count("entry.write(sink that is full before the end)");
        match r {
            Err(p) => rep.violation(format!("C20 write(writer) panics: {}", p.site()), json!({"panic": p.message, "ctx": ctx()})),
            Ok(Ok(taken)) => rep.violation("C20 write(writer) returns Ok although the sink took fewer bytes than length()", json!({"length": len, "taken_by_the_sink": taken, "room": room, "ctx": ctx()})),
            Ok(Err(_)) => rep.count("entry.write.full_sink_reported_as_error"),
        }
    }
    let r = guard(|| { let mut w = common::io::ChunkedWriter::new(seed, 1 + (seed % 97) as usize); v.write(&mut w).map(|_| (w.data, w.short_writes)).map_err(|e| e.to_string()) });
    rep.count("entry.write(short-write writer)");
    match r {
        Err(p) => rep.violation(format!("C20 write(writer) panics: {}", p.site()), json!({"panic": p.message, "ctx": ctx()})),
        Ok(Err(e)) => rep.violation("C20 write(writer) fails although the writer accepts every byte (a few per call)", json!({"error": e, "ctx": ctx()})),
        Ok(Ok((data, short))) => {
            if short > 0 { rep.count("entry.write.short_writes_happened"); }
            if data != to_bytes { rep.violation(format!("C20 write(writer) delivers other bytes than to_bytes() when the writer accepts only a few bytes per call ({})", if data.len() < to_bytes.len() { "fewer bytes" } else { "same or more bytes" }),
                json!({"to_bytes_len": to_bytes.len(), "length()": len, "arrived": data.len(), "ctx": ctx()})); }
        }
    }
}

fn roundtrip_wellformed(rep: &mut Report, bytes: &[u8], source: &str) {
    let spans = match parse::parse_with_spans(bytes) { Ok(p) => p.spans, Err(e) => { eprintln!("HARNESS-ERROR input is not well-formed: {e}"); std::process::exit(3); } };
    let two = pool_has_two_slot(bytes);
    rep.eval();
    rep.count(if two { "wellformed.pool_with_long_double" } else { "wellformed.pool_without_long_double" });
    let tag = if two { " (pool has a long/double entry)" } else { "" };
    let pos = std::cell::Cell::new(0usize);
    // every third input is delivered through a reader that returns short reads (legal for any `Read`); the outcome must not depend on it
    let chunked = common::rng::fnv(bytes) % 3 == 0;
    rep.count(if chunked { "reader.short_reads" } else { "reader.cursor" });
    let r = guard(|| {
        if chunked { let mut c = common::io::ChunkedReader::new(bytes, common::rng::fnv(bytes), 1 + (bytes.len() % 9)); let r = ClassFile::read(&mut c).map_err(|e| e.to_string()); pos.set(c.position()); r }
        else { let mut c = Cursor::new(bytes); let r = ClassFile::read(&mut c).map_err(|e| e.to_string()); pos.set(c.position() as usize); r }
    });
    let v = match r {
        // a two-slot pool entry derails the reader at an arbitrary later point: one root cause, one signature
        Err(_) | Ok(Err(_)) if two => { rep.violation("C20 read fails on a well-formed class whose constant pool has a long/double entry", json!({"input_hex": hex(bytes), "source": source, "outcome": format!("{r:?}")})); return; }
        Err(p) => { rep.violation(format!("C20 read panics: {}", p.site()), json!({"input_hex": hex(bytes), "source": source, "panic": p.message})); return; }
        Ok(Err(e)) if chunked && guard(|| ClassFile::read(&mut Cursor::new(bytes)).is_ok()).unwrap_or(false) => {
            rep.violation(format!("C20 read depends on how the reader delivers the bytes: fails under short reads ({}), succeeds from a slice", template(&e)), json!({"input_hex": hex(bytes), "source": source, "error": e})); return; }
        Ok(Err(e)) => { if std::env::var("C20_DEBUG").is_ok() { if let Ok(m) = parse::parse(bytes) { let f = features::features(&m); println!("DBG {}", f.iter().filter(|x| !x.starts_with("insn.") && !x.starts_with("version") && !x.starts_with("local.") && !x.starts_with("ev.") && !x.starts_with("const.")&& !x.starts_with("handle.")).cloned().collect::<Vec<_>>().join(" ")); } }
            rep.violation(format!("C20 read rejects well-formed class: {} (reader stopped {})", template(&e), locate(&spans, pos.get().saturating_sub(1))), json!({"input_hex": hex(bytes), "source": source, "error": e, "reader_position": pos.get()})); return; }
        Ok(Ok(v)) => v,
    };
    let out = match guard(|| (v.to_bytes(), v.length())) { Ok(o) => o, Err(_) if two => { rep.violation("C20 read fails on a well-formed class whose constant pool has a long/double entry", json!({"input_hex": hex(bytes), "source": source, "outcome": "write panics on the value read returned"})); return; } Err(p) => { rep.violation(format!("C20 write panics{tag}: {}", p.site()), json!({"input_hex": hex(bytes), "source": source, "panic": p.message})); return; } };
    let (w, len) = out;
    write_entry_point(rep, &v, &w, len, &|| json!({"input_hex": hex(bytes), "source": source}));
    if two && (len != w.len() || w != bytes) { rep.violation("C20 read fails on a well-formed class whose constant pool has a long/double entry", json!({"input_hex": hex(bytes), "source": source, "outcome": "read returned a value that does not write back to the input"})); return; }
    if len != w.len() { rep.violation(format!("C20 length() != bytes written{tag}"), json!({"input_hex": hex(bytes), "length": len, "written": w.len(), "source": source})); }
    if w != bytes {
        let at = w.iter().zip(bytes).position(|(a, b)| a != b).unwrap_or(w.len().min(bytes.len()));
        rep.violation(format!("C20 write(read(b)) != b{tag}: first difference {}", locate(&spans, at)), json!({"input_hex": hex(bytes), "written_hex": hex(&w), "first_difference_at": at, "source": source}));
    } else {
        rep.count("wellformed.byte_exact");
        // other readers see the same structure: trivially true (same bytes); still cross-read once in a while as a monitor self-check
    }
    for (_, _, name) in &spans.attrs { rep.seen("attribute_kinds", if KNOWN.contains(&name.as_str()) { name } else { "<unknown>" }); }
}

/// The raw-values case of the ordinary workload (same steps, same signatures) as a function, for the Miri slice.
fn raw_values_case(rng: &mut Rng, rep: &mut Report, m: &cf::model::Class) {
    let mut layout = emit::Layout::random(rng.next_u64()); layout.two_slot_fillers = false;
    let Ok(mut bytes) = emit::emit(m, &layout) else { return; };
    let Ok(p) = parse::parse_with_spans(&bytes) else { return; };
    let cand: Vec<&parse::Span> = p.spans.spans.iter().filter(|s| matches!(s.role, parse::Role::PoolIndex | parse::Role::Flags | parse::Role::Value | parse::Role::Version)).collect();
    if cand.is_empty() { return; }
    let k = rng.usize_in(1, 4);
    for _ in 0..k { let s = *rng.pick(&cand); for i in 0..s.len { bytes[s.off + i] = rng.next_u32() as u8; } }
    rep.eval();
    let Ok(Ok(v)) = guard(|| ClassFile::read(&mut Cursor::new(&bytes[..])).ok().ok_or(())) else { rep.count("raw.read_refused_or_panicked"); return; };
    rep.count("raw.values");
    let w = match guard(|| (v.to_bytes(), v.length())) { Ok(x) => x, Err(pn) => { rep.violation(format!("C20 write panics on a value read() produced: {}", pn.site()), json!({"input_hex": hex(&bytes)})); return; } };
    if w.1 != w.0.len() { rep.violation("C20 length() != bytes written (raw value)", json!({"input_hex": hex(&bytes), "length": w.1, "written": w.0.len()})); }
    write_entry_point(rep, &v, &w.0, w.1, &|| json!({"input_hex": hex(&bytes), "what": "raw value"}));
    match guard(|| ClassFile::read(&mut Cursor::new(&w.0[..])).map_err(|e| e.to_string())) {
        Ok(Ok(v2)) => { if v2 != v { rep.violation("C20 read(write(v)) != v", json!({"input_hex": hex(&bytes), "written_hex": hex(&w.0)})); } else { rep.count("raw.value_roundtrips"); } }
        Ok(Err(e)) => rep.violation(format!("C20 read rejects what write produced: {}", template(&e)), json!({"input_hex": hex(&bytes), "written_hex": hex(&w.0), "error": e})),
        Err(pn) => rep.violation(format!("C20 read panics on what write produced: {}", pn.site()), json!({"input_hex": hex(&bytes)})),
    }
}

/// `c20 --miri-slice <seed> <cases> <max seconds>`: single-threaded, no files. Two cases in three: a small generated class
/// (names redrawn from cf::hostile, so the Utf8 entries carry NUL, surrogates and long names; every eighth with long/double pool
/// entries, which derails the reader - known finding - and makes it parse whatever follows) read and written back byte for byte;
/// one in three: the raw-values case (1-4 index / flag / value fields randomised, read -> write -> read).
fn miri_slice(seed: u64, cases: usize, max_s: u64) -> i32 {
    let mut rep = Report::new();
    let deadline = std::time::Instant::now() + std::time::Duration::from_secs(max_s);
    let small = gen::GenCfg { max_fields: 2, max_methods: 2, max_insns: 6, ..gen::GenCfg::default() };
    let small1 = gen::GenCfg { two_slot_constants: false, ..small.clone() };
    let (mut i, mut bytes_in) = (0u64, 0usize);
    while (i as usize) < cases && std::time::Instant::now() < deadline {
        let mut rng = Rng::new(common::rng::case_seed(seed, "C20/miri", i));
        rep.cur = ("miri".into(), i);
        let with_two = i % 8 == 5;
        let mut m = gen::gen_class(&mut rng, if with_two { &small } else { &small1 });
        cf::hostile::hostilise(&mut rng, &mut m, (1, 3), if i % 8 == 7 { 2000 } else { 48 });
        if i % 3 == 2 && !with_two { raw_values_case(&mut rng, &mut rep, &m); }
        else {
            let mut layout = if rng.bool() { emit::Layout::canonical() } else { emit::Layout::random(rng.next_u64()) }; layout.two_slot_fillers = with_two;
            if let Ok(bytes) = emit::emit(&m, &layout) { bytes_in += bytes.len(); roundtrip_wellformed(&mut rep, &bytes, "generated (miri slice)"); } else { rep.count("emit.skipped"); }
        }
        i += 1;
    }
    for v in rep.violations.values() { println!("SLICE-OBSERVATION {} ({}x)", v.signature, v.count); }
    println!("MIRI-SLICE done cases={} (asked for {}) evaluations={} observations={} byte_exact_roundtrips={} bytes_in={} raw_values={} raw_value_roundtrips={} raw_read_refused={}", i, cases, rep.evaluations, rep.violations.len(), rep.get("wellformed.byte_exact"), bytes_in, rep.get("raw.values"), rep.get("raw.value_roundtrips"), rep.get("raw.read_refused_or_panicked"));
    0
}

fn main() {
    if let Some((seed, n, max_s)) = common::miri::slice_args() { std::process::exit(miri_slice(seed, n, max_s)); }
    let mut ctx = Ctx::from_args("C20", 40, 420);
    let replay = load_replay(&mut ctx);
    let mut rep = Report::new();
    let cfg = gen::GenCfg::default();
    let cfg1 = gen::GenCfg { two_slot_constants: false, ..gen::GenCfg::default() };

    // canary: a corrupted "written" buffer must be located inside its attribute
    {
        let mut rng = Rng::new(3);
        let mut found = false;
        for _ in 0..50 {
            let m = gen::gen_class(&mut rng, &cfg);
            if m.source_file.is_none() { continue; }
            let b = emit::emit(&m, &emit::Layout::canonical()).unwrap_or_default();
            let Ok(p) = parse::parse_with_spans(&b) else { continue };
            if let Some(a) = p.spans.attrs.iter().find(|a| a.2 == "SourceFile") { if locate(&p.spans, a.0 + 7) == "inside attribute SourceFile" { found = true; break; } }
        }
        if !found { eprintln!("HARNESS-ERROR canary: locate() does not find the attribute of a byte"); std::process::exit(3); }
    }

    let n = ctx.tier.pick(100_000, 1_500_000);
    run_cases(&ctx, &replay, &mut rep, "generated", n, |rng, rep, _| {
        let with_two = rng.chance(1, 4); let mut m = gen::gen_class(rng, if with_two { &cfg } else { &cfg1 });
        if rng.chance(1, 5) { let lm = if rng.chance(1, 25) { 5000 } else { 60 }; for t in cf::hostile::hostilise(rng, &mut m, (1, 3), lm) { rep.seen("hostile_names", t); } rep.count("shape.hostile_names"); }
        let m = m;
        let mut layout = if rng.bool() { emit::Layout::canonical() } else { emit::Layout::random(rng.next_u64()) }; layout.two_slot_fillers = with_two;
        let Ok(bytes) = emit::emit(&m, &layout) else { rep.count("emit.skipped"); return; };
        let feats = features::features(&m);
        rep.nontrivial(features::fingerprint(&feats));
        roundtrip_wellformed(rep, &bytes, "generated");
        if bytes.len() < 400 { rep.sample(|| json!({"kind": "generated well-formed class", "bytes_hex": hex(&bytes)})); }
    });
    // large u4-counted payloads: attribute bodies are the only lists whose count is 4 bytes wide (unknown attributes at every
    // level, SourceDebugExtension); sizes around 65535/65536 and far beyond
    let nlarge = ctx.tier.pick(160, 6_000);
    run_cases(&ctx, &replay, &mut rep, "large-payload", nlarge, |rng, rep, _| {
        let small = gen::GenCfg { max_fields: 2, max_methods: 2, max_insns: 10, two_slot_constants: false, ..gen::GenCfg::default() };
        let mut m = gen::gen_class(rng, &small);
        let (at, size) = gen::add_large_payload(rng, &mut m);
        let mut layout = if rng.bool() { emit::Layout::canonical() } else { emit::Layout::random(rng.next_u64()) }; layout.two_slot_fillers = false;
        let Ok(bytes) = emit::emit(&m, &layout) else { rep.count("emit.skipped"); return; };
        rep.count(&format!("large.{at}")); rep.count(if size > 65_536 { "large.over_65536" } else if size == 65_536 { "large.exactly_65536" } else { "large.below_65536" });
        rep.seen("large_payload_sizes", &size.to_string());
        rep.nontrivial(common::rng::fnv_str(&format!("large {at} {size}")));
        let before = rep.get("wellformed.byte_exact");
        roundtrip_wellformed(rep, &bytes, &format!("generated with a {size}-byte payload at {at}"));
        if size > 65_536 && rep.get("wellformed.byte_exact") > before { rep.count("large.over_65536.byte_exact"); }
    });
    // boundary counts: one u2- (or u1-) counted table grown to 255 / 256 / 32767 / 32768 / 65535 entries; byte identity decides
    // that count and attribute_length fields are written in full width
    let nbig = ctx.tier.pick(200, 6_000);
    run_cases(&ctx, &replay, &mut rep, "big-table", nbig, |rng, rep, _| {
        let small = gen::GenCfg { max_fields: 2, max_methods: 2, max_insns: 10, two_slot_constants: false, major: Some(65), ..gen::GenCfg::default() };
        let mut m = gen::gen_class(rng, &small);
        let (what, n) = gen::add_big_table(rng, &mut m);
        let mut layout = if rng.bool() { emit::Layout::canonical() } else { emit::Layout::random(rng.next_u64()) }; layout.two_slot_fillers = false;
        let Ok(bytes) = emit::emit(&m, &layout) else { rep.count("emit.skipped"); return; };
        rep.count(&format!("big.{what}")); if n >= 32_767 { rep.count(&format!("big.over_32766.{what}")); }
        rep.seen("big_table_sizes", &n.to_string());
        rep.nontrivial(common::rng::fnv_str(&format!("big {what} {n}")));
        roundtrip_wellformed(rep, &bytes, &format!("generated with {n} entries in {what}"));
    });
    let corpus = cf::corpus::load(&ctx.verif_dir);
    run_cases(&ctx, &replay, &mut rep, "corpus", corpus.len() as u64, |_, rep, i| {
        let (name, bytes) = &corpus[i as usize];
        rep.count("corpus.classes");
        rep.nontrivial(common::rng::fnv(bytes));
        roundtrip_wellformed(rep, bytes, &format!("corpus {name}"));
    });

    // raw values: whatever read() returns for index/flag/value-mutated files must survive write -> read unchanged
    let nraw = ctx.tier.pick(100_000, 1_500_000);
    run_cases(&ctx, &replay, &mut rep, "raw-values", nraw, |rng, rep, _| {
        let m = gen::gen_class(rng, &cfg1);
        let mut layout = emit::Layout::random(rng.next_u64()); layout.two_slot_fillers = false;
        let Ok(mut bytes) = emit::emit(&m, &layout) else { return; };
        let Ok(p) = parse::parse_with_spans(&bytes) else { return; };
        let cand: Vec<&parse::Span> = p.spans.spans.iter().filter(|s| matches!(s.role, parse::Role::PoolIndex | parse::Role::Flags | parse::Role::Value | parse::Role::Version)).collect();
        if cand.is_empty() { return; }
        let k = rng.usize_in(1, 4);
        for _ in 0..k { let s = *rng.pick(&cand); for i in 0..s.len { bytes[s.off + i] = rng.next_u32() as u8; } }
        rep.eval();
        let Ok(Ok(v)) = guard(|| ClassFile::read(&mut Cursor::new(&bytes[..])).ok().ok_or(())) else { rep.count("raw.read_refused_or_panicked"); return; };
        rep.count("raw.values");
        let w = match guard(|| (v.to_bytes(), v.length())) { Ok(x) => x, Err(pn) => { rep.violation(format!("C20 write panics on a value read() produced: {}", pn.site()), json!({"input_hex": hex(&bytes)})); return; } };
        if w.1 != w.0.len() { rep.violation("C20 length() != bytes written (raw value)", json!({"input_hex": hex(&bytes), "length": w.1, "written": w.0.len()})); }
    write_entry_point(rep, &v, &w.0, w.1, &|| json!({"input_hex": hex(&bytes), "what": "raw value"}));
        match guard(|| ClassFile::read(&mut Cursor::new(&w.0[..])).map_err(|e| e.to_string())) {
            Ok(Ok(v2)) => { if v2 != v { rep.violation("C20 read(write(v)) != v", json!({"input_hex": hex(&bytes), "written_hex": hex(&w.0)})); } else { rep.count("raw.value_roundtrips"); } }
            Ok(Err(e)) => rep.violation(format!("C20 read rejects what write produced: {}", template(&e)), json!({"input_hex": hex(&bytes), "written_hex": hex(&w.0), "error": e})),
            Err(pn) => rep.violation(format!("C20 read panics on what write produced: {}", pn.site()), json!({"input_hex": hex(&bytes)})),
        }
    });

    let mut meta = Meta::new("exploration", "well-formed classes (seeded generator over all attribute kinds, canonical and random layouts; javac corpus): read -> write must reproduce the input byte for byte and length() must equal the bytes written; raw values: files with 1-4 index/flag/value fields randomised, whatever read() returns must survive write -> read unchanged. Non-trivial: every generated class (distinct = feature fingerprint) and corpus class (distinct = content hash)")
        .assume("well-formed = accepted by the harness' strict parser");
    if replay.is_none() {
        meta.oblige("classes without long/double pool entries were round-tripped", rep.get("wellformed.pool_without_long_double") > 100);
        meta.oblige("classes with long/double pool entries were tried", rep.get("wellformed.pool_with_long_double") > 100);
        meta.oblige("at least 25 attribute kinds seen in inputs", rep.seen_n("attribute_kinds") >= 25);
        meta.oblige("raw values obtained", rep.get("raw.values") > 100);
        meta.oblige("tables with 32767 or more entries were read: interfaces, inner classes, NestMembers, PermittedSubclasses, Exceptions, line numbers, local variables, exception table", ["interfaces", "inner_classes", "nest_members", "permitted_subclasses", "method.exceptions", "code.line_numbers", "code.lvt", "code.exception_table"].iter().all(|k| rep.get(&format!("big.over_32766.{k}")) > 0));
        meta.oblige("inputs delivered through a short-read reader as well as through a slice", rep.get("reader.short_reads") > 100 && rep.get("reader.cursor") > 100);
        meta.oblige("attribute payloads larger than 65536 bytes were read (at every level: class, field, method, Code, SourceDebugExtension)", rep.get("large.over_65536") >= 30 && ["large.class.unknown", "large.class.source_debug_extension", "large.field.unknown", "large.method.unknown", "large.code.unknown"].iter().all(|k| rep.get(k) > 0));
    }
    if replay.is_none() {
        if ctx.tier == Tier::Thorough {
            let r = common::miri::run_slice(&ctx, "c20", env!("CARGO_MANIFEST_DIR"), MIRI_CASES, 150, 280);
            if let Some(line) = r.ub { rep.cur = ("miri".into(), 0); rep.violation(format!("miri: {line}"), json!({"how": format!("cargo +nightly miri run --offline -p c20 -- --miri-slice <seed> {MIRI_CASES} 150"), "seed": ctx.seed as i64, "status": r.status})); }
            meta.extra.insert("miri_slice".into(), json!(r.status));
        } else { meta.extra.insert("miri_slice".into(), json!("not run in the quick tier")); }
    }
    std::process::exit(finish(&ctx, rep, meta));
}
/// cases asked of the Miri slice in the thorough tier; it stops by itself after 150 s (see NOTES.md)
const MIRI_CASES: usize = 30;
