//! C01 — the class reader delivers every fact of a valid class file accurately.
//! Oracle: generator ground truth (model M) + independent strict parser; observed: project(duke::read_class(emit(M, L))).
use cf::{diff, emit, features, gen, model::*, parse, project};
use common::{par::*, report::{finish, Meta}, *};
use std::io::Cursor;

/// Hooked state (duke feature `verif`): the reader reports where each of its two passes over a method body sees an instruction start.
/// The passes are written independently (an operand-size table each); the second one trusts the first ("the first pass made sure all n
/// entries are there"), so they must agree on every boundary. Returns the number of method bodies compared, or the first disagreement.
fn pass_agreement(events: &[duke::verif::Event]) -> Result<usize, String> {
    let mut runs: Vec<(u8, Vec<u16>)> = vec![];
    for e in events {
        if let duke::verif::Event::InstructionStart { pass, pos } = e {
            match runs.last_mut() { Some((p, v)) if p == pass && *pos != 0 => v.push(*pos), _ => runs.push((*pass, vec![*pos])) }
        }
    }
    let mut compared = 0;
    let mut it = runs.chunks(2);
    for pair in &mut it {
        match pair {
            [(1, a), (2, b)] => { if a != b { let k = a.iter().zip(b.iter()).position(|(x, y)| x != y).unwrap_or(a.len().min(b.len())); return Err(format!("method body #{compared}: instruction #{k} starts at {:?} for the first pass and at {:?} for the second ({} / {} instructions)", a.get(k), b.get(k), a.len(), b.len())); } compared += 1; }
            other => return Err(format!("method body #{compared}: passes not paired: {:?}", other.iter().map(|(p, v)| (*p, v.len())).collect::<Vec<_>>())),
        }
    }
    Ok(compared)
}

fn read_real(bytes: &[u8]) -> Result<Result<Class, String>, PanicInfo> {
    guard(|| {
        if bytes.len() <= 16 * 1024 {
            duke::verif::start_recording();
            let r = duke::read_class(&mut Cursor::new(bytes));
            let ev = duke::verif::take_events();
            if r.is_ok() { match pass_agreement(&ev) { Err(e) => PASS_DISAGREE.with(|c| *c.borrow_mut() = Some(e)), Ok(n) => PASSES_COMPARED.with(|c| c.set(c.get() + n)) } }
        }
        // every third input is delivered through a reader that returns short reads (legal for any `Read`)
        let r = if common::rng::fnv(bytes) % 3 == 0 { duke::read_class(&mut common::io::ChunkedReader::new(bytes, common::rng::fnv(bytes), 1 + (bytes.len() % 9))) } else { duke::read_class(&mut Cursor::new(bytes)) };
        match r {
            Ok(tree) => { let mut m = project::project(&tree); project::normalise(&mut m); Ok(m) }
            Err(e) => Err(format!("{e:#}")),
        }
    })
}

thread_local! { static PASSES_COMPARED: std::cell::Cell<usize> = const { std::cell::Cell::new(0) }; static PASS_DISAGREE: std::cell::RefCell<Option<String>> = const { std::cell::RefCell::new(None) }; }

fn template(msg: &str) -> String {
    // error message with instance data removed: quoted strings, numbers
    let mut out = String::new(); let mut in_q = false; let mut in_num = false;
    for c in msg.chars() {
        if c == '"' { in_q = !in_q; if in_q { out.push_str("\"..\""); } continue; }
        if in_q { continue; }
        if c.is_ascii_digit() { if !in_num { out.push('#'); in_num = true; } continue; }
        in_num = false; out.push(c);
    }
    let cut: String = out.chars().take(140).collect(); cut
}

/// compares the observation with the expected model; every difference becomes a violation with a fact-path signature
fn judge(rep: &mut Report, what: &str, expected: &Class, bytes: &[u8], layout: &str) {
    let r = read_real(bytes);
    if let Some(e) = PASS_DISAGREE.with(|c| c.borrow_mut().take()) { rep.violation("C01 reader: the label pass and the decoding pass disagree on where the instructions of a method start", json!({"input_hex": hex(bytes), "layout": layout, "detail": e, "source": what})); }
    match r {
        Err(p) => rep.violation(format!("C01 reader panic {}", p.site()), json!({"input_hex": hex(bytes), "layout": layout, "panic": p.message, "at": format!("{}:{}", p.file, p.line)})),
        Ok(Err(e)) => rep.violation(format!("C01 reader rejects well-formed class: {}", template(e.rsplit(": ").next().unwrap_or(&e))), json!({"input_hex": hex(bytes), "layout": layout, "error": e, "source": what})),
        Ok(Ok(obs)) => {
            let mut exp = expected.clone(); project::normalise(&mut exp);
            if obs != exp {
                for d in diff::diff(&exp, &obs, 12) {
                    rep.violation(format!("C01 fact {}", d.signature()), json!({"input_hex": hex(bytes), "layout": layout, "at": d.at, "expected": d.expected, "observed": d.observed, "source": what}));
                }
            } else { rep.count("reads.equal"); }
            let n = PASSES_COMPARED.with(|c| c.replace(0)); if n > 0 { rep.add("hook.method_bodies_with_both_passes_compared", n as u64); }
        }
    }
}

/// `c01 --miri-slice <seed> <cases> <max seconds>`: single-threaded, no files. Small generated classes whose names,
/// descriptors and strings are redrawn from cf::hostile (NUL, 2/3-byte boundaries, supplementary characters, lone and reversed
/// surrogates, one-character and long names, class names filling a descriptor edge to edge), emitted under a canonical and a
/// random layout in turn, read by the real reader under the interpreter and compared fact by fact as the ordinary workload does.
fn miri_slice(seed: u64, cases: usize, max_s: u64) -> i32 {
    let mut rep = Report::new();
    let deadline = std::time::Instant::now() + std::time::Duration::from_secs(max_s);
    // parameter annotations off: the reader drops them (known finding), and reporting that costs seconds of interpreter time per case
    let cfg = gen::GenCfg { max_fields: 2, max_methods: 2, max_insns: 6, param_annotations: false, ..gen::GenCfg::default() };
    let mut tags = std::collections::BTreeSet::new();
    let (mut i, mut bytes_read, mut skipped) = (0u64, 0usize, 0u64);
    while (i as usize) < cases && std::time::Instant::now() < deadline {
        let mut rng = Rng::new(common::rng::case_seed(seed, "C01/miri", i));
        rep.cur = ("miri".into(), i);
        let mut m = gen::gen_class(&mut rng, &cfg);
        // "long" names: up to 48 bytes in most cases, 300 in every fourth, 4000 in every sixteenth (interpreter time goes with the bytes)
        tags.extend(cf::hostile::hostilise(&mut rng, &mut m, (1, 2), if i % 16 == 15 { 4000 } else if i % 4 == 3 { 300 } else { 48 }));
        let layout = if i % 2 == 0 { emit::Layout::canonical() } else { let mut l = emit::Layout::random(rng.next_u64()); if rng.chance(1, 4) { l.pool_filler = 250 + rng.below(20); } l };
        let lname = if layout.canonical { "canonical".to_string() } else { format!("random seed={} filler={}", layout.seed, layout.pool_filler) };
        i += 1;
        let bytes = match emit::emit(&m, &layout) { Ok(b) => b, Err(_) => { skipped += 1; continue; } };
        match parse::parse(&bytes) {
            Ok(p) if p == m => {}
            other => { eprintln!("HARNESS-ERROR miri slice: parse(emit(M)) != M (case {}, layout {lname}): {:?}", i - 1, other.err()); return 3; }
        }
        rep.eval(); bytes_read += bytes.len();
        judge(&mut rep, "generated (miri slice, hostile names)", &m, &bytes, &lname);
    }
    for v in rep.violations.values() { println!("SLICE-OBSERVATION {} ({}x)", v.signature, v.count); }
    println!("MIRI-SLICE done cases={} (asked for {}) evaluations={} observations={} classes_read_equal={} bytes_read={} emit_skipped={} hostile_kinds={}: {}", i, cases, rep.evaluations, rep.violations.len(), rep.get("reads.equal"), bytes_read, skipped, tags.len(), tags.iter().copied().collect::<Vec<_>>().join(","));
    0
}

fn main() {
    if let Some((seed, n, max_s)) = common::miri::slice_args() { std::process::exit(miri_slice(seed, n, max_s)); }
    let mut ctx = Ctx::from_args("C01", 40, 480);
    let replay = load_replay(&mut ctx);
    let mut rep = Report::new();
    let cfg = gen::GenCfg::default();

    // ---- harness self-check + canary: the comparison must flag a deliberately wrong expectation
    {
        let mut rng = Rng::new(7);
        let m = gen::gen_class(&mut rng, &cfg);
        let b = emit::emit(&m, &emit::Layout::canonical()).unwrap_or_else(|e| { eprintln!("HARNESS-ERROR emit: {e}"); std::process::exit(3) });
        let mut wrong = m.clone(); wrong.access ^= 1;
        let mut probe = Report::new();
        judge(&mut probe, "canary", &wrong, &b, "canonical");
        if !probe.violations.keys().any(|k| k.contains(".access")) { eprintln!("HARNESS-ERROR canary: wrong expectation not flagged"); std::process::exit(3); }
    }

    // large u4-counted payloads (unknown attributes at every level, SourceDebugExtension): "unrecognised attributes byte-for-byte"
    let nlarge = ctx.tier.pick(160, 6_000);
    run_cases(&ctx, &replay, &mut rep, "large-payload", nlarge, |rng, rep, _| {
        let small = gen::GenCfg { max_fields: 2, max_methods: 2, max_insns: 10, ..gen::GenCfg::default() };
        let mut m = gen::gen_class(rng, &small);
        let (at, size) = gen::add_large_payload(rng, &mut m);
        let layout = if rng.bool() { emit::Layout::canonical() } else { emit::Layout::random(rng.next_u64()) };
        let Ok(bytes) = emit::emit(&m, &layout) else { rep.count("emit.skipped"); return; };
        match parse::parse(&bytes) { Ok(p) if p == m => {}, other => { eprintln!("HARNESS-ERROR parse(emit(M)) != M for a large payload ({at}, {size}): {:?}", other.err()); std::process::exit(3); } }
        rep.eval(); rep.count(&format!("large.{at}")); if size > 65_536 { rep.count("large.over_65536"); }
        rep.seen("large_payload_sizes", &size.to_string());
        rep.nontrivial(common::rng::fnv_str(&format!("large {at} {size}")));
        judge(rep, &format!("generated with a {size}-byte payload at {at}"), &m, &bytes, "large payload");
    });

    // long method bodies: a generated method stretched with no-operand instructions to 32 760 .. 65 000 bytes, so that short-form branches,
    // exception ranges, line numbers and local variable ranges sit at bytecode offsets around and beyond 32 767 (i16 / u16 arithmetic on offsets)
    let nlong = ctx.tier.pick(120, 4_000);
    run_cases(&ctx, &replay, &mut rep, "long-code", nlong, |rng, rep, _| {
        let small = gen::GenCfg { max_fields: 1, max_methods: 2, max_insns: 14, ..gen::GenCfg::default() };
        let mut m = gen::gen_class(rng, &small);
        let Some(mi) = (0..m.methods.len()).find(|i| m.methods[*i].code.as_ref().is_some_and(|c| !c.insns.iter().any(|x| matches!(x, Insn::TableSwitch { .. } | Insn::LookupSwitch { .. })))) else { rep.count("long_code.no_method_to_stretch"); return; };
        let code = m.methods[mi].code.as_mut().unwrap();
        // padding in front (branches then sit in the upper half) or in the middle (a branch across it is refused by the emitter: skipped)
        let pad = *rng.pick(&[32_750usize, 32_760, 32_766, 32_767, 32_768, 32_770, 40_000, 60_000]);
        let at = if rng.chance(3, 4) { 0 } else { rng.below(code.insns.len()) };
        let shift = |p: &mut Pos| { if (*p as usize) >= at { *p += pad as Pos; } };
        for x in code.insns.iter_mut() { match x { Insn::Branch(_, t) => shift(t), Insn::TableSwitch { default, targets, .. } => { shift(default); for t in targets { shift(t); } } Insn::LookupSwitch { default, pairs } => { shift(default); for (_, t) in pairs { shift(t); } } _ => {} } }
        for e in code.exceptions.iter_mut() { shift(&mut e.start); shift(&mut e.end); shift(&mut e.handler); }
        if let Some(l) = &mut code.line_numbers { for (p, _) in l { shift(p); } }
        for tab in [&mut code.lvt, &mut code.lvtt] { if let Some(t) = tab { for v in t { shift(&mut v.start); shift(&mut v.end); } } }
        if let Some(f) = &mut code.frames { for fr in f.iter_mut() { shift(&mut fr.at); let k = &mut fr.kind; let fix = |v: &mut VType| if let VType::Uninit(p) = v { shift(p) }; match k { FrameKind::SameLocals1(v) => fix(v), FrameKind::Append(l) => l.iter_mut().for_each(fix), FrameKind::Full { locals, stack } => { locals.iter_mut().for_each(fix); stack.iter_mut().for_each(fix); } _ => {} } } }
        // type annotations with code positions are dropped rather than shifted (their targets are judged by the other workloads)
        code.vis_type_annotations.clear(); code.invis_type_annotations.clear();
        let filler: Vec<Insn> = (0..pad).map(|_| Insn::Op(0)).collect();
        code.insns.splice(at..at, filler);
        let layout = if rng.bool() { emit::Layout::canonical() } else { emit::Layout::random(rng.next_u64()) };
        let Ok(bytes) = emit::emit(&m, &layout) else { rep.count("long_code.not_emittable (a short branch would cross the padding, or over 65535 bytes)"); return; };
        match parse::parse(&bytes) { Ok(p) if p == m => {}, other => { eprintln!("HARNESS-ERROR parse(emit(M)) != M for a long method: {:?}", other.err()); std::process::exit(3); } }
        rep.eval(); rep.count("long_code.classes");
        let c = m.methods[mi].code.as_ref().unwrap();
        if c.insns.iter().any(|x| matches!(x, Insn::Branch(..))) { rep.count("long_code.with_branch_beyond_32767"); }
        if !c.exceptions.is_empty() { rep.count("long_code.with_exception_range_beyond_32767"); }
        rep.nontrivial(common::rng::fnv_str(&format!("long {pad} {at} {}", c.insns.len() - pad)));
        judge(rep, &format!("generated, one method stretched by {pad} bytes at instruction {at}"), &m, &bytes, "long code");
    });

    // boundary counts: one table grown to 255 / 256 / 32767 / 32768 / 65535 entries
    let nbig = ctx.tier.pick(200, 6_000);
    run_cases(&ctx, &replay, &mut rep, "big-table", nbig, |rng, rep, _| {
        let small = gen::GenCfg { max_fields: 2, max_methods: 2, max_insns: 10, major: Some(65), ..gen::GenCfg::default() };
        let mut m = gen::gen_class(rng, &small);
        let (what, n) = gen::add_big_table(rng, &mut m);
        let layout = if rng.bool() { emit::Layout::canonical() } else { emit::Layout::random(rng.next_u64()) };
        let Ok(bytes) = emit::emit(&m, &layout) else { rep.count("emit.skipped"); return; };
        match parse::parse(&bytes) { Ok(p) if p == m => {}, other => { eprintln!("HARNESS-ERROR parse(emit(M)) != M for a big table ({what}, {n}): {:?}", other.err()); std::process::exit(3); } }
        rep.eval(); rep.count(&format!("big.{what}")); if n >= 32_767 { rep.count(&format!("big.over_32766.{what}")); }
        rep.seen("big_table_sizes", &n.to_string());
        rep.nontrivial(common::rng::fnv_str(&format!("big {what} {n}")));
        judge(rep, &format!("generated with {n} entries in {what}"), &m, &bytes, "big table");
    });

    let corpus = cf::corpus::load(&ctx.verif_dir);
    let corpus_n = corpus.len() as u64;
    run_cases(&ctx, &replay, &mut rep, "corpus", corpus_n, |_rng, rep, i| {
        let (name, bytes) = &corpus[i as usize];
        match parse::parse(bytes) {
            Err(e) => { eprintln!("HARNESS-ERROR independent parser rejects corpus class {name}: {e}"); std::process::exit(3); }
            Ok(m) => {
                rep.eval(); rep.count("corpus.classes");
                let feats = features::features(&m);
                for f in &feats { let (set, member) = f.split_once('.').unwrap_or(("misc", f)); rep.seen(&format!("corpus.{set}"), member); }
                rep.nontrivial(features::fingerprint(&feats) ^ 0xc0);
                judge(rep, &format!("corpus {name}"), &m, bytes, "javac");
                // re-emit the corpus model under random layouts too (same facts, other pool order / encodings)
                let mut r2 = Rng::new(rng_seed(name));
                for _ in 0..2 {
                    let l = emit::Layout::random(r2.next_u64());
                    if let Ok(b2) = emit::emit(&m, &l) {
                        match parse::parse(&b2) { Ok(p) if p == m => {}, other => { eprintln!("HARNESS-ERROR re-emitted corpus class {name} does not parse back: {:?}", other.err()); std::process::exit(3); } }
                        rep.eval(); rep.count("corpus.relayouts");
                        judge(rep, &format!("corpus {name} re-emitted"), &m, &b2, &format!("random seed={}", l.seed));
                    }
                }
            }
        }
    });

    // the bulk workload last: the three small workloads above carry coverage obligations of their own and must not be starved by the
    // wall-clock budget on a loaded machine (the budget only ever ends generation early)
    let n = ctx.tier.pick(40_000, 1_200_000);
    run_cases(&ctx, &replay, &mut rep, "generated", n, |rng, rep, _| {
        let mut m = gen::gen_class(rng, &cfg);
        // every fifth class: names, descriptors and strings redrawn from cf::hostile (NUL, encoding boundaries, lone / reversed
        // surrogates, one-character and very long names, class names filling a descriptor edge to edge)
        if rng.chance(1, 5) { let lm = if rng.chance(1, 25) { 5000 } else { 60 }; for t in cf::hostile::hostilise(rng, &mut m, (1, 3), lm) { rep.seen("hostile_names", t); } rep.count("shape.hostile_names"); }
        let m = m;
        let feats = features::features(&m);
        if m.methods.iter().any(|x| x.name.ascii() == Some("siblings$dyn")) { rep.count("shape.sibling_dynamics"); }
        { let deep = |a: &Vec<Annotation>| a.iter().any(|x| x.type_.ascii() == Some("Ldeep/Anno;"));
          if deep(&m.vis_annotations) || deep(&m.invis_annotations) || m.fields.iter().any(|f| deep(&f.vis_annotations) || deep(&f.invis_annotations)) || m.methods.iter().any(|f| deep(&f.vis_annotations) || deep(&f.invis_annotations)) { rep.count("shape.annotation_nested_40_to_200_levels"); } }
        let mut any = false;
        for li in 0..3u64 {
            let layout = if li == 0 { emit::Layout::canonical() } else { let mut l = emit::Layout::random(rng.next_u64()); if rng.chance(1, 4) { l.pool_filler = 250 + rng.below(20); } l };
            let lname = if li == 0 { "canonical".to_string() } else { format!("random seed={} filler={}", layout.seed, layout.pool_filler) };
            let bytes = match emit::emit(&m, &layout) { Ok(b) => b, Err(e) => { rep.count("emit.skipped"); rep.note(format!("emit skipped: {}", template(&e))); continue; } };
            // harness self-check: the independent parser must read back the model exactly
            match parse::parse(&bytes) {
                Ok(p) if p == m => {}
                Ok(p) => { let d = diff::diff(&m, &p, 3); eprintln!("HARNESS-ERROR parse(emit(M)) != M at {:?} (case {:?})", d, rep.cur); std::process::exit(3); }
                Err(e) => { eprintln!("HARNESS-ERROR parse(emit(M)) failed: {e} (case {:?}, layout {lname})", rep.cur); std::process::exit(3); }
            }
            rep.eval(); any = true;
            if li > 0 { rep.count("layouts.random"); if layout.pool_filler > 0 { rep.count("layouts.pool_over_255"); } }
            judge(rep, "generated", &m, &bytes, &lname);
            if li == 0 && bytes.len() < 600 { rep.sample(|| json!({"kind": "generated class", "bytes_hex": hex(&bytes), "features": feats.iter().take(40).collect::<Vec<_>>() })); }
        }
        if any {
            for f in &feats { let (set, member) = f.split_once('.').unwrap_or(("misc", f)); rep.seen(set, member); }
            if m.methods.iter().any(|x| x.code.is_some()) || !m.fields.is_empty() { rep.nontrivial(features::fingerprint(&feats)); }
        }
    });


    let mut meta = Meta::new("exploration", "seeded generator of well-formed class models (versions 45..67, all opcodes/attribute kinds) x 3 layouts (canonical + 2 random: pool order, unused/duplicate entries, indices pushed over 255, attribute order, ldc/ldc_w, xload_n/xload/wide, goto/goto_w, iinc/wide iinc, frame encodings, split line tables) plus the vendored javac corpus (as compiled and re-emitted under random layouts); a case is non-trivial if the class has a field or a method with code; distinct = distinct feature-set fingerprint (opcode families, attribute kinds, constant kinds, frame kinds, type-annotation targets, version, size bucket)")
        .assume("the independent parser and emitter (harness/cf) implement JVMS chapter 4 correctly; they are cross-checked against each other on every case and against javac output")
        .assume("well-formed = accepted by the strict structural parser; verification-level constraints (types on the stack etc.) are not part of well-formedness here");
    if replay.is_none() {
        meta.oblige("at least 150 opcode families observed in generated code", rep.seen_n("insn") >= 150);
        meta.oblige("all 5 frame kinds observed", rep.seen_n("frame") >= 5);
        meta.oblige("pool indices pushed over 255 in some layout", rep.get("layouts.pool_over_255") > 0);
        meta.oblige("corpus classes were read", rep.get("corpus.classes") >= 100);
        meta.oblige("locals in all three index classes", rep.seen_n("local") >= 3);
        meta.oblige("tables with 32767 or more entries were read (interfaces, inner classes, NestMembers, PermittedSubclasses, Exceptions, line numbers, local variables, exception table)", ["interfaces", "inner_classes", "nest_members", "permitted_subclasses", "method.exceptions", "code.line_numbers", "code.lvt", "code.exception_table"].iter().all(|k| rep.get(&format!("big.over_32766.{k}")) > 0));
        meta.oblige("methods with dynamic constants / call sites sharing one bootstrap method entry", rep.get("shape.sibling_dynamics") > 0);
        meta.oblige("classes with an annotation nested 40..200 levels deep", rep.get("shape.annotation_nested_40_to_200_levels") >= 20);
        meta.oblige("attribute payloads larger than 65536 bytes were read at class, field, method and Code level and as SourceDebugExtension", rep.get("large.over_65536") >= 30 && ["large.class.unknown", "large.class.source_debug_extension", "large.field.unknown", "large.method.unknown", "large.code.unknown"].iter().all(|k| rep.get(k) > 0));
    }
    if replay.is_none() {
        if ctx.tier == Tier::Thorough {
            let r = common::miri::run_slice(&ctx, "c01", env!("CARGO_MANIFEST_DIR"), MIRI_CASES, 170, 300);
            if let Some(line) = r.ub { rep.cur = ("miri".into(), 0); rep.violation(format!("miri: {line}"), json!({"how": format!("cargo +nightly miri run --offline -p c01 -- --miri-slice <seed> {MIRI_CASES} 170"), "seed": ctx.seed as i64, "status": r.status})); }
            meta.extra.insert("miri_slice".into(), json!(r.status));
        } else { meta.extra.insert("miri_slice".into(), json!("not run in the quick tier")); }
    }
    std::process::exit(finish(&ctx, rep, meta));
}
/// cases asked of the Miri slice in the thorough tier; it stops by itself after 170 s (measured: 6-9 s per case, see NOTES.md)
const MIRI_CASES: usize = 40;

fn rng_seed(s: &str) -> u64 { common::rng::fnv_str(s) }
