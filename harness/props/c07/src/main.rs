//! C07 — remapping a jar renames every reference consistently and nothing else.
//!
//! Real code: `dukebox::remap::remap(jar, remapper)` -> `ParsedJar` -> `to_mem()`, over every jar storage type
//! (`NamedMemJar`, `UnnamedMemJar`, `FileJar`, `ParsedJar` with raw and with parsed classes), driven with real
//! `quill` remappers (`Mappings::remapper_b` over `JarSuperProv`s: the jar's own `get_super_classes_provider()`
//! plus a provider for the hierarchy outside the jar).
//! Oracle: the result is re-opened with the `zip` crate, every class is parsed with the harness' independent strict
//! parser (`cf::parse`) and compared with `rename_ref(cf::parse(input class), R)` (module `rename`), a walk over the
//! harness' own semantic model that asks the real remapper R for every original reference. Entry names, non-class
//! entries and directories are compared byte for byte. The duke trees inside the `ParsedJar` are additionally
//! projected (`cf::project`) to see the stack-map types, which the class writer never emits.
mod compare;
mod conv;
mod jargen;
mod jario;
mod rename;

use cf::{emit, features, model::*, parse, project};
use common::{par::*, report::{finish, Meta}, *};
use conv::{Answers, AskErr};
use dukebox::storage::{ClassRepr, FileJar, Jar, JarEntryEnum, NamedMemJar, UnnamedMemJar};
use indexmap::{IndexMap, IndexSet};
use jario::{Item, RawEntry};
use maps::model::{to_quill, Ins, Maps};
use quill::remapper::JarSuperProv;
use quill::tree::mappings::Mappings;
use quill::tree::names::Namespace;
use rename::{JarIndex, Stats};
use std::collections::{BTreeMap, BTreeSet};

const FRONT_ENDS: [&str; 5] = ["NamedMemJar(zip bytes)", "UnnamedMemJar(zip bytes)", "ParsedJar(ClassRepr::Vec)", "ParsedJar(ClassRepr::Parsed)", "FileJar"];

struct Job {
    what: String,
    entries: Vec<RawEntry>,
    /// entry index -> model of the input class (parsed by the independent parser)
    models: BTreeMap<usize, Class>,
    maps: Maps,
    from: usize,
    to: usize,
    ext_provider: bool,
    /// build the jar's super-class provider from the models instead of calling Jar::get_super_classes_provider
    own_provider: bool,
    front: usize,
    deflate: Vec<bool>,
    ins_seed: u64,
    scratch_file: String,
    tags: BTreeSet<String>,
}

fn template(msg: &str) -> String {
    let mut out = String::new(); let mut in_q = false; let mut in_num = false;
    for c in msg.chars() {
        if c == '"' { in_q = !in_q; if in_q { out.push_str("\"..\""); } continue; }
        if in_q { continue; }
        if c.is_ascii_digit() { if !in_num { out.push('#'); in_num = true; } continue; }
        in_num = false; out.push(c);
    }
    out.chars().take(140).collect()
}

fn ojs(s: &str) -> Option<duke::tree::class::ObjClassName> { duke::tree::class::ObjClassName::try_from(java_string::JavaString::from(s.to_owned())).ok() }

fn ext_provider() -> JarSuperProv {
    let mut super_classes = IndexMap::new();
    for (c, sup) in jargen::EXT_SUPERS { if let Some(k) = ojs(c) { super_classes.insert(k, sup.iter().filter_map(|x| ojs(x)).collect::<IndexSet<_>>()); } }
    JarSuperProv { super_classes }
}
fn model_provider(models: &BTreeMap<usize, Class>) -> Result<JarSuperProv, String> {
    let mut super_classes = IndexMap::new();
    for m in models.values() {
        let name = conv::to_java(&m.this_class).and_then(|j| duke::tree::class::ObjClassName::try_from(j).map_err(|e| e.to_string()))?;
        let mut set = IndexSet::new();
        for s in m.super_class.iter().chain(m.interfaces.iter()) { set.insert(conv::to_java(s).and_then(|j| duke::tree::class::ObjClassName::try_from(j).map_err(|e| e.to_string()))?); }
        super_classes.insert(name, set);
    }
    Ok(JarSuperProv { super_classes })
}

/// canaries only: judge the real result against a deliberately wrong expectation
#[derive(Clone, Copy, PartialEq)]
enum Wrong { No, Identity, MembersKeepTheirNames }
/// answers class names and descriptors like the wrapped remapper, but never renames a member
struct NoMembers<'a>(&'a dyn Answers);
impl Answers for NoMembers<'_> {
    fn class_any(&self, c: &JS) -> conv::Ans<JS> { self.0.class_any(c) }
    fn field_desc(&self, d: &JS) -> conv::Ans<JS> { self.0.field_desc(d) }
    fn method_desc(&self, d: &JS) -> conv::Ans<JS> { self.0.method_desc(d) }
    fn return_desc(&self, d: &JS) -> conv::Ans<JS> { self.0.return_desc(d) }
    fn field(&self, _: &JS, n: &JS, d: &JS) -> conv::Ans<(JS, JS)> { Ok((n.clone(), self.0.field_desc(d)?)) }
    fn method(&self, _: &JS, n: &JS, d: &JS) -> conv::Ans<(JS, JS)> { Ok((n.clone(), self.0.method_desc(d)?)) }
    fn field_ref(&self, m: &MemberRef) -> conv::Ans<MemberRef> { Ok(MemberRef { owner: self.0.class_any(&m.owner)?, name: m.name.clone(), desc: self.0.field_desc(&m.desc)? }) }
    fn method_ref(&self, m: &MemberRef) -> conv::Ans<MemberRef> { Ok(MemberRef { owner: self.0.class_any(&m.owner)?, name: m.name.clone(), desc: self.0.method_desc(&m.desc)? }) }
}

/// records a violation; the (large) detail is only built when this instance would be the one that is kept
fn viol(rep: &mut Report, sig: String, detail: impl FnOnce() -> Value) {
    let need = match rep.violations.get(&sig) { Some(v) => (rep.cur.0.as_str(), rep.cur.1) < (v.workload.as_str(), v.case), None => true };
    rep.violation(sig, if need { detail() } else { Value::Null });
}

#[derive(Default)]
struct Outcome { renamed_kinds: BTreeSet<&'static str>, renamed_class_refs: u64, renamed_member_refs: u64, classes_compared: u64, classes_equal: u64 }

fn run_job(rep: &mut Report, job: &Job, wrong_oracle: Wrong) -> Outcome {
    match job.maps.n() { 2 => run_n::<2>(rep, job, wrong_oracle), 3 => run_n::<3>(rep, job, wrong_oracle), n => { rep.note(format!("harness: {n} namespaces not supported")); rep.count("harness.namespace"); Outcome::default() } }
}

fn run_n<const N: usize>(rep: &mut Report, job: &Job, wrong_oracle: Wrong) -> Outcome {
    let mut ins_rng = Rng::new(job.ins_seed);
    let q: Mappings<N, ()> = match to_quill::<N, ()>(&job.maps, &mut Ins::Shuffle(&mut ins_rng)) {
        Ok(q) => q,
        Err(e) => { rep.count("harness.to_quill_failed"); rep.note(format!("to_quill failed: {}", template(&format!("{e:#}")))); return Outcome::default(); }
    };
    let fail = |rep: &mut Report, what: &str| { rep.count("harness.jar_build_failed"); rep.note(format!("building the input jar failed: {}", template(what))); Outcome::default() };
    match job.front {
        0 | 1 | 4 => {
            let data = match jario::zip_bytes(&job.entries, &job.deflate) { Ok(d) => d, Err(e) => return fail(rep, &e) };
            match job.front {
                0 => go::<N, _>(rep, job, &q, NamedMemJar { name: "input.jar".into(), data }, wrong_oracle),
                1 => go::<N, _>(rep, job, &q, UnnamedMemJar { data }, wrong_oracle),
                _ => {
                    if let Some(dir) = std::path::Path::new(&job.scratch_file).parent() { let _ = std::fs::create_dir_all(dir); }
                    if let Err(e) = std::fs::write(&job.scratch_file, &data) { return fail(rep, &e.to_string()); }
                    let o = go::<N, _>(rep, job, &q, FileJar { path: job.scratch_file.clone().into() }, wrong_oracle);
                    let _ = std::fs::remove_file(&job.scratch_file);
                    o
                }
            }
        }
        f => match guard(|| jario::parsed_jar(&job.entries, f == 3)) {
            Ok(Ok(j)) => go::<N, _>(rep, job, &q, j, wrong_oracle),
            Ok(Err(e)) => { rep.violation(format!("C07 input: the class reader refuses a well-formed class: {}", template(e.rsplit(": ").next().unwrap_or(&e))), json!({"error": e, "what": job.what})); Outcome::default() }
            Err(p) => { rep.violation(format!("panic {}", p.site()), json!({"api": "duke::read_class", "message": p.message, "line": p.line})); Outcome::default() }
        },
    }
}

fn go<const N: usize, J: Jar>(rep: &mut Report, job: &Job, q: &Mappings<N, ()>, jar: J, wrong_oracle: Wrong) -> Outcome {
    let mut outcome = Outcome::default();
    let ctxj = || json!({"what": job.what, "front_end": FRONT_ENDS[job.front], "from_namespace": job.from, "to_namespace": job.to, "ext_provider": job.ext_provider, "mappings": job.maps.render()});
    rep.count(&format!("front_end.{}", FRONT_ENDS[job.front]));

    // ---- the remapper: real mappings, real providers
    let jar_prov = if job.own_provider {
        match model_provider(&job.models) { Ok(p) => p, Err(e) => { rep.count("harness.input_rejected_by_checked_constructor"); rep.note(format!("provider: {}", template(&e))); return outcome; } }
    } else {
        match guard(|| jar.get_super_classes_provider()) {
            Ok(Ok(p)) => p,
            Ok(Err(e)) => { let e = format!("{e:#}"); rep.violation(format!("C07 get_super_classes_provider: Err on a well-formed jar: {}", template(e.rsplit(": ").next().unwrap_or(&e))), json!({"error": e, "ctx": ctxj()})); return outcome; }
            Err(p) => { rep.violation(format!("panic {}", p.site()), json!({"api": "Jar::get_super_classes_provider", "message": p.message, "line": p.line, "ctx": ctxj()})); return outcome; }
        }
    };
    let mut provs = vec![jar_prov];
    if job.ext_provider { provs.push(ext_provider()); }
    let (Ok(nf), Ok(nt)) = (Namespace::<N>::new(job.from), Namespace::<N>::new(job.to)) else { rep.count("harness.namespace"); return outcome; };
    // two identical remappers: `remap` consumes one, the oracle asks the other
    let built = guard(|| -> anyhow::Result<_> { Ok((q.remapper_b(nf, nt, &provs)?, q.remapper_b(nf, nt, &provs)?)) });
    let (r_real, r_oracle) = match built {
        Ok(Ok(x)) => x,
        Ok(Err(e)) => { rep.count("harness.remapper_build_failed"); rep.note(format!("remapper_b failed: {}", template(&format!("{e:#}")))); return outcome; }
        Err(p) => { rep.violation(format!("panic {}", p.site()), json!({"api": "Mappings::remapper_b", "message": p.message, "line": p.line, "ctx": ctxj()})); return outcome; }
    };

    // ---- the call under observation
    let parsed = match guard(move || dukebox::remap::remap(jar, r_real)) {
        Ok(Ok(p)) => p,
        Ok(Err(e)) => { let e = format!("{e:#}"); rep.violation(format!("C07 remap: Err on a well-formed jar: {}", template(e.rsplit(": ").next().unwrap_or(&e))), json!({"error": e, "ctx": ctxj(), "classes_hex": job.entries.iter().filter_map(|x| if let Item::Class(b) = &x.item { Some(json!({"entry": x.name, "hex": hex(b)})) } else { None }).take(40).collect::<Vec<_>>() })); return outcome; }
        Err(p) => { rep.violation(format!("panic {}", p.site()), json!({"api": "dukebox::remap::remap", "message": p.message, "line": p.line, "ctx": ctxj()})); return outcome; }
    };
    rep.eval();
    // duke trees before they are written (stack-map frames are only visible here)
    let mut trees: BTreeMap<String, Class> = BTreeMap::new();
    for (name, e) in &parsed.entries {
        if let JarEntryEnum::Class(ClassRepr::Parsed { class }) = &e.content { if let Ok(m) = guard(|| project::project(class)) { trees.insert(name.clone(), m); } }
    }
    let mem = match guard(move || parsed.to_mem()) {
        Ok(Ok(m)) => m,
        Ok(Err(e)) => { let e = format!("{e:#}"); rep.violation(format!("C07 to_mem: the remapped jar cannot be written: {}", template(e.rsplit(": ").next().unwrap_or(&e))), json!({"error": e, "ctx": ctxj()})); return outcome; }
        Err(p) => { rep.violation(format!("panic {}", p.site()), json!({"api": "ParsedJar::to_mem", "message": p.message, "line": p.line, "ctx": ctxj()})); return outcome; }
    };
    let outs = match jario::read_zip(&mem.data) {
        Ok(o) => o,
        Err(e) => { rep.violation("C07 result: the remapped jar does not re-open as a zip archive", json!({"error": e, "ctx": ctxj()})); return outcome; }
    };

    // ---- expectation, entry by entry
    let real = conv::Real { r: &r_oracle };
    let no_members = NoMembers(&real);
    let oracle: &dyn Answers = match wrong_oracle { Wrong::No => &real, Wrong::Identity => &conv::Identity, Wrong::MembersKeepTheirNames => &no_members };
    let idx = JarIndex::of(job.models.values());
    let mut stats = Stats::new();
    let mut used = vec![false; outs.len()];
    let names_present = || outs.iter().map(|o| o.name.clone()).take(60).collect::<Vec<_>>();
    for (i, e) in job.entries.iter().enumerate() {
        match &e.item {
            Item::Dir => {
                rep.count("entries.dir");
                let want = e.name.trim_end_matches('/');
                match outs.iter().enumerate().find(|(k, o)| !used[*k] && o.name.trim_end_matches('/') == want) {
                    Some((k, o)) => { used[k] = true; if !o.is_dir { rep.violation("C07 entry: a directory entry is no longer a directory", json!({"entry": e.name, "ctx": ctxj()})); } }
                    None => rep.violation("C07 entry: a directory entry is missing from the remapped jar", json!({"entry": e.name, "present": names_present(), "ctx": ctxj()})),
                }
            }
            Item::Other(data) => {
                rep.count("entries.other");
                match outs.iter().enumerate().find(|(k, o)| !used[*k] && o.name == e.name) {
                    Some((k, o)) => {
                        used[k] = true;
                        if o.is_dir { rep.violation("C07 entry: a non-class entry became a directory", json!({"entry": e.name, "ctx": ctxj()})); }
                        else if o.data != *data { rep.violation("C07 entry: content of a non-class entry changed", json!({"entry": e.name, "expected_hex": hex(data), "observed_hex": hex(&o.data), "ctx": ctxj()})); }
                        else { rep.count("entries.other.identical"); }
                    }
                    None => rep.violation("C07 entry: a non-class entry is missing or renamed", json!({"entry": e.name, "present": names_present(), "ctx": ctxj()})),
                }
            }
            Item::Class(bytes) => {
                rep.count("entries.class");
                let Some(m) = job.models.get(&i) else { continue };
                let cdetail = |extra: Value| json!({"entry": e.name, "class_hex": hex(bytes), "detail": extra, "ctx": ctxj()});
                // expectation through the remapper (a panic or Err of the remapper itself is C06's subject, recorded as harness-side here)
                let expected = guard(|| rename::rename_ref(m, oracle, &idx, &mut stats));
                let expected = match expected {
                    Ok(Ok(x)) => x,
                    Ok(Err(AskErr::Rejected(why))) => { rep.count("harness.input_rejected_by_checked_constructor"); rep.note(format!("checked constructor rejected a generated name: {}", template(&why))); continue; }
                    Ok(Err(AskErr::Remapper(why))) => { rep.count("harness.remapper_refused_a_reference"); rep.note(format!("the remapper answered Err for a reference of a well-formed class: {}", template(&why))); continue; }
                    Err(p) => { rep.violation(format!("panic {}", p.site()), cdetail(json!({"api": "remapper question of the oracle", "message": p.message, "line": p.line}))); continue; }
                };
                let want = format!("{}.class", expected.this_class.show());
                if want != e.name { rep.count("entries.class.renamed"); }
                let found = outs.iter().enumerate().find(|(k, o)| !used[*k] && o.name == want);
                let Some((k, o)) = found else {
                    let still_old = outs.iter().enumerate().any(|(k, o)| !used[k] && o.name == e.name);
                    rep.violation(if still_old && want != e.name { "C07 entry: class entry is not stored under the name of its remapped class (old name kept)" } else { "C07 entry: class entry is not stored under the name of its remapped class" }, cdetail(json!({"expected_entry": want, "present": names_present()})));
                    continue;
                };
                used[k] = true;
                if o.is_dir { rep.violation("C07 entry: a class entry became a directory", cdetail(json!({"expected_entry": want}))); continue; }
                let observed = match parse::parse(&o.data) {
                    Ok(c) => c,
                    Err(err) => { rep.violation(format!("C07 class: a class of the remapped jar is not well-formed: {}", template(&err)), cdetail(json!({"error": err, "output_hex": hex(&o.data), "output_entry": want}))); continue; }
                };
                if observed.this_class != expected.this_class && observed.this_class != m.this_class {
                    // some other class of the jar sits under this name (happens when entry names and class names go out of step)
                    rep.violation("C07 entry: the entry named after the remapped class holds a different class", cdetail(json!({"expected_entry": want, "expected_this_class": expected.this_class.show(), "observed_this_class": observed.this_class.show(), "present": names_present()})));
                    continue;
                }
                outcome.classes_compared += 1; rep.count("classes.compared");
                let findings = compare::compare(m, &expected, &observed, 200);
                if findings.is_empty() { outcome.classes_equal += 1; rep.count("classes.equal_to_expectation"); }
                for f in findings { viol(rep, f.signature.clone(), || cdetail(json!({"at": f.at, "expected": f.expected, "observed": f.observed, "original": f.original, "output_hex": hex(&o.data)}))); }
                // tree level (frames)
                match trees.get(&want) {
                    Some(t) => { rep.count("trees.compared"); for f in compare::compare_frames(m, &expected, t, 50) { viol(rep, f.signature.clone(), || cdetail(json!({"at": f.at, "expected": f.expected, "observed": f.observed, "original": f.original}))); } }
                    None => rep.count("trees.not_available"),
                }
                // informational: Signature strings that still mention a class the remapper renames (not judged)
                for sig in m.signature.iter().chain(m.fields.iter().filter_map(|f| f.signature.as_ref())).chain(m.methods.iter().filter_map(|x| x.signature.as_ref())) {
                    rep.count("not_judged.signature_strings");
                    if sig.0.contains(&b'L') { if let Some(c) = sig_classes(sig).into_iter().find(|c| oracle.class_any(c).map(|r| r != *c).unwrap_or(false)) { let _ = c; rep.count("not_judged.signature_strings_mentioning_a_renamed_class"); } }
                }
            }
        }
    }
    for (k, o) in outs.iter().enumerate() { if !used[k] { rep.violation("C07 entry: unexpected entry in the remapped jar", json!({"entry": o.name, "present": names_present(), "ctx": ctxj()})); } }
    if outs.len() == job.entries.len() { rep.count("jars.same_entry_count"); }
    for (kind, (visited, renamed)) in &stats {
        rep.add(&format!("visited.{kind}"), *visited); rep.add(&format!("renamed.{kind}"), *renamed);
        if *renamed > 0 { outcome.renamed_kinds.insert(kind); rep.seen("renamed_position_kinds", kind); }
        if kind.ends_with(".name") || kind.ends_with(".const") || kind.ends_with("(lambda)") || kind.ends_with("element_name") { outcome.renamed_member_refs += renamed; } else if !kind.starts_with("in.") { outcome.renamed_class_refs += renamed; }
    }
    outcome
}

/// class names between `L` and `;`/`<` in a generic signature (only used for an informational counter)
fn sig_classes(s: &JS) -> Vec<JS> {
    let b = &s.0; let mut out = vec![]; let mut i = 0;
    while i < b.len() { if b[i] == b'L' { let e = b[i + 1..].iter().position(|c| matches!(c, b';' | b'<')).map(|p| i + 1 + p).unwrap_or(b.len()); if e > i + 1 { out.push(JS(b[i + 1..e].to_vec())); } i = e; } else { i += 1; } }
    out
}

fn emit_checked(m: &Class, layout: &emit::Layout, what: &str) -> Option<Vec<u8>> {
    let b = emit::emit(m, layout).ok()?;
    match parse::parse(&b) {
        Ok(p) if p == *m => Some(b),
        Ok(p) => { let d = cf::diff::diff(m, &p, 3); eprintln!("HARNESS-ERROR parse(emit(M)) != M at {d:?} ({what})"); std::process::exit(3) }
        Err(e) => { eprintln!("HARNESS-ERROR parse(emit(M)) failed: {e} ({what})"); std::process::exit(3) }
    }
}

fn generated_job(rng: &mut Rng, max_classes: usize, scratch: &str, case: u64) -> Job {
    let sc = jargen::gen_scenario(rng, max_classes);
    let mut entries = vec![]; let mut models = BTreeMap::new(); let mut tags = sc.tags.clone();
    for e in &sc.entries {
        match e {
            jargen::Entry::Dir(n) => entries.push(RawEntry { name: n.clone(), item: Item::Dir }),
            jargen::Entry::Other(n, d) => entries.push(RawEntry { name: n.clone(), item: Item::Other(d.clone()) }),
            jargen::Entry::Class(i) => {
                let m = &sc.classes[*i];
                let layout = if rng.chance(1, 3) { emit::Layout::canonical() } else { let mut l = emit::Layout::random(rng.next_u64()); if rng.chance(1, 8) { l.pool_filler = 250 + rng.below(20); } l };
                let Some(b) = emit_checked(m, &layout, &format!("case {case} class {}", m.this_class.show())) else { tags.insert("a class could not be emitted (skipped)".into()); continue };
                for f in features::features(m) { if f.starts_with("class.") || f.starts_with("const.") || f.starts_with("ev.") { tags.insert(f); } }
                models.insert(entries.len(), m.clone());
                entries.push(RawEntry { name: format!("{}.class", m.this_class.show()), item: Item::Class(b) });
            }
        }
    }
    let deflate = entries.iter().map(|_| rng.bool()).collect();
    Job { what: "generated".into(), entries, models, maps: sc.maps, from: sc.from, to: sc.to, ext_provider: sc.with_ext_provider, own_provider: rng.chance(1, 4), front: if rng.chance(1, 16) { 4 } else { rng.below(4) }, deflate, ins_seed: rng.next_u64(), scratch_file: format!("{scratch}/g{case}.jar"), tags }
}

fn corpus_job(rng: &mut Rng, groups: &BTreeMap<String, Vec<(String, Vec<u8>)>>, scratch: &str, case: u64) -> Job {
    let gnames: Vec<&String> = groups.keys().collect();
    let g = gnames[(case as usize) % gnames.len()];
    let all = &groups[g];
    let keep_all = rng.chance(1, 2);
    let mut entries = vec![]; let mut models = BTreeMap::new(); let mut decls = vec![]; let mut jar_names = vec![];
    let mut tags = BTreeSet::new(); tags.insert(format!("corpus group {g}"));
    for (path, bytes) in all {
        if !keep_all && rng.chance(1, 3) { continue; }
        let m = match parse::parse(bytes) { Ok(m) => m, Err(e) => { eprintln!("HARNESS-ERROR independent parser rejects corpus class {path}: {e}"); std::process::exit(3) } };
        if m.module.is_none() {
            jar_names.push(m.this_class.show());
            for f in &m.fields { decls.push(jargen::Decl { owner: m.this_class.clone(), name: f.name.clone(), desc: f.desc.clone(), method: false }); }
            for x in &m.methods { if x.name.0.first() != Some(&b'<') { decls.push(jargen::Decl { owner: m.this_class.clone(), name: x.name.clone(), desc: x.desc.clone(), method: true }); } }
        }
        models.insert(entries.len(), m.clone());
        entries.push(RawEntry { name: format!("{}.class", m.this_class.show()), item: Item::Class(bytes.clone()) });
    }
    entries.push(RawEntry { name: "META-INF/MANIFEST.MF".into(), item: Item::Other(b"Manifest-Version: 1.0\r\n\r\n".to_vec()) });
    if rng.bool() { entries.insert(0, RawEntry { name: "META-INF/".into(), item: Item::Dir }); entries.push(RawEntry { name: "p/".into(), item: Item::Dir }); let mut shifted = BTreeMap::new(); for (k, v) in models { shifted.insert(k + 1, v); } models = shifted; }
    let (maps, from, to) = jargen::gen_mappings(rng, &jar_names, &["java/lang/Runnable"], &decls, &mut tags);
    let deflate = entries.iter().map(|_| rng.bool()).collect();
    Job { what: format!("corpus {g}"), entries, models, maps, from, to, ext_provider: false, own_provider: rng.chance(1, 4), front: if rng.chance(1, 10) { 4 } else { rng.below(4) }, deflate, ins_seed: rng.next_u64(), scratch_file: format!("{scratch}/c{case}.jar"), tags }
}

fn self_checks() {
    let die = |m: &str| -> ! { eprintln!("HARNESS-ERROR self-check: {m}"); std::process::exit(3) };
    let mut rng = Rng::new(0xC07);
    let mut marked_kinds: BTreeSet<&'static str> = BTreeSet::new();
    for round in 0..40 {
        let sc = jargen::gen_scenario(&mut rng, 8);
        let idx = JarIndex::of(sc.classes.iter());
        for c in &sc.classes {
            // (a) under the identity remapper rename_ref is the identity
            let mut r = rename::Renamer::new(&conv::Identity, &idx, false);
            match r.class_file(c) { Ok(x) if x == *c => {}, _ => die("rename_ref under the identity remapper changed a class") }
            if r.stats.values().any(|(_, n)| *n > 0) { die("identity remapper counted as renaming"); }
            // (b) a marking remapper: the expectation differs, the comparator says so, classifies untouched references as not_remapped,
            //     accepts the expectation itself and accepts any value at an unjudged position
            let mut st = Stats::new();
            let Ok(e) = rename::rename_ref(c, &conv::Marker, &idx, &mut st) else { die("rename_ref failed under the marking remapper") };
            for (k, (_, n)) in &st { if *n > 0 { marked_kinds.insert(k); } }
            let f = compare::compare(c, &e, c, 500);
            if f.is_empty() { die("comparator accepted an unremapped class against a renaming expectation"); }
            if !f.iter().any(|x| x.signature.ends_with(":not_remapped")) { die("comparator did not classify an untouched reference as not_remapped"); }
            if f.iter().any(|x| x.signature.contains("signature") || x.signature.contains("lvtt")) { die("comparator judged a Signature string"); }
            let mut r2 = rename::Renamer::new(&conv::Marker, &idx, false);
            let Ok(e_plain) = r2.class_file(c) else { die("rename_ref failed") };
            let mut e_names = e_plain.clone();
            // unjudged names may be anything
            for m in &mut e_names.methods { if let Some(s) = &mut m.signature { *s = JS::new("Lwhatever;"); } }
            if let Some(ic) = &mut e_names.inner_classes { for i in ic { if let Some(n) = &mut i.name { *n = JS::new("Other"); } } }
            if !compare::compare(c, &e, &e_names, 50).is_empty() { die("comparator rejected an output that differs from the expectation only at unjudged positions"); }
            // a single wrong reference must be flagged
            let mut wrong = e_plain.clone(); wrong.this_class = c.this_class.clone();
            if !compare::compare(c, &e, &wrong, 50).iter().any(|x| x.signature == "C07 fact .this_class:not_remapped") { die("canary: unremapped this_class not flagged"); }
            let mut wrong = e_plain.clone(); wrong.access ^= 1;
            if !compare::compare(c, &e, &wrong, 50).iter().any(|x| x.signature == "C07 fact .access:differs") { die("canary: changed access flags not flagged"); }
            if c.methods.iter().any(|m| m.code.as_ref().is_some_and(|k| k.frames.as_ref().is_some_and(|f| !f.is_empty()))) {
                let mut wrong = e_plain.clone(); for m in &mut wrong.methods { if let Some(k) = &mut m.code { k.frames = None; } }
                if !compare::compare(c, &e, &wrong, 50).iter().any(|x| x.signature == "C07 fact .methods[].code.frames:missing") { die("canary: dropped frames not flagged"); }
            }
        }
        let _ = round;
    }
    let missing: Vec<&&str> = rename::KINDS.iter().filter(|k| !marked_kinds.contains(**k)).collect();
    if !missing.is_empty() { die(&format!("the scenario generator never produced these reference positions in 40 jars: {missing:?}")); }
}

/// end-to-end canary: the real remap judged against a deliberately wrong expectation (identity) must be flagged
fn end_to_end_canary(scratch: &str) {
    let mut rng = Rng::new(0xE2E);
    for case in 0..50 {
        let mut job = generated_job(&mut rng, 6, scratch, 1_000_000 + case);
        job.front = (case % 4) as usize;
        let mut probe = Report::new();
        let real = run_job(&mut Report::new(), &job, Wrong::No);
        // needs: some class stored under a new name that no other class of the jar gives up (no name swap), renamed members
        if job.tags.contains("two classes swap names") || !real.renamed_kinds.contains("this_class") || real.renamed_kinds.iter().filter(|k| ["field_decl.name", "method_decl.name", "insn.field.name", "insn.invoke.name"].contains(k)).count() < 2 { continue; }
        run_job(&mut probe, &job, Wrong::Identity);
        let sigs: Vec<String> = probe.violations.keys().cloned().collect();
        if !sigs.iter().any(|s| s.starts_with("C07 entry: class entry is not stored")) { eprintln!("HARNESS-ERROR end-to-end canary: a wrong expectation for class names was not flagged ({sigs:?})"); std::process::exit(3); }
        let mut probe = Report::new();
        run_job(&mut probe, &job, Wrong::MembersKeepTheirNames);
        let sigs: Vec<String> = probe.violations.keys().cloned().collect();
        if !sigs.iter().any(|s| s.starts_with("C07 fact ") && s.ends_with(":differs")) { eprintln!("HARNESS-ERROR end-to-end canary: a wrong expectation for references was not flagged ({sigs:?})"); std::process::exit(3); }
        return;
    }
    eprintln!("HARNESS-ERROR end-to-end canary: no scenario with renamed class and member references in 50 tries"); std::process::exit(3);
}

fn main() {
    let mut ctx = Ctx::from_args("C07", 40, 540);
    let replay = load_replay(&mut ctx);
    let mut rep = Report::new();
    let scratch = format!("{}/scratch/c07-{}", ctx.out_dir, std::process::id());
    if replay.is_none() {
        // same stack size as the workers of run_cases (the projections / JSON forms of deeply nested annotations recurse)
        let sc = scratch.clone();
        let h = std::thread::Builder::new().stack_size(64 << 20).spawn(move || { self_checks(); end_to_end_canary(&sc); }).expect("spawn self-check thread");
        if h.join().is_err() { eprintln!("HARNESS-ERROR self-checks panicked"); std::process::exit(3); }
        rep.note(format!("self-checks and canaries took {:.1}s", ctx.elapsed_s()));
        if std::env::var("C07_TIMING").is_ok() { eprintln!("C07_TIMING self-checks {:.1}s", ctx.elapsed_s()); }
    }

    let account = |rep: &mut Report, job: &Job, o: &Outcome| {
        for t in &job.tags { rep.seen("scenario", t); }
        rep.add("refs.class_answers_that_rename", o.renamed_class_refs); rep.add("refs.member_answers_that_rename", o.renamed_member_refs);
        if o.classes_compared >= 1 && o.renamed_class_refs > 0 && o.renamed_member_refs > 0 {
            let mut s = String::new(); for t in &job.tags { s.push_str(t); s.push('|'); } for k in &o.renamed_kinds { s.push_str(k); s.push('|'); }
            rep.nontrivial(common::rng::fnv_str(&s)); rep.count("jars.nontrivial");
        }
        if rep.want_sample() && job.entries.len() <= 6 && o.renamed_class_refs > 0 {
            rep.sample(|| json!({"kind": job.what, "front_end": FRONT_ENDS[job.front], "entries": job.entries.iter().map(|e| json!({"name": e.name, "kind": match &e.item { Item::Dir => "dir", Item::Class(_) => "class", Item::Other(_) => "other" }, "bytes": match &e.item { Item::Dir => 0, Item::Class(b) | Item::Other(b) => b.len() }})).collect::<Vec<_>>(),
                "first_class_hex": job.entries.iter().find_map(|e| if let Item::Class(b) = &e.item { if b.len() < 700 { Some(hex(b)) } else { None } } else { None }),
                "mappings": job.maps.render(), "from": job.from, "to": job.to, "renamed_position_kinds": o.renamed_kinds.iter().collect::<Vec<_>>()}));
        }
    };

    // the corpus first: it is small, and a time budget that ends generation early must not starve it
    let corpus = cf::corpus::load(&ctx.verif_dir);
    let mut groups: BTreeMap<String, Vec<(String, Vec<u8>)>> = BTreeMap::new();
    for (path, bytes) in corpus { let g = path.split('/').next().unwrap_or("").to_string(); groups.entry(g).or_default().push((path, bytes)); }
    // a small slice of the corpus first (a time budget that ends generation early must not starve it, and it must not starve
    // the generated workload either); the thorough tier runs the bulk of the corpus jars after the generated ones
    let nc = if groups.is_empty() { 0 } else { 60 };
    run_cases(&ctx, &replay, &mut rep, "corpus", nc, |rng, rep, case| {
        let job = corpus_job(rng, &groups, &scratch, case);
        let o = run_job(rep, &job, Wrong::No);
        rep.count("jars.corpus");
        account(rep, &job, &o);
    });
    if std::env::var("C07_TIMING").is_ok() { eprintln!("C07_TIMING corpus done {:.1}s", ctx.elapsed_s()); }
    let n = ctx.tier.pick(6_000, 120_000);
    let max_classes = ctx.tier.pick(10, 40);
    run_cases(&ctx, &replay, &mut rep, "generated", n, |rng, rep, case| {
        // every 8th jar up to 40 classes (quick: every 32nd), every 128th up to 150: sizes at which containers / lookups may change strategy
        let job = generated_job(rng, if case % 128 == 127 { 150 } else if case % 8 == 7 && (max_classes > 10 || case % 32 == 31) { 40 } else { 10 }, &scratch, case);
        let o = run_job(rep, &job, Wrong::No);
        rep.count("jars.generated");
        account(rep, &job, &o);
    });

    let nc2 = if groups.is_empty() { 0 } else { ctx.tier.pick(0, 5_000) };
    run_cases(&ctx, &replay, &mut rep, "corpus-more", nc2, |rng, rep, case| {
        let job = corpus_job(rng, &groups, &scratch, 1_000_000 + case);
        let o = run_job(rep, &job, Wrong::No);
        rep.count("jars.corpus");
        account(rep, &job, &o);
    });
    let _ = std::fs::remove_dir_all(&scratch);
    if std::env::var("C07_TIMING").is_ok() { eprintln!("C07_TIMING generated done {:.1}s", ctx.elapsed_s()); }

    let mut meta = Meta::new("exploration", "jars of 1..10 (every 8th, quick every 32nd: up to 40; every 128th: up to 150) generated classes (cf::gen, references re-pointed at members declared inside the jar, in super types inside and outside the jar; inner-class / nest / sealed records between jar classes; overloads, same-named fields, enum constants, lambda-shaped call sites) plus resources and directories, and jars of javac corpus groups; mapping sets keyed by the jar's own classes and members (partial, package moves, inner classes following their outer class, identity entries, 2-cycles, 2 or 3 namespaces in every direction); five jar front ends; a jar is non-trivial if at least one class-name answer and one member-name answer of the remapper differ from the original; distinct = distinct (scenario tags, set of position kinds renamed)")
        .assume("the expectation is defined through the real remapper (the property says: what the remapper answers); a defect of the remapper itself is C06's subject")
        .assume("the independent parser/emitter (harness/cf) implement JVMS chapter 4; cross-checked on every generated class (parse(emit(M)) == M) and on the javac corpus")
        .assume("not judged: generic Signature strings and LocalVariableTypeTable signatures, InnerClasses.inner_name, invokedynamic/condy names without LambdaMetafactory shape, annotation element names whose annotation type is not a class of the jar, entry order, timestamps/compression of entries");
    if replay.is_none() {
        let need = ctx.tier.pick(10, 100);
        for k in rename::KINDS { meta.oblige(format!("reference position `{k}`: the remapper's answer differed from the original at least {need} times"), rep.get(&format!("renamed.{k}")) >= need); }
        for k in rename::CONTEXTS { meta.oblige(format!("context `{k}`: at least {need} renamed references inside"), rep.get(&format!("renamed.{k}")) >= need); }
        for f in FRONT_ENDS { meta.oblige(format!("front end {f} used"), rep.get(&format!("front_end.{f}")) >= 5); }
        meta.oblige("class entries stored under a new name", rep.get("entries.class.renamed") >= need * 10);
        meta.oblige("non-class entries and directories were present", rep.get("entries.other") >= need && rep.get("entries.dir") >= need);
        meta.oblige("corpus jars were remapped", rep.get("jars.corpus") >= 20);
        meta.oblige("no generated name was rejected by a checked constructor, no harness conversion failed", rep.get("harness.input_rejected_by_checked_constructor") + rep.get("harness.to_quill_failed") + rep.get("harness.jar_build_failed") + rep.get("harness.namespace") + rep.get("harness.remapper_build_failed") + rep.get("harness.remapper_refused_a_reference") == 0);
        for t in ["two classes swap names", "inner class follows outer", "package move", "class mapped to itself", "entry without from/to name", "overloaded method", "same field name, two descriptors", "package-info class moved with its package", "class named *-info renamed"] { meta.oblige(format!("scenario `{t}` occurred"), rep.sets.get("scenario").is_some_and(|s| s.contains(t))); }
    }
    std::process::exit(finish(&ctx, rep, meta));
}
