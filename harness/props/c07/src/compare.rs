//! Comparison of the expectation `rename_ref(parse(input))` with `parse(output)`: generic structural diff over the
//! JSON form of the model (cf::diff), wildcards for the UNJUDGED sentinel, and a three-way classification:
//! a difference whose observed value equals the ORIGINAL value (while the remapper answered something else) is
//! `not_remapped`; anything else keeps the diff's own kind (`differs`, `missing`, `count(fewer)`, ...).
use crate::rename::UNJUDGED;
use cf::{diff, model::Class, project};
use serde_json::Value;

#[derive(Clone, Debug)]
pub struct Finding { pub signature: String, pub at: String, pub expected: String, pub observed: String, pub original: String }

fn wildcard(e: &Value, o: &mut Value) {
    match (e, o) {
        (Value::String(s), o) if s == UNJUDGED => { if o.is_string() { *o = e.clone(); } }
        (Value::Object(a), Value::Object(b)) => for (k, v) in a { if let Some(x) = b.get_mut(k) { wildcard(v, x); } },
        (Value::Array(a), Value::Array(b)) => for (x, y) in a.iter().zip(b.iter_mut()) { wildcard(x, y); },
        _ => {}
    }
}

/// follows a path as produced by cf::diff (`.key`, `[index]`)
pub fn at<'a>(v: &'a Value, path: &str) -> Option<&'a Value> {
    let mut cur = v;
    let b = path.as_bytes();
    let mut i = 0;
    while i < b.len() {
        match b[i] {
            b'.' => { let s = i + 1; let mut e = s; while e < b.len() && b[e] != b'.' && b[e] != b'[' { e += 1; } cur = cur.get(&path[s..e])?; i = e; }
            b'[' => { let s = i + 1; let e = s + path[s..].find(']')?; cur = cur.get(path[s..e].parse::<usize>().ok()?)?; i = e + 1; }
            _ => return None,
        }
    }
    Some(cur)
}
fn short(v: Option<&Value>) -> String { match v { None => "absent".into(), Some(v) => { let s = v.to_string(); if s.len() > 300 { let mut c = 300; while !s.is_char_boundary(c) { c -= 1; } format!("{}...", &s[..c]) } else { s } } } }

/// Position of a fact with the incidental part of its path removed, so that one defect has one signature:
/// an annotation is `@annotation` wherever it sits (class / field / method / parameter / type annotation / default value /
/// nested in another annotation or in arrays), a dynamic constant is `@condy` however deeply it is nested in bootstrap arguments.
pub fn canon(path: &str, at: &str) -> String {
    fn strip_arrays(mut v: &str) -> &str { while let Some(r) = v.strip_prefix(".Array[") { match r.find(']') { Some(p) => v = &r[p + 1..], None => break } } v }
    fn value(v: &str, at: &str) -> String {
        let v = strip_arrays(v);
        if let Some(r) = v.strip_prefix(".Annotation") { return annotation(r, at); }
        format!("@annotation.element_value{v}")
    }
    fn annotation(rest: &str, at: &str) -> String {
        match rest.strip_prefix(".pairs[][]") {
            Some("") => if at.ends_with("[0]") { "@annotation.element_name".into() } else { "@annotation.element_value".into() },
            Some(v) => value(v, at),
            None => format!("@annotation{rest}"),
        }
    }
    for start in ["vis_annotations[]", "vis_type_annotations[].annotation", "vis_param_annotations[][]"] {
        if let Some(p) = path.find(start) { return annotation(&path[p + start.len()..], at); }
    }
    if let Some(p) = path.find(".annotation_default") { return value(&path[p + ".annotation_default".len()..], at); }
    if path.contains(".code.frames[]") && path.ends_with(".Object") { return ".methods[].code.frames[]@verification_type.Object".into(); }
    if let Some(p) = path.rfind(".Dynamic") { return format!("@condy{}", &path[p + ".Dynamic".len()..]); }
    path.to_string()
}

pub fn to_value(c: &Class) -> Value { serde_json::to_value(c).unwrap_or(Value::Null) }

/// `prefix` = "fact" for the re-opened jar, "tree(before writing) fact" for the ParsedJar level
pub fn compare_values(prefix: &str, orig: &Value, exp: &Value, obs: &Value, max: usize) -> Vec<Finding> {
    let mut obs = obs.clone();
    wildcard(exp, &mut obs);
    if *exp == obs { return vec![]; }
    diff::diff(exp, &obs, max).into_iter().map(|d| {
        let (o, e, b) = (at(orig, &d.at), at(exp, &d.at), at(&obs, &d.at));
        let kind = if d.kind == "differs" && o.is_some() && o == b && o != e { "not_remapped".to_string() } else { d.kind.clone() };
        Finding { signature: format!("C07 {prefix} {}:{kind}", canon(&d.path, &d.at)), at: d.at.clone(), expected: d.expected.clone(), observed: d.observed.clone(), original: short(o) }
    }).collect()
}

pub fn compare(orig: &Class, expected: &Class, observed: &Class, max: usize) -> Vec<Finding> {
    let (mut o, mut e, mut b) = (orig.clone(), expected.clone(), observed.clone());
    project::normalise(&mut o); project::normalise(&mut e); project::normalise(&mut b);
    compare_values("fact", &to_value(&o), &to_value(&e), &to_value(&b), max)
}

/// stack-map frames of the duke tree inside the ParsedJar (the writer never emits them, so the re-opened jar
/// cannot show whether their Object types were renamed)
pub fn compare_frames(orig: &Class, expected: &Class, tree: &Class, max: usize) -> Vec<Finding> {
    let frames = |c: &Class| -> Value {
        let mut c = c.clone(); project::normalise(&mut c);
        serde_json::json!({ "methods": c.methods.iter().map(|m| serde_json::json!({ "code": m.code.as_ref().map(|k| serde_json::json!({ "frames": k.frames })) })).collect::<Vec<_>>() })
    };
    compare_values("tree(before writing) fact", &frames(orig), &frames(expected), &frames(tree), max)
}
