//! Seeded generator of jar scenarios: a set of class models that reference each other (hierarchy inside and outside
//! the jar, inner classes, overloads, same-named fields, enum constants used by annotations, lambda-shaped call
//! sites), resources and directories, and a mapping set whose keys are taken FROM those classes.
use cf::gen::{gen_class, GenCfg, G};
use cf::model::*;
use common::Rng;
use maps::model as mm;
use std::collections::{BTreeMap, BTreeSet};

pub const EXT_CLASSES: [&str; 8] = ["java/lang/Object", "java/lang/Enum", "java/lang/Runnable", "ext/Base", "ext/Iface", "ext/deep/Mid", "lib/Util$Nested", "java/lang/annotation/Annotation"];
/// hierarchy outside the jar
pub const EXT_SUPERS: [(&str, &[&str]); 4] = [
    ("ext/Base", &["java/lang/Object"]),
    ("ext/deep/Mid", &["ext/Base", "ext/Iface"]),
    ("lib/Util$Nested", &["ext/deep/Mid", "java/lang/Runnable"]),
    ("ext/Iface", &["java/lang/Object"]),
];
/// members declared outside the jar: (owner, name, desc, is_method)
const EXT_MEMBERS: [(&str, &str, &str, bool); 10] = [
    ("ext/Base", "count", "I", false),
    ("ext/Base", "self", "Lext/Base;", false),
    ("ext/Base", "run", "()V", true),
    ("ext/Base", "get", "(Lext/Base;)Lext/Iface;", true),
    ("ext/Iface", "apply", "(I)I", true),
    ("ext/Iface", "make", "()Lext/deep/Mid;", true),
    ("ext/deep/Mid", "mid", "[Lext/deep/Mid;", false),
    ("ext/deep/Mid", "run", "()V", true),
    ("java/lang/Runnable", "run", "()V", true),
    ("lib/Util$Nested", "count", "J", false),
];
const LMF_DESC: &str = "(Ljava/lang/invoke/MethodHandles$Lookup;Ljava/lang/String;Ljava/lang/invoke/MethodType;Ljava/lang/invoke/MethodType;Ljava/lang/invoke/MethodHandle;Ljava/lang/invoke/MethodType;)Ljava/lang/invoke/CallSite;";

#[derive(Clone, Debug, PartialEq, Eq, PartialOrd, Ord)]
pub struct Decl { pub owner: JS, pub name: JS, pub desc: JS, pub method: bool }

#[derive(Clone, Debug)]
pub enum Entry { Dir(String), Class(usize), Other(String, Vec<u8>) }

#[derive(Clone, Debug)]
pub struct Scenario {
    pub classes: Vec<Class>,
    /// entries in jar order
    pub entries: Vec<Entry>,
    pub maps: mm::Maps,
    pub from: usize,
    pub to: usize,
    /// hand the hierarchy outside the jar to the remapper as a second provider
    pub with_ext_provider: bool,
    pub tags: BTreeSet<String>,
}

fn s(j: &JS) -> String { j.show() }
fn obj_desc(c: &JS) -> JS { let mut v = vec![b'L']; v.extend_from_slice(&c.0); v.push(b';'); JS(v) }
fn is_special(n: &JS) -> bool { n.0.first() == Some(&b'<') }

const PKGS: [&str; 8] = ["", "a/", "a/b/", "net/minecraft/world/", "ünï/", "L/", "p/q/r/", "a/"];
const SIMPLE: [&str; 14] = ["Foo", "Bar", "b", "L", "I", "Z9", "名", "Baz_", "aa", "C_12", "x1", "LFoo", "V", "Outer"];
const INNER: [&str; 7] = ["Inner", "1", "B", "2", "名", "$x", "Builder"];

fn class_names(rng: &mut Rng, k: usize) -> Vec<String> {
    let mut out: Vec<String> = vec![];
    for i in 0..k {
        // 1 in 12: a `package-info` class (an interface javac writes for an annotated package) or another name ending in `-info`
        let mut n = if rng.chance(1, 12) { format!("{}{}", rng.pick(&PKGS[1..]), rng.pick(&["package-info", "package-info", "Odd-info", "x-info"])) }
            else if i > 0 && rng.chance(1, 3) { format!("{}${}", rng.pick(&out).clone(), rng.pick(&INNER)) } else { format!("{}{}", rng.pick(&PKGS), rng.pick(&SIMPLE)) };
        if out.contains(&n) || EXT_CLASSES.contains(&n.as_str()) { n = format!("{n}{i}"); }
        out.push(n);
    }
    out
}

// ---------------------------------------------------------------------------------------------- model walkers
fn walk_ev_mut(v: &mut ElementValue, f: &mut dyn FnMut(&mut ElementValue)) {
    f(v);
    match v { ElementValue::Annotation(a) => walk_ann_mut(a, f), ElementValue::Array(vs) => for x in vs { walk_ev_mut(x, f) }, _ => {} }
}
fn walk_ann_mut(a: &mut Annotation, f: &mut dyn FnMut(&mut ElementValue)) { for (_, v) in &mut a.pairs { walk_ev_mut(v, f); } }
/// every top-level annotation of the class (all lists, all levels)
fn for_each_annotation_mut(c: &mut Class, f: &mut dyn FnMut(&mut Annotation)) {
    fn list(v: &mut [Annotation], f: &mut dyn FnMut(&mut Annotation)) { for a in v { f(a); } }
    fn tlist(v: &mut [TypeAnnotation], f: &mut dyn FnMut(&mut Annotation)) { for a in v { f(&mut a.annotation); } }
    list(&mut c.vis_annotations, f); list(&mut c.invis_annotations, f); tlist(&mut c.vis_type_annotations, f); tlist(&mut c.invis_type_annotations, f);
    for x in &mut c.fields { list(&mut x.vis_annotations, f); list(&mut x.invis_annotations, f); tlist(&mut x.vis_type_annotations, f); tlist(&mut x.invis_type_annotations, f); }
    for m in &mut c.methods {
        list(&mut m.vis_annotations, f); list(&mut m.invis_annotations, f); tlist(&mut m.vis_type_annotations, f); tlist(&mut m.invis_type_annotations, f);
        for p in m.vis_param_annotations.iter_mut().chain(m.invis_param_annotations.iter_mut()) { for l in p { list(l, f); } }
        if let Some(code) = &mut m.code { tlist(&mut code.vis_type_annotations, f); tlist(&mut code.invis_type_annotations, f); }
    }
    if let Some(r) = &mut c.record { for rc in r { list(&mut rc.vis_annotations, f); list(&mut rc.invis_annotations, f); tlist(&mut rc.vis_type_annotations, f); tlist(&mut rc.invis_type_annotations, f); } }
}

struct Universe { fields: Vec<Decl>, methods: Vec<Decl>, enums: Vec<Decl>, descendants: BTreeMap<JS, Vec<JS>>, all_classes: Vec<JS>, noarg: BTreeMap<JS, Vec<JS>> }
impl Universe {
    /// the declaring class or one of its (transitive) subtypes
    fn owner_for(&self, rng: &mut Rng, d: &Decl) -> JS {
        match self.descendants.get(&d.owner) { Some(v) if !v.is_empty() && rng.chance(2, 5) => rng.pick(v).clone(), _ => d.owner.clone() }
    }
    fn field_ref(&self, rng: &mut Rng) -> Option<MemberRef> { if self.fields.is_empty() { return None; } let d = rng.pick(&self.fields).clone(); Some(MemberRef { owner: self.owner_for(rng, &d), name: d.name, desc: d.desc }) }
    fn method_ref(&self, rng: &mut Rng) -> Option<MemberRef> { if self.methods.is_empty() { return None; } let d = rng.pick(&self.methods).clone(); Some(MemberRef { owner: self.owner_for(rng, &d), name: d.name, desc: d.desc }) }
}

fn retarget_handle(h: &mut Handle, u: &Universe, rng: &mut Rng) {
    if !rng.chance(3, 5) { return; }
    match h.kind {
        1..=4 => if let Some(m) = u.field_ref(rng) { h.member = m; },
        8 => h.member.owner = rng.pick(&u.all_classes).clone(),
        _ => if let Some(m) = u.method_ref(rng) { h.member = m; },
    }
}
fn retarget_const(c: &mut Const, u: &Universe, rng: &mut Rng) {
    match c {
        Const::MethodHandle(h) => retarget_handle(h, u, rng),
        Const::Dynamic(d) => { retarget_handle(&mut d.bsm, u, rng); for a in &mut d.args { retarget_const(a, u, rng); } }
        _ => {}
    }
}
fn lambda(u: &Universe, rng: &mut Rng) -> Option<Dynamic> {
    if u.methods.is_empty() { return None; }
    let sam = rng.pick(&u.methods).clone();
    let imp = u.method_ref(rng)?;
    let captures = if rng.bool() { String::new() } else { format!("L{};I", s(rng.pick(&u.all_classes))) };
    Some(Dynamic {
        bsm: Handle { kind: 6, member: MemberRef { owner: JS::new("java/lang/invoke/LambdaMetafactory"), name: JS::new("metafactory"), desc: JS::new(LMF_DESC) }, itf: false },
        args: vec![Const::MethodType(sam.desc.clone()), Const::MethodHandle(Handle { kind: 6, member: imp, itf: false }), Const::MethodType(sam.desc.clone())],
        name: sam.name.clone(),
        desc: JS::new(&format!("({captures})L{};", s(&sam.owner))),
    })
}

/// an instruction that is certain to carry a reference into the jar (replaces a random instruction; instruction
/// indices, hence all positions of the method, stay valid)
fn forced_insn(major: u16, u: &Universe, rng: &mut Rng, cfg: &GenCfg) -> Option<Insn> {
    let cls = |rng: &mut Rng| rng.pick(&u.all_classes).clone();
    Some(match rng.below(12) {
        0 => Insn::Field(rng.usize_in(178, 181) as u8, u.field_ref(rng)?),
        1 => Insn::Invoke(182, u.method_ref(rng)?, false),
        2 => Insn::Invoke(185, u.method_ref(rng)?, true),
        3 => Insn::Type(*rng.pick(&[187u8, 189, 192, 193]), cls(rng)),
        4 => { let dims = rng.usize_in(1, 3); let mut b = vec![b'['; dims]; b.extend(obj_desc(&cls(rng)).0); Insn::MultiANewArray(JS(b), dims as u8) }
        5 => Insn::Ldc(Const::Class(if rng.bool() { cls(rng) } else { let mut b = vec![b'[', b'[']; b.extend(obj_desc(&cls(rng)).0); JS(b) })),
        6 if major >= 51 => Insn::Ldc(Const::MethodType(rng.pick(&u.methods).desc.clone())),
        7 if major >= 51 => { let mut g = G { rng: &mut *rng, cfg, major }; let mut h = g.handle(); retarget_handle(&mut h, u, rng); Insn::Ldc(Const::MethodHandle(h)) }
        8 | 9 if major >= 51 => Insn::InvokeDynamic(Box::new(lambda(u, rng)?)),
        10 if major >= 51 => { let mut g = G { rng: &mut *rng, cfg, major }; let mut d = g.dynamic(true, 0); d.desc = rng.pick(&u.methods).desc.clone(); retarget_handle(&mut d.bsm, u, rng); for a in &mut d.args { retarget_const(a, u, rng); } Insn::InvokeDynamic(Box::new(d)) }
        11 if major >= 55 => { let mut g = G { rng: &mut *rng, cfg, major }; let mut d = g.dynamic(false, 1); d.desc = obj_desc(&cls(rng)); retarget_handle(&mut d.bsm, u, rng); for a in &mut d.args { retarget_const(a, u, rng); } Insn::Ldc(Const::Dynamic(Box::new(d))) }
        _ => return None,
    })
}

fn vtype_pool(v: &mut VType, u: &Universe, rng: &mut Rng) { if let VType::Object(c) = v { if rng.chance(1, 3) { *c = rng.pick(&u.all_classes).clone(); } } }

fn retarget_class(c: &mut Class, u: &Universe, rng: &mut Rng, cfg: &GenCfg) {
    let major = c.major;
    for m in &mut c.methods {
        let Some(code) = &mut m.code else { continue };
        let n = code.insns.len();
        for i in &mut code.insns {
            match i {
                Insn::Field(_, r) => if rng.chance(3, 5) { if let Some(x) = u.field_ref(rng) { *r = x; } },
                Insn::Invoke(_, r, _) => if rng.chance(3, 5) {
                    if is_special(&r.name) { r.owner = rng.pick(&u.all_classes).clone(); } else if let Some(x) = u.method_ref(rng) { *r = x; }
                },
                Insn::Ldc(k) => retarget_const(k, u, rng),
                Insn::InvokeDynamic(d) => { retarget_handle(&mut d.bsm, u, rng); for a in &mut d.args { retarget_const(a, u, rng); } }
                _ => {}
            }
        }
        let forced = rng.small(3);
        for _ in 0..forced { if let Some(x) = forced_insn(major, u, rng, cfg) { let at = rng.below(n); code.insns[at] = x; } }
        for e in &mut code.exceptions { if e.catch.is_some() && rng.chance(1, 3) { e.catch = Some(rng.pick(&u.all_classes).clone()); } }
        if let Some(l) = &mut code.lvt { for v in l { if rng.chance(1, 2) { v.desc_or_sig = obj_desc(rng.pick(&u.all_classes)); } } }
        if let Some(fs) = &mut code.frames { for f in fs { match &mut f.kind { FrameKind::SameLocals1(v) => vtype_pool(v, u, rng), FrameKind::Append(v) => for x in v { vtype_pool(x, u, rng) }, FrameKind::Full { locals, stack } => for x in locals.iter_mut().chain(stack.iter_mut()) { vtype_pool(x, u, rng) }, _ => {} } } }
    }
    // annotations: enum constants that exist, element names that exist
    for_each_annotation_mut(c, &mut |a| {
        if rng.chance(1, 2) {
            if let Some((cls, names)) = pick_map(&u.noarg, rng) { a.type_ = obj_desc(&cls); for (n, _) in &mut a.pairs { *n = rng.pick(&names).clone(); } }
        }
        walk_ann_mut(a, &mut |v| {
            match v {
                ElementValue::Enum(t, k) => if !u.enums.is_empty() && rng.chance(3, 5) { let d = rng.pick(&u.enums); *t = d.desc.clone(); *k = d.name.clone(); },
                ElementValue::Annotation(a2) => if rng.chance(1, 2) { if let Some((cls, names)) = pick_map(&u.noarg, rng) { a2.type_ = obj_desc(&cls); for (n, _) in &mut a2.pairs { *n = rng.pick(&names).clone(); } } },
                _ => {}
            }
        });
    });
}
fn pick_map(m: &BTreeMap<JS, Vec<JS>>, rng: &mut Rng) -> Option<(JS, Vec<JS>)> { if m.is_empty() { return None; } let i = rng.below(m.len()); m.iter().nth(i).map(|(k, v)| (k.clone(), v.clone())) }

// ---------------------------------------------------------------------------------------------- scenario
pub fn gen_scenario(rng: &mut Rng, max_classes: usize) -> Scenario {
    let mut tags = BTreeSet::new();
    let k = if rng.chance(1, 6) { rng.usize_in(1, 2) } else { rng.usize_in(3, max_classes.max(3)) };
    let names = class_names(rng, k);
    let mut pool: Vec<JS> = names.iter().map(|n| JS::new(n)).collect();
    pool.extend(EXT_CLASSES.iter().map(|n| JS::new(n)));
    let mut classes: Vec<Class> = vec![];
    let mut have_module = false;
    for (i, name) in names.iter().enumerate() {
        let major = if rng.chance(1, 2) { Some(*rng.pick(&[52u16, 55, 61, 61, 65, 67])) } else { None };
        let cfg = GenCfg { class_pool: pool.clone(), max_fields: 4, max_methods: 4, max_insns: 24, major, modules: !have_module, ..GenCfg::default() };
        let mut c = gen_class(rng, &cfg);
        if c.module.is_some() { have_module = true; tags.insert("module-info".into()); classes.push(c); continue; }
        c.this_class = JS::new(name);
        c.super_class = match rng.below(10) {
            0..=3 if i > 0 => Some(JS::new(&names[rng.below(i)])),
            0..=5 => Some(JS::new(*rng.pick(&["ext/Base", "ext/deep/Mid", "lib/Util$Nested"]))),
            // the generated super class, unless it would close a cycle (a cyclic hierarchy is not a loadable program; the
            // real remapper recurses without bound on one, which is outside this property's domain)
            6 => match &c.super_class { Some(x) if names.iter().any(|n| n.as_bytes() == x.0.as_slice()) => Some(JS::new("java/lang/Object")), other => other.clone() },
            _ => Some(JS::new("java/lang/Object")),
        };
        c.interfaces.clear();
        for _ in 0..rng.small(2) {
            let itf = if i > 0 && rng.bool() { JS::new(&names[rng.below(i)]) } else { JS::new(*rng.pick(&["ext/Iface", "java/lang/Runnable", "some/Other"])) };
            if !c.interfaces.contains(&itf) && Some(&itf) != c.super_class.as_ref() { c.interfaces.push(itf); }
        }
        classes.push(c);
    }
    if !have_module && rng.chance(1, 5) {
        // a module descriptor whose uses / provides / main class point into the jar
        let cfg = GenCfg { class_pool: pool.clone(), ..GenCfg::default() };
        let major = *rng.pick(&[53u16, 55, 61, 65]);
        let mut g = G { rng: &mut *rng, cfg: &cfg, major };
        let module = g.module();
        let mut c = Class { major, minor: 0, access: 0x8000, this_class: JS::new("module-info"), module: Some(module), ..Default::default() };
        if rng.bool() { c.module_packages = Some(vec![JS::new("a/b"), JS::new("p")]); }
        if rng.chance(2, 3) { c.module_main_class = Some(rng.pick(&pool).clone()); }
        if rng.bool() { c.source_file = Some(JS::new("module-info.java")); }
        classes.push(c); tags.insert("module-info".into());
    }
    // ---- deliberate member shapes
    for c in &mut classes {
        if c.module.is_some() { continue; }
        let this = c.this_class.clone();
        // a record component has a field of the same name and type (as javac emits it)
        if let Some(rcs) = &c.record { for rc in rcs.clone() { if !c.fields.iter().any(|f| f.name == rc.name && f.desc == rc.desc) { c.fields.push(Field { access: 0x0012, name: rc.name.clone(), desc: rc.desc.clone(), ..Default::default() }); } } }
        if rng.chance(1, 2) { let n = format!("{}{}", rng.pick(&["RED", "GREEN", "A", "名"]), if rng.bool() { "" } else { "_1" }); c.fields.push(Field { access: 0x4019, name: JS::new(&n), desc: obj_desc(&this), ..Default::default() }); tags.insert("enum constant".into()); }
        if !c.fields.is_empty() && rng.chance(1, 3) { let f = rng.pick(&c.fields).clone(); let d = if f.desc.0 == b"J" { JS::new("I") } else if rng.bool() { JS::new("J") } else { obj_desc(rng.pick(&pool)) }; if d != f.desc { c.fields.push(Field { access: f.access, name: f.name.clone(), desc: d, ..Default::default() }); tags.insert("same field name, two descriptors".into()); } }
        let plain: Vec<usize> = c.methods.iter().enumerate().filter(|(_, m)| !is_special(&m.name)).map(|(i, _)| i).collect();
        if !plain.is_empty() && rng.chance(1, 3) { let mut m = c.methods[*rng.pick(&plain)].clone(); let mut d = vec![b'(', b'I']; d.extend_from_slice(&m.desc.0[1..]); m.desc = JS(d); if cf::parse::check_method_desc(&m.desc).is_ok() { c.methods.push(m); tags.insert("overloaded method".into()); } }
        if rng.chance(1, 3) { let n = *rng.pick(&["value", "name", "kind"]); let d = if rng.bool() { JS::new("()I") } else { let mut b = b"()[".to_vec(); b.extend(obj_desc(rng.pick(&pool)).0); JS(b) }; if !c.methods.iter().any(|m| m.name.0 == n.as_bytes()) { c.methods.push(Method { access: 0x0401, name: JS::new(n), desc: d, ..Default::default() }); } }
    }
    // ---- inner class / nest / sealed records between classes of the jar
    let index: BTreeMap<String, usize> = classes.iter().enumerate().map(|(i, c)| (s(&c.this_class), i)).collect();
    for i in 0..classes.len() {
        let name = s(&classes[i].this_class);
        let Some(p) = name.rfind('$') else { continue };
        let (outer, simple) = (&name[..p], &name[p + 1..]);
        let Some(&o) = index.get(outer) else { continue };
        if outer.is_empty() || simple.is_empty() { continue; }
        let anonymous = simple.chars().all(|ch| ch.is_ascii_digit());
        let rec = InnerClass { inner: JS::new(&name), outer: if anonymous { None } else { Some(JS::new(outer)) }, name: if anonymous { None } else { Some(JS::new(simple)) }, flags: 0x0008 };
        classes[i].inner_classes.get_or_insert_with(Vec::new).push(rec.clone());
        classes[o].inner_classes.get_or_insert_with(Vec::new).push(rec);
        tags.insert("inner class pair".into());
        if classes[i].major >= 49 && (anonymous || rng.chance(1, 3)) {
            let m = classes[o].methods.iter().filter(|m| m.name.0 != b"<clinit>").map(|m| (m.name.clone(), m.desc.clone())).next();
            classes[i].enclosing_method = Some(EnclosingMethod { class: JS::new(outer), method: if rng.chance(2, 3) { m } else { None } });
        }
        if classes[i].major >= 55 && classes[o].major >= 55 && rng.chance(2, 3) { classes[i].nest_host = Some(JS::new(outer)); classes[i].nest_members = None; classes[o].nest_members.get_or_insert_with(Vec::new).push(JS::new(&name)); classes[o].nest_host = None; }
    }
    for i in 0..classes.len() {
        if classes[i].major >= 61 && rng.chance(1, 2) {
            let me = classes[i].this_class.clone();
            let subs: Vec<JS> = classes.iter().filter(|c| c.super_class.as_ref() == Some(&me) || c.interfaces.contains(&me)).map(|c| c.this_class.clone()).collect();
            if !subs.is_empty() { classes[i].permitted_subclasses = Some(subs); }
        }
    }
    // ---- universe of declared members, subtype relation
    let mut supers: BTreeMap<JS, Vec<JS>> = BTreeMap::new();
    for c in &classes { let mut v: Vec<JS> = c.super_class.iter().cloned().collect(); v.extend(c.interfaces.iter().cloned()); supers.insert(c.this_class.clone(), v); }
    for (c, sup) in EXT_SUPERS { supers.insert(JS::new(c), sup.iter().map(|x| JS::new(x)).collect()); }
    let mut descendants: BTreeMap<JS, Vec<JS>> = BTreeMap::new();
    for start in supers.keys() {
        let mut stack = vec![start.clone()]; let mut seen = BTreeSet::new();
        while let Some(x) = stack.pop() { for sup in supers.get(&x).into_iter().flatten() { if seen.insert(sup.clone()) { descendants.entry(sup.clone()).or_default().push(start.clone()); stack.push(sup.clone()); } } }
    }
    let mut u = Universe { fields: vec![], methods: vec![], enums: vec![], descendants, all_classes: pool.clone(), noarg: BTreeMap::new() };
    for c in &classes {
        if c.module.is_some() { continue; }
        for f in &c.fields { let d = Decl { owner: c.this_class.clone(), name: f.name.clone(), desc: f.desc.clone(), method: false }; if f.desc == obj_desc(&c.this_class) { u.enums.push(d.clone()); } u.fields.push(d); }
        for m in &c.methods { if !is_special(&m.name) { u.methods.push(Decl { owner: c.this_class.clone(), name: m.name.clone(), desc: m.desc.clone(), method: true }); if m.desc.0.starts_with(b"()") && c.methods.iter().filter(|x| x.name == m.name && x.desc.0.starts_with(b"()")).count() == 1 { u.noarg.entry(c.this_class.clone()).or_default().push(m.name.clone()); } } }
    }
    for (o, n, d, method) in EXT_MEMBERS { let x = Decl { owner: JS::new(o), name: JS::new(n), desc: JS::new(d), method }; if method { u.methods.push(x) } else { u.fields.push(x) } }
    let cfg = GenCfg { class_pool: pool.clone(), ..GenCfg::default() };
    for c in &mut classes { if c.module.is_none() { retarget_class(c, &u, rng, &cfg); } }

    let all_decls: Vec<Decl> = u.fields.iter().chain(u.methods.iter()).cloned().collect();
    let jar_names: Vec<String> = classes.iter().filter(|c| c.module.is_none()).map(|c| s(&c.this_class)).collect();
    let (m, from, to) = gen_mappings(rng, &jar_names, &["ext/Base", "ext/Iface", "ext/deep/Mid", "lib/Util$Nested", "java/lang/Runnable"], &all_decls, &mut tags);

    // ---- entries
    let mut entries: Vec<Entry> = (0..classes.len()).map(Entry::Class).collect();
    const RES: [&str; 9] = ["META-INF/MANIFEST.MF", "assets/data.bin", "a/b/notes.txt", "Foo.class.txt", "README", "ünï/名.json", "empty", "a/Foo.classes", "pack.png"];
    let mut used = BTreeSet::new();
    for _ in 0..rng.small(5) {
        let n = *rng.pick(&RES); if !used.insert(n) { continue; }
        let data: Vec<u8> = match rng.below(4) { 0 => vec![], 1 => b"Manifest-Version: 1.0\r\nMain-Class: a.b.Foo\r\n\r\n".to_vec(), 2 => { let mut v = vec![0xCA, 0xFE, 0xBA, 0xBE]; for _ in 0..rng.small(40) { v.push(rng.next_u32() as u8); } v } _ => (0..rng.small(300)).map(|_| rng.next_u32() as u8).collect() };
        entries.push(Entry::Other(n.to_string(), data));
    }
    let mut dirs = BTreeSet::new();
    if rng.chance(1, 2) { for e in &entries { let n = match e { Entry::Class(i) => format!("{}.class", s(&classes[*i].this_class)), Entry::Other(n, _) => n.clone(), Entry::Dir(_) => continue }; let mut p = n.as_str(); while let Some((l, _)) = p.rsplit_once('/') { if rng.chance(1, 2) { dirs.insert(format!("{l}/")); } p = l; } } }
    for d in dirs { entries.push(Entry::Dir(d)); }
    if rng.chance(2, 3) { rng.shuffle(&mut entries); }
    Scenario { classes, entries, maps: m, from, to, with_ext_provider: rng.chance(4, 5), tags }
}

/// A mapping set whose class / member keys are taken from `jar_names` / `decls` (names in the namespace `from`).
pub fn gen_mappings(rng: &mut Rng, jar_names: &[String], ext_mappable: &[&str], decls: &[Decl], tags: &mut BTreeSet<String>) -> (mm::Maps, usize, usize) {
    // ---- mappings
    let n_ns = if rng.chance(1, 3) { 3 } else { 2 };
    let (from, to) = if n_ns == 2 { if rng.chance(1, 6) { (1, 0) } else { (0, 1) } } else { *rng.pick(&[(0usize, 1usize), (0, 2), (1, 2), (2, 1), (1, 0), (0, 2)]) };
    tags.insert(format!("namespaces {n_ns} from {from} to {to}"));
    let mut taken: BTreeSet<String> = jar_names.iter().cloned().collect();
    taken.extend(EXT_CLASSES.iter().map(|x| x.to_string())); taken.extend(ext_mappable.iter().map(|x| x.to_string())); taken.insert("some/Other".into()); taken.insert("module-info".into());
    let mut counter = 0usize;
    let mut fresh = |taken: &mut BTreeSet<String>, base: String| -> String { let mut n = base; while taken.contains(&n) { counter += 1; n = format!("{n}{counter}"); } taken.insert(n.clone()); n };
    const TPKG: [&str; 7] = ["", "x/", "net/minecraft/unmapped/", "a/b/c/", "ü/", "a/", "com/example/"];
    const TSIMPLE: [&str; 10] = ["C_1", "Renamed", "Thing", "名前", "L", "aB", "Entity", "World", "I", "Z"];
    // which classes get an entry
    let mut mapped: Vec<String> = vec![];
    for n in jar_names { if rng.chance(13, 20) { mapped.push(n.clone()); } }
    for n in ext_mappable { if rng.chance(1, 2) { mapped.push(n.to_string()); } }
    let mut target: BTreeMap<String, String> = BTreeMap::new();
    // inner classes after their outer classes so that they can follow the outer's new name
    let mut order = mapped.clone(); order.sort_by_key(|n| n.matches('$').count());
    for n in &order {
        let t = if rng.chance(1, 8) { tags.insert("class mapped to itself".into()); n.clone() } else {
            let inner_of = n.rfind('$').filter(|p| *p > 0).and_then(|p| target.get(&n[..p]).map(|t| (t.clone(), n[p + 1..].to_string())));
            match inner_of {
                Some((outer_t, simple)) if rng.chance(4, 5) => { tags.insert("inner class follows outer".into()); fresh(&mut taken, format!("{outer_t}${}", if simple.chars().all(|c| c.is_ascii_digit()) && !simple.is_empty() { simple } else { rng.pick(&TSIMPLE).to_string() })) }
                // a package-info class follows its package: it keeps its simple name
                _ if n.ends_with("/package-info") && rng.chance(3, 4) => { tags.insert("package-info class moved with its package".into()); let pkg = *rng.pick(&TPKG[1..]); fresh(&mut taken, format!("{pkg}package-info")) }
                _ => { if n.ends_with("-info") { tags.insert("class named *-info renamed".into()); } let same_pkg = rng.chance(1, 4); let pkg = if same_pkg { n.rfind('/').map(|p| n[..=p].to_string()).unwrap_or_default() } else { tags.insert("package move".into()); rng.pick(&TPKG).to_string() }; fresh(&mut taken, format!("{pkg}{}", rng.pick(&TSIMPLE))) }
            }
        };
        target.insert(n.clone(), t);
    }
    // a 2-cycle between two jar classes: A -> B, B -> A
    let both: Vec<String> = mapped.iter().filter(|n| jar_names.contains(n) && target.get(*n) != Some(*n)).cloned().collect();
    let mut swapped: Vec<String> = vec![];
    if both.len() >= 2 && rng.chance(1, 5) { let a = both[0].clone(); let b = both[both.len() - 1].clone(); target.insert(a.clone(), b.clone()); target.insert(b.clone(), a.clone()); swapped = vec![a, b]; tags.insert("two classes swap names".into()); }
    // names in the remaining namespaces
    let mut obf: BTreeMap<String, String> = BTreeMap::new();
    for (i, n) in mapped.iter().enumerate() { obf.insert(n.clone(), fresh(&mut taken, format!("o/{}", short(i)))); }
    let mut m = mm::Maps::new(&["alpha", "beta", "gamma"][..n_ns]);
    let mut dropped: BTreeSet<String> = BTreeSet::new();
    let ns0_of = |cls: &str, target: &BTreeMap<String, String>, obf: &BTreeMap<String, String>| -> Option<String> { if from == 0 { Some(cls.to_string()) } else if to == 0 { target.get(cls).cloned() } else { obf.get(cls).cloned() } };
    for n in &mapped {
        let mut row: mm::Row = vec![None; n_ns];
        for (i, r) in row.iter_mut().enumerate() { if i != from && i != to { *r = if i == 0 || rng.bool() { Some(if i == 0 { obf[n].clone() } else { format!("g/{}", obf[n].replace('/', "_")) }) } else { None }; } }
        row[from] = Some(n.clone()); row[to] = Some(target[n].clone());
        // partial rows: the entry exists but lacks one of the two names -> the remapper must leave the class alone
        if !swapped.contains(n) && rng.chance(1, 10) { if to != 0 { row[to] = None; } else { row[from] = None; } dropped.insert(n.clone()); tags.insert("entry without from/to name".into()); }
        let key = row[0].clone().unwrap_or_default();
        m.classes.insert(key, mm::Class { names: row, ..Default::default() });
    }
    // members
    // descriptor of the jar's namespace written in namespace 0 (the remapper translates it back through its 0 -> from table,
    // which only knows classes that have both names)
    let to_ns0 = |d: &str| -> String { maps::desc::try_map_desc(d, |c| if mapped.iter().any(|x| x == c) && !(to == 0 && dropped.contains(c)) { ns0_of(c, &target, &obf).unwrap_or_else(|| c.to_string()) } else { c.to_string() }).unwrap_or_else(|| d.to_string()) };
    const TMEMBER: [&str; 10] = ["m_1", "f_2", "get", "value", "名", "x$y", "tick", "a", "L", "count"];
    let mut overload_names: BTreeMap<(String, String), String> = BTreeMap::new();
    let mut n_members = 0;
    let mut k = 0usize;
    for d in decls {
        let owner = s(&d.owner);
        if !mapped.contains(&owner) || !rng.chance(3, 5) { continue; }
        let Some(key0) = ns0_of(&owner, &target, &obf) else { continue };
        let Some(cl) = m.classes.get_mut(&key0) else { continue };
        let (name, desc) = (s(&d.name), s(&d.desc));
        k += 1;
        let new_name = if d.method { overload_names.entry((owner.clone(), name.clone())).or_insert_with(|| format!("{}{k}", rng.pick(&TMEMBER))).clone() } else { format!("{}{k}", rng.pick(&TMEMBER)) };
        let mut row: mm::Row = vec![None; n_ns];
        for (i, r) in row.iter_mut().enumerate() { if i != from && i != to { *r = if i == 0 || rng.bool() { Some(format!("o{k}")) } else { None }; } }
        row[from] = Some(name.clone()); row[to] = Some(new_name);
        if rng.chance(1, 12) { if to != 0 { row[to] = None; } else { row[from] = None; } }
        let key = (row[0].clone().unwrap_or_default(), to_ns0(&desc));
        if d.method { cl.methods.insert(key, mm::Method { names: row, ..Default::default() }); } else { cl.fields.insert(key, mm::Field { names: row, ..Default::default() }); }
        n_members += 1;
    }
    tags.insert(format!("mapped classes {}", bucket(mapped.len()))); tags.insert(format!("mapped members {}", bucket(n_members)));

    (m, from, to)
}

fn short(i: usize) -> String { let mut n = i; let mut out = String::new(); loop { out.push((b'a' + (n % 26) as u8) as char); n /= 26; if n == 0 { break; } } out }
fn bucket(n: usize) -> &'static str { match n { 0 => "0", 1..=3 => "1-3", 4..=10 => "4-10", _ => "11+" } }
