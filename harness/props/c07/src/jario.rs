//! Building input jars (zip bytes through the `zip` crate, or dukebox's own in-memory `ParsedJar`) and reading
//! the remapped jar back with the `zip` crate directly (not through dukebox).
use dukebox::storage::{BasicFileAttributes, ClassRepr, JarEntryEnum, ParsedJar, ParsedJarEntry};
use std::io::{Cursor, Read, Write};
use zip::write::SimpleFileOptions;
use zip::CompressionMethod;

#[derive(Clone, Debug, PartialEq, Eq)]
pub enum Item { Dir, Class(Vec<u8>), Other(Vec<u8>) }
#[derive(Clone, Debug, PartialEq, Eq)]
pub struct RawEntry { pub name: String, pub item: Item }

pub fn zip_bytes(entries: &[RawEntry], deflate: &[bool]) -> Result<Vec<u8>, String> {
    let mut w = zip::ZipWriter::new(Cursor::new(Vec::new()));
    for (i, e) in entries.iter().enumerate() {
        let opt = SimpleFileOptions::default().compression_method(if deflate.get(i).copied().unwrap_or(false) { CompressionMethod::Deflated } else { CompressionMethod::Stored });
        match &e.item {
            Item::Dir => w.add_directory(e.name.as_str(), opt).map_err(|x| format!("add_directory {:?}: {x}", e.name))?,
            Item::Class(b) | Item::Other(b) => { w.start_file(e.name.as_str(), opt).map_err(|x| format!("start_file {:?}: {x}", e.name))?; w.write_all(b).map_err(|x| x.to_string())?; }
        }
    }
    Ok(w.finish().map_err(|x| x.to_string())?.into_inner())
}

/// `parse`: hand classes over already parsed by the real reader (ClassRepr::Parsed) instead of as bytes
pub fn parsed_jar(entries: &[RawEntry], parse: bool) -> Result<ParsedJar<ClassRepr, Vec<u8>>, String> {
    let mut jar = ParsedJar { entries: indexmap::IndexMap::new() };
    for e in entries {
        let content = match &e.item {
            Item::Dir => JarEntryEnum::Dir,
            Item::Other(b) => JarEntryEnum::Other(b.clone()),
            Item::Class(b) => JarEntryEnum::Class(if parse { ClassRepr::Parsed { class: duke::read_class(&mut Cursor::new(b)).map_err(|x| format!("{x:#}"))? } } else { ClassRepr::Vec { data: b.clone() } }),
        };
        jar.entries.insert(e.name.clone(), ParsedJarEntry { attr: BasicFileAttributes::default(), content });
    }
    Ok(jar)
}

#[derive(Clone, Debug)]
pub struct OutEntry { pub name: String, pub is_dir: bool, pub data: Vec<u8> }

pub fn read_zip(data: &[u8]) -> Result<Vec<OutEntry>, String> {
    let mut z = zip::ZipArchive::new(Cursor::new(data)).map_err(|e| format!("not a zip archive: {e}"))?;
    let mut out = vec![];
    for i in 0..z.len() {
        let mut f = z.by_index(i).map_err(|e| format!("entry {i}: {e}"))?;
        let mut data = vec![];
        let is_dir = f.is_dir();
        if !is_dir { f.read_to_end(&mut data).map_err(|e| format!("entry {i} ({:?}): {e}", f.name()))?; }
        out.push(OutEntry { name: f.name().to_string(), is_dir, data });
    }
    Ok(out)
}
